"""Driver: python3-vt -m rlxcheck --property Cxx --tier quick|thorough [--repo /repo]"""
from __future__ import annotations

import argparse
import importlib
import json
import os
import sys
import traceback

from .repo import Repo, AnalysisError
from .report import Check, VERIF


def run_property(pid: str, tier: str, repo: Repo, quiet: bool = False) -> Check:
    mod = importlib.import_module(f".props.{pid.lower()}", __package__)
    ck = Check(pid, tier, repo, explanation=getattr(mod, "EXPLANATION", ""), trusted=getattr(mod, "TRUSTED", []), quiet=quiet)
    for rid, text in getattr(mod, "RULES", {}).items():
        ck.rule(rid, text)
    if getattr(repo, "specialised", None):
        # options added after the reference signatures were recorded: the routines are read with these parameters at their defaults
        ck.extra["options_read_at_their_defaults"] = [f"{q}({p}={d})" for q, p, d in repo.specialised[:80]]
    try:
        mod.run(ck, repo, tier)
    except AnalysisError as e:
        ck.incomplete.append(str(e))
    if ck.incomplete and not ck.unlisted_violations():
        # nothing definite was found and part of the analysis could not be carried out: undecided
        raise AnalysisError("; ".join(ck.incomplete))
    return ck


def main(argv=None) -> int:
    ap = argparse.ArgumentParser(prog="rlxcheck")
    ap.add_argument("--property", "-p")
    ap.add_argument("--tier", default=os.environ.get("VERIF_TIER", "quick"), choices=["quick", "thorough"])
    ap.add_argument("--repo", default=os.environ.get("RLXCHECK_REPO", "/repo"))
    ap.add_argument("--evidence-dir", default=os.path.join(VERIF, "evidence"))
    ap.add_argument("--no-evidence", action="store_true")
    ap.add_argument("--explain", help="replay file written by a VIOLATION line: re-derive it from the current tree")
    ap.add_argument("--no-selftest", action="store_true")
    ap.add_argument("--jobs", type=int, default=min(16, os.cpu_count() or 1))
    a = ap.parse_args(argv)

    if a.explain:
        with open(a.explain) as fh:
            rec = json.load(fh)
        pid = rec["property"]
        print(json.dumps(rec, indent=1))
        try:
            ck = run_property(pid, rec.get("tier", "quick"), Repo(a.repo), quiet=True)
        except AnalysisError as e:
            print(f"ANALYSIS-ERROR property={pid} {e}")
            return 2
        hit = [o for o in ck.violations() if (o.rule, o.site, o.key) == (rec["rule"], rec["site"], rec["key"])]
        if hit:
            o = hit[0]
            print(f"REPRODUCED on current tree: {o.loc} rule={o.rule} site={o.site}\n  construct: {o.construct}\n  reason: {o.detail}")
            for w in (o.witness or []):
                print("   |", w)
            print(f"VIOLATION property={pid} replay={a.explain}")
            return 1
        print("not reproduced on the current tree")
        return 0

    pid = a.property
    if not pid:
        ap.error("--property required")
    # watchdog: an analysis that does not terminate is an undecided analysis, never a hang of the caller
    import signal

    def _timeout(signum, frame):
        print(f"ANALYSIS-ERROR property={pid} analysis did not finish within the time limit")
        os._exit(2)
    try:
        signal.signal(signal.SIGALRM, _timeout)
        signal.alarm(int(os.environ.get("RLXCHECK_TIMEOUT", "900" if a.tier == "quick" else "3000")))
    except Exception:
        pass
    try:
        repo = Repo(a.repo)
        ck = run_property(pid, a.tier, repo)
        st = None
        if a.tier == "thorough" and not a.no_selftest:
            from .selftest import run_selftest
            st = run_selftest(pid, a.repo, ck.result_idents(), jobs=a.jobs)
        return ck.finish(None if a.no_evidence else a.evidence_dir, selftest=st)
    except AnalysisError as e:
        print(f"ANALYSIS-ERROR property={pid} {e}")
        return 2
    except Exception as e:  # never let a traceback look like a violation
        traceback.print_exc()
        print(f"ANALYSIS-ERROR property={pid} internal error: {type(e).__name__}: {e}")
        return 2


if __name__ == "__main__":
    sys.exit(main())
