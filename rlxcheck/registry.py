"""Which properties are claimed, with what method (source of MANIFEST.json via tools/gen_manifest.py)."""

CLAIMED = {
    "C01": {
        "technique": "static analysis: statement CFG + reaching definitions + path-sensitive reachability; positional role binding of env.step/reset results to store and act sites",
        "level": "Decides, for all 19 transition-keeping env loops and every CFG path (all episode-length / termination patterns at once), that each "
                 "store site receives position-exact step results of the same iteration, the observation the step acted on, and that a reset "
                 "observation reaches the next step unmodified. A dataflow fact over the CFG covers every history; tests execute ~10 steps.",
        "note": "Trusted: gymnasium step/reset tuple order; value-transparency of int/float/asarray wrappers; vector envs auto-reset. Does not decide "
                "what the buffer does afterwards (C02) nor aliasing of a mutable observation object reused by an environment.",
    },
}

NOT_APPLICABLE = {}
