"""Which properties are claimed, with what method (source of MANIFEST.json via tools/gen_manifest.py)."""

CLAIMED = {
    "C01": {
        "technique": "static analysis: statement CFG + reaching definitions + path-sensitive reachability; positional role binding of env.step/reset results to store and act sites",
        "level": "Decides, for all 19 transition-keeping env loops and every CFG path (all episode-length / termination patterns at once), that each "
                 "store site receives position-exact step results of the same iteration, the observation the step acted on, and that a reset "
                 "observation reaches the next step unmodified. A dataflow fact over the CFG covers every history; tests execute ~10 steps.",
        "note": "Trusted: gymnasium step/reset tuple order; value-transparency of int/float/asarray wrappers; vector envs auto-reset. Does not decide "
                "what the buffer does afterwards (C02) nor aliasing of a mutable observation object reused by an environment.",
    },
    "C11": {
        "technique": "static analysis: product exploration of the statement CFG with bounded counter differences (path counting), truth-table path pruning over (terminated, truncated), control-dependence of learning calls, symbolic (polynomial) step-conservation in the schedulers",
        "level": "Decides on every CFG path (break, zero-trip, loop-exit; all three episode-end rows): reported counter == start + executed steps for the 9 "
                 "counter-returning routines; strict budget guards; episode-limit exit at exactly the requested number of finished episodes; no step after an "
                 "ended episode without reset in all 19 single-env loops; every learning call gated by counter >= learning_starts; selector protocol, D-UCB "
                 "choice form and symbolic conservation of per-task step totals in SMT / active-MT.",
        "note": "Trusted: gymnasium step protocol; RecordEpisodeStatistics queues; integer semantics of range/while. Not decided: D-UCB arg-max numerics, the "
                "per-batch budget granularity of the on-policy collectors (documented design), what single-task routines passed as `train_st` do.",
    },
}

NOT_APPLICABLE = {}
