"""Which properties are claimed, with what method (source of MANIFEST.json via tools/gen_manifest.py)."""

CLAIMED = {
    "C01": {
        "technique": "static analysis: statement CFG + reaching definitions + path-sensitive reachability; positional role binding of env.step/reset results to store and act sites",
        "level": "Decides, for all 19 transition-keeping env loops and every CFG path (all episode-length / termination patterns at once), that each "
                 "store site receives position-exact step results of the same iteration, the observation the step acted on, and that a reset "
                 "observation reaches the next step unmodified. A dataflow fact over the CFG covers every history; tests execute ~10 steps.",
        "note": "Trusted: gymnasium step/reset tuple order; value-transparency of int/float/asarray wrappers; vector envs auto-reset. Does not decide "
                "what the buffer does afterwards (C02) nor aliasing of a mutable observation object reused by an environment.",
    },
    "C11": {
        "technique": "static analysis: product exploration of the statement CFG with bounded counter differences (path counting), truth-table path pruning over (terminated, truncated), control-dependence of learning calls, symbolic (polynomial) step-conservation in the schedulers",
        "level": "Decides on every CFG path (break, zero-trip, loop-exit; all three episode-end rows): reported counter == start + executed steps for the 9 "
                 "counter-returning routines; strict budget guards; episode-limit exit at exactly the requested number of finished episodes; no step after an "
                 "ended episode without reset in all 19 single-env loops; every learning call gated by counter >= learning_starts; selector protocol, D-UCB "
                 "choice form and symbolic conservation of per-task step totals in SMT / active-MT.",
        "note": "Trusted: gymnasium step protocol; RecordEpisodeStatistics queues; integer semantics of range/while. Not decided: D-UCB arg-max numerics, the "
                "per-batch budget granularity of the on-policy collectors (documented design), what single-task routines passed as `train_st` do.",
    },
    "C05": {
        "technique": "static analysis: bottom-up module write-effect summaries over the resolved call graph (aliases through partial/jit/cached_partial/scan bodies), reaching-definition pairing of value_and_grad argnums with optimizer.update, object-identity analysis of returned components",
        "level": "Decides for all inputs and call schedules: every gradient is applied to the object it was taken with respect to (17 sites), the write-effect set of each of the 15 update "
                 "routines equals its documented trainee set, optimizer/module pairs at every training-loop call site agree with create_*_state, 60+ loss/policy/sampler functions "
                 "have an empty effect set, the update follows its gradient on every path, and returned components are pairwise distinct objects.",
        "note": "Trusted: flax nnx semantics of value_and_grad(argnums), Optimizer.update(model, grads), nnx.update; modules change in no other way (raw `.value` stores are scanned for). "
                "Not decided: bit-identity of untouched components (follows from the effect sets under the trusted base), that a non-zero gradient changes parameters (optax).",
    },
    "C06": {
        "technique": "static analysis: def-use normal form of the target-update helpers (plus polynomial identity of optax's leaf function parsed from the installed source), object-identity / aliasing analysis, write-effect summaries, control-dependence guard sets compared with the documented cadence",
        "level": "Decides for all parameter trees and histories: the helpers implement update(target, incremental_update(state(net), state(target), tau)) / update(target, state(net)) with tau "
                 "unmodified; every target object (component-wise, through constructor fields and callee parameters) is a parameter or fresh clone distinct from all online objects; targets are "
                 "written only by the helpers in (online, target) order; each of the 17 helper call sites is guarded exactly by its documented cadence; chained copies are ordered.",
        "note": "Trusted: nnx.update / nnx.state / nnx.clone semantics; optax.incremental_update (leaf function re-derived in the thorough tier). Not decided: leaf-wise float values.",
    },
    "C03": {
        "technique": "static analysis: def-use + callee inlining into polynomial normal forms over role atoms (batch positions), gradient-dependence tracking through stop_gradient/argmax, call census of the bootstrap, object-identity role transfer to the training loops",
        "level": "Decides for all batches and parameter values (formula identity, not numerics): each of the 10 critic losses regresses exactly one online prediction per head onto "
                 "T == r + (1 - terminated) * gamma * B (MR.Q: (G + c*B*s')/s) with the documented bootstrap (census of module calls, role data, max/argmax-selection/min/clip/entropy), nothing "
                 "but the prediction depends differentiably on the online critic, the regression form (squared / Huber of |P-T| / importance weighted) and unit coefficients, the SALE embedding loss, "
                 "and at every train_step call the target-role parameters receive target objects of that loop.",
        "note": "Trusted: optax/jnp operator semantics, stop_gradient, Batch field order (parsed). Not decided: float values, shapes (the (N,) vs (N,1) squeeze sites and the MR.Q encoder "
                "roll-out loss are decided under C07/C12 by the shape engine), batch-size-1 behaviour of unqualified squeeze().",
    },
    "C14": {
        "technique": "static analysis: def-use + callee inlining (td_error, greedy_policy) to polynomial normal forms compared with spec expressions normalised by the same engine; syntactic write-footprint; caller role transfer through callee signatures",
        "level": "Decides for all tables, transitions, gamma and learning rates (polynomial identity): the increment of Q-learning, SARSA, double Q-learning and Dyna-Q equals "
                 "lr*(r + gamma*(1-d)*V_next - Q[s,a]) with the algorithm's V_next, written once at the index that is read; the successor action handed in by the callers was selected on the "
                 "documented table at the successor row; the three identities of the Monte-Carlo fori_loop body and its bounds; Dyna-Q's replayed transitions and the row footprint of its model.",
        "note": "Trusted: jnp .at[].add/.set, argmax, fori_loop semantics. Not decided: float values; that argmax tie-breaking matches a reference implementation.",
    },
    "C12": {
        "technique": "static analysis: normal-form identity of each actor objective against a spec expression normalised by the same engine, gradient-site argnums resolved through the loss signature, per-path polynomial evaluation of the weights computed outside the differentiated function, def/loop placement of PPO's old log-probabilities, symbolic shape inference for the value terms",
        "level": "Decides for all batches / parameters (formula identity and structure): pseudo-loss == -mean(w*log pi) with weights that are plain arguments (constants of the gradient) equal to the documented "
                 "quantities on every path of the three callers; PPO clipped objective incl. min/clip orientation, ratio direction, value and entropy coefficients, logp_old fixed before the epoch "
                 "loop on the same data, GAE argument roles; DPG / SALE / MR.Q / SAC actor and temperature losses incl. signs and alpha = exp(log_alpha); every actor update differentiates exactly the actor.",
        "note": "Trusted: tfp log_prob/entropy, jnp.minimum/clip. R5 adds symbolic shape inference: critic outputs (N,1) are never combined with (N,) vectors without squeeze/flatten. "
                "Not decided: float values, batch-size-1 behaviour.",
    },
    "C07": {
        "technique": "static analysis: one-iteration symbolic (polynomial) evaluation of loop / scan bodies compared with the defining recurrences, structural reverse-scan symmetry, interprocedural provenance of compute_gae arguments (vmap over the env axis vs env-merging reshape), mask dataflow in the encoder roll-out, symbolic shape inference at masked-loss call sites",
        "level": "Decides for all sequences, gamma, lambda (identity of the body update): GAE delta/advantage recurrence with carry == output, all inputs reversed and output reversed back, returns = A + v; "
                 "n-step return uses the old residual discount, cut by (1-d), full horizon, G0=0,c0=1; reward-to-go backwards with result reversed; every compute_gae call sees one trajectory "
                 "(A2C: vmap over axis 1 of (T,N) data with time-shifted successor values); encoder roll-out terms all weighted by the carried-in cumulative mask, mask updated after use; no outer-product / "
                 "reshape-as-transpose at masked_mse_loss call sites; per-environment writes use environment indices.",
        "note": "Trusted: scan/vmap semantics, numpydoc shapes of masked_mse_loss. Known finding: PPO scans GAE over the env-major flattened rollout. Closed-form (vectorised) rewrites of the "
                "recurrences are outside the enumerated idioms and give ANALYSIS-ERROR (undecided), not a verdict. Not decided: float values.",
    },
    "C13": {
        "technique": "static analysis: sibling agreement of normal forms (distribution parameters of sample / log_probability / entropy incl. inlined self() calls), return-arity vs tuple-unpack check, closed-form density identity for hand-written densities, structural checks of greedy / epsilon-greedy branches in the policy helpers and the four DQN-family loops",
        "level": "Decides for all observations / parameters (formula identity and structure): within each stochastic head the three methods hand the same (mean, exp(clip(0.5*log_var,-20,2))) resp. the same logits to "
                 "the tfp distribution (or a hand-written density equal to the diagonal-Gaussian closed form; softmax entropy only in log space); no tuple-unpack of a single-array result; greedy == argmax of row / "
                 "network output; epsilon-greedy orientation (roll < eps -> uniform random, else greedy); DQN-family selection test, arms (online net, current observation) and the 1.0->0.1 linear schedule.",
        "note": "Trusted: tfp closed forms for given parameters, U[0,1) draws, argmax. Not decided: numerics of tfp, single-unbatched-observation shape behaviour inside tfp.",
    },
    "C10": {
        "technique": "static analysis: normal-form identity of the samplers, tanh heads and CEM proposal/update against documented formulas; partial/jit/cached_partial/factory resolution of bound arguments; reaching-definition provenance of every env.step argument in the continuous-control loops",
        "level": "Decides for all observations, keys and box bounds (formula identity + dataflow): sample_actions / sample_target_actions return clip(pi(o)+eps, low, high) with eps = noise*0.5*(high-low)*N(key) "
                 "(target: eps clipped to +-scale*noise_clip before the action clip); factories bind (low, high, scale, ...) of the same space in order; every env.step argument of DDPG/TD3/TD3-LAP/TD7/MR.Q "
                 "derives from that sampler on env.action_space or from action_space.sample(); tanh heads map through tanh(y)*(high-low)/2+(high+low)/2; CEM proposal std bounded by half the distance to the "
                 "bounds with +-2 truncation, convex mean/var update, PETS bounds / mid-point / plan[0] chain.",
        "note": "Trusted: clip/tanh/truncated_normal ranges, convexity argument for the CEM mean. Not decided: rounding at the bound itself; SAC's unclipped Gaussian sample is outside the property's list.",
    },
    "C15": {
        "technique": "static analysis: exhaustive enumeration of the acyclic paths of the loop-free assessment function with polynomial values for the state fields (per-path abstract interpretation); control dependence and linear trip-count normal form of the release loop in train_td7",
        "level": "Decides for all histories (every path of a loop-free function): released steps are 0 or old+steps_per_episode (conservation), the three window counters reset exactly on releasing paths, "
                 "checkpoint flag exactly on `not(min<best) and episodes==max` with best := min, early cut exactly on min<best, window switch only in the release block under the chained comparison evaluated "
                 "before the reset; train_td7 calls the assessment at episode ends only, runs the release loop exactly training_steps times with one epoch increment and one train step each, and copies the checkpoint under the flag.",
        "note": "Trusted: chained-comparison semantics. Not decided: that the switch happens once (needs the arithmetic fact that epoch only grows).",
    },
    "C16": {
        "technique": "static analysis: polynomial identities (weights normalisation, mean recombination, capped step size, CEM convex update), per-path evaluation of the incumbent update, structural sibling agreement of flat_params / set_params",
        "level": "Decides the bookkeeping and formula clauses for all inputs: weights == w/sum(w) with the log-rank w; incumbent (fitness, iteration, parameters) replaced as a whole iff fitness_k <= best from the evaluated index k, "
                 "sign handling for maximisation; mean == weighted best-mu candidates, last_mean == previous mean; var growth capped by exp(0.6)^2; flat/set use the same Param filter, leaf order and consecutive slices; CEM elites = top-k, bounds order.",
        "note": "NOT decided (numeric invariants, no sound static argument in reach): positivity / monotonicity of the weights (properties of log), symmetry and positive variances of the covariance, behaviour for non-finite fitness, "
                "the eigendecomposition schedule, that CEM proposals stay in bounds numerically (C10 decides the formula premises).",
    },
    "C18": {
        "technique": "static analysis: polynomial identities with case split over min(e, delta) for Huber, spec-expression identity for cross-entropy / decoding / AvgL1 / schedule / masked loss, weight algebra of the two-hot encoder, symbolic shapes for the masked loss",
        "level": "Decides for all real inputs (formula identity): Huber == 0.5 e^2 inside and delta(e-0.5 delta) outside; CE == -sum(two_hot*log_softmax); decoding; AvgL1 == x/max(mean|x|,eps); schedule form and length; masked loss "
                 "form with per-sample broadcasting; two-hot weights (1-w, w) at adjacent indices with the interpolation weight (rows sum to one and decode to x by construction).",
        "note": "NOT decided: the two-hot lower-edge search (masked argmin over float differences, exact bin edges), monotonicity of linspace, float rounding.",
    },
    "C02": {
        "technique": "static analysis: normal forms of the ring-state updates, store-before-advance ordering on the CFG, structural single-index-vector and index-bound rules for every sample_batch, routing rules of the multi-task buffer",
        "level": "Decides the five premises of the ring-buffer induction (stores at the current insert index, before the advance; advance = (i+1) mod N; len = min(len+1, N); allocation only when empty) for the base "
                 "buffer that LAP / PER inherit, that every batch gathers all fields with one index vector drawn from [0, current_len) (or from a priority sampler restricted to current_len), and the multi-task routing / "
                 "validation / length rules. The FIFO statement follows from the premises by a stated induction.",
        "note": "Trusted: the induction argument, numpy integer sampling and gather semantics. Not decided: dtype conversion values, behaviour for buffer_size <= 0.",
    },
    "C04": {
        "technique": "static analysis: necessary structural conditions of the subtrajectory mask protocol (CFG ordering, guard/offset agreement by normal form, branch orientation, index formula, field table)",
        "level": "NECESSARY CONDITIONS ONLY: mask cleared at every written slot before the advance (incl. the successor row); enabling store offset == strict guard threshold == horizon; tail enabled on termination / disabled on "
                 "truncation over min(episode_len, horizon) slots with the episode counter reset; start indices only from mask_ (uniform and PER); window indices (start + arange(h)) mod current_len; no-intermediate field table.",
        "note": "The behavioural statement (every sampled window is a contiguous single-episode run for all add histories) is modular index arithmetic over arbitrary histories and is NOT decided; sufficiency of the six conditions is not claimed.",
    },
    "C08": {
        "technique": "static analysis: attribute-ownership (receiver class) analysis of the last-sampled-indices field, CFG ordering of priority initialisation vs ring advance, per-path normal forms of the samplers, formula identities, typestate (sample -> update -> update_priority) over the training-loop CFGs",
        "level": "Decides for all operation histories / inputs (ownership, ordering, formula identity): the field update_priority reads is written on the PriorityBuffer by every sampler; new samples get max_priority at the slot "
                 "they are written to; samplers are searchsorted(cumsum(p[:len]*mask[:len]), u*total) (plain and stratified); update/reset bookkeeping; LAP / PER priority and importance-ratio formulas; in the four loops the priorities come from the "
                 "TD errors of the update that consumed the most recent batch of that buffer, with no resampling in between.",
        "note": "Trusted: inverse-CDF property of cumsum/searchsorted, U[0,1). Not decided: floating-point ties of u*total with a cumulative sum, sampling frequencies.",
    },
    "C09": {
        "technique": "static analysis: whole-program scan of the call-graph closure of all training entry points for nondeterminism sources, seed-argument provenance of every RNG constructor / seeding call, element-type inference for iterated sets, confinement of time.* to the logging package; positive control snippet",
        "level": "Decides the cause-level sentence of the property for the whole package: no global / OS randomness source, every RNG constructor and seeding call receives an argument built from parameters, literals and arithmetic, "
                 "iterated sets contain integers by construction, wall-clock time is read only in rl_blox/logging. Expected violation count is zero, so a known-bad control snippet must match on every run.",
        "note": "NOT decided: bit-identity of two runs (XLA, environment internals, float non-associativity). PRNG-key reuse is deliberately not a rule (deterministic). Trusted: unsalted int hashing, determinism of jax.random / numpy Generator.",
    },
    "C19": {
        "technique": "static analysis: attribute-set symmetry of __getstate__ / __setstate__ against the dynamically-created-class attributes of __init__ along the MRO; structural rules for the pickle helper and the checkpoint writers / restore",
        "level": "NECESSARY CONDITIONS ONLY: for all five buffer classes the keys removed from the pickled dict are exactly the namedtuple-type attributes and each is rebuilt with __init__'s expression after the dict is restored; default-pickled "
                 "classes hold no unpicklable attribute; save_pickle dumps the split state and load_pickle merges on both branches; both checkpoint writers save the unfiltered state and wait; restore merges with the model's graphdef.",
        "note": "The behavioural statement (bit-identical reload and identical continuation for every reachable buffer state, crash points, Orbax behaviour) is a runtime property and is NOT decided.",
    },
    "C20": {
        "technique": "static analysis: interface completeness and argument forwarding of LoggerList against LoggerBase, per-path evaluation of record_stat, attribute write ownership of the counters, dominance ordering save -> wait -> list, normal form and state-update placement of the cadence guards",
        "level": "Decides structure for all call sequences: LoggerList forwards every interface method with all arguments in order to every member; record_stat appends value and (episode, step, t) exactly once on every path with the documented "
                 "defaults in the order get_stat indexes; counters are written only by start/stop; checkpoint paths are listed only after save+wait on the same path with the unfiltered state; Orbax guard is the wrap-or-gap predicate, last_step "
                 "updated after the guard on every path, one save per record; StandardLogger counts then tests epoch % interval.",
        "note": "NOT decided: arithmetic equivalence of the wrap-or-gap predicate with `a multiple of the interval was passed since the previous record` (hand argument in DESIGN.md), Orbax / filesystem behaviour.",
    },
    "C17": {
        "technique": "static analysis: symbolic shape inference through interpreted vmap function values (class attributes built in __init__), call-site rank checks against numpydoc, normal-form identities for aggregate / bounding / NLL / plan evaluation, structural bootstrap pipeline rules, cross-oracle normal form against the installed gymnasium Pendulum source",
        "level": "Decides for the documented ranks (vector and batch) and all parameter values (structure, shapes, formula identity): every prediction method returns mean and variance of identical (.., n_outputs) shape, "
                 "base_distribution gets loc/scale of equal shape and ts_inf queries it with a batch of one; aggregate is the law of total variance over the member axis; soft bounding, NLL and ensemble loss forms; bootstrap matrix "
                 "(n_ensemble, n) with replacement, per-epoch permutation along axis 1, guarded truncation to complete batches, member axis never merged; plan evaluation sum-over-horizon / mean-over-particles; Pendulum "
                 "reward coefficients, angle normalisation and torque clip equal the environment's (parsed from gymnasium).",
        "note": "Trusted: vmap / split / merge semantics, permutation and choice, the installed gymnasium source. NOT decided: numeric equality of member slices with the joint forward pass, finiteness of log-variances "
                "(follows from the bounding form under real arithmetic), float values.",
    },
}

NOT_APPLICABLE = {}
