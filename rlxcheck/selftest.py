"""Checker self-validation (thorough tier): breaking mutants must fire, benign variants must stay silent.

Every variant is a *text edit of one repository file analysed in memory* (``Repo(overlay=...)``): nothing is written
to disk, nothing is imported or executed.  A variant whose ``find`` text does not occur in the current tree is skipped
(the tree has moved on); results are relative to the verdict on the unmodified current tree, so a tree that already
violates a rule does not confuse the comparison.
"""
from __future__ import annotations

import ast
import importlib
import os
from concurrent.futures import ProcessPoolExecutor

from .repo import Repo, AnalysisError


def _load(pid):
    mod = importlib.import_module(f".props.{pid.lower()}", __package__)
    return getattr(mod, "MUTANTS", []), getattr(mod, "BENIGN", [])


def _apply(root, v):
    path = os.path.join(root, v["file"])
    if not os.path.exists(path):
        return None
    src = open(path, encoding="utf-8").read()
    edits = v.get("edits") or [(v["find"], v["replace"])]
    new = src
    for find, replace in edits:
        n = new.count(find)
        if n == 0:
            return None
        if n > 1 and not v.get("all"):
            idx = v.get("nth", 0)
            pos = -1
            for _ in range(idx + 1):
                pos = new.find(find, pos + 1)
            new = new[:pos] + replace + new[pos + len(find):]
        else:
            new = new.replace(find, replace)
    try:
        compile(new, path, "exec")  # the variant must still be a valid program
    except SyntaxError:
        return "syntax"
    return new


def _one(args):
    pid, root, v = args
    from .__main__ import run_property
    new = _apply(root, v)
    if new is None:
        return v["id"], "skipped", []
    if new == "syntax":
        return v["id"], "syntax-error", []
    try:
        ck = run_property(pid, "quick", Repo(root, overlay={v["file"]: new}), quiet=True)
        return v["id"], "ran", sorted(ck.result_idents())
    except AnalysisError as e:
        return v["id"], "analysis-error", [str(e)]
    except Exception as e:  # pragma: no cover
        return v["id"], "crash", [f"{type(e).__name__}: {e}"]


def run_selftest(pid, root, base_idents, jobs=16):
    mutants, benign = _load(pid)
    work = [(pid, root, v) for v in mutants + benign]
    res = {}
    if work:
        if jobs > 1 and len(work) > 2:
            with ProcessPoolExecutor(max_workers=jobs) as ex:
                for vid, st, ids in ex.map(_one, work, chunksize=1):
                    res[vid] = (st, ids)
        else:
            for w in work:
                vid, st, ids = _one(w)
                res[vid] = (st, ids)
    base = set(base_idents)
    out = {"mutants": 0, "fired": 0, "benign": 0, "silent": 0, "skipped": 0, "mismatches": [], "details": []}
    for v in mutants:
        st, ids = res[v["id"]]
        if st == "skipped":
            out["skipped"] += 1
            continue
        out["mutants"] += 1
        new = {tuple(i) for i in ids} - base if st == "ran" else set()
        want = v.get("rule")
        hit = [i for i in new if want is None or i[0] == want or i[0].startswith(want)]
        # an analysis-error on a mutant is accepted when the mutant declares it (anchor destroyed)
        ok = bool(hit) or bool(st == "analysis-error" and v.get("accept_error"))
        out["fired"] += int(ok)
        out["details"].append({"id": v["id"], "kind": "mutant", "status": st, "fired": ok, "new": [list(i) for i in sorted(new)][:4] if st == "ran" else ids})
        if not ok:
            out["mismatches"].append(f"mutant {v['id']} survived (status {st}, new {sorted(new)[:3] if st == 'ran' else ids})")
    for v in benign:
        st, ids = res[v["id"]]
        if st == "skipped":
            out["skipped"] += 1
            continue
        out["benign"] += 1
        new = {tuple(i) for i in ids} - base if st == "ran" else {("status", st, str(ids))}
        ok = not new
        out["silent"] += int(ok)
        out["details"].append({"id": v["id"], "kind": "benign", "status": st, "silent": ok, "new": [list(i) for i in sorted(new)][:4]})
        if not ok:
            out["mismatches"].append(f"benign {v['id']} alarmed: {sorted(new)[:3]}")
    return out
