"""E1: statement-level control-flow graph, reaching definitions, dominators, control dependence."""
from __future__ import annotations

import ast
from dataclasses import dataclass, field

import networkx as nx


@dataclass
class Def:
    node: int  # CFG node id
    name: str  # variable name ("self.x" pseudo-variables included)
    kind: str  # param | assign | unpack | aug | for | with | import | funcdef | classdef | walrus | except | del
    value: ast.AST | None = None  # rhs expression (assign/unpack/aug/for/with)
    path: tuple = ()  # tuple-unpack position path, e.g. (0,) for first element

    def key(self):
        return (self.node, self.name)


@dataclass
class Node:
    id: int
    kind: str  # entry | exit | stmt | test | for | with | def
    ast: ast.AST | None = None  # the statement, or the test / iter expression owner statement
    succ: list = field(default_factory=list)  # (node id, label)
    pred: list = field(default_factory=list)
    defs: list = field(default_factory=list)  # list[Def]
    uses: set = field(default_factory=set)
    mutates: set = field(default_factory=set)  # names whose object is updated in place (subscript / attribute store)
    loop: int | None = None  # id of the innermost enclosing loop header node

    @property
    def lineno(self):
        return getattr(self.ast, "lineno", 0)


def _names_loaded(e: ast.AST) -> set:
    """Names read by expression ``e`` (incl. free variables of lambdas / comprehensions, ``self.x`` pseudo-names)."""
    out = set()
    if e is None:
        return out
    for n in ast.walk(e):
        if isinstance(n, ast.Name) and isinstance(n.ctx, ast.Load):
            out.add(n.id)
        elif isinstance(n, ast.Attribute) and isinstance(n.ctx, ast.Load):
            if isinstance(n.value, ast.Name) and n.value.id == "self":
                out.add(f"self.{n.attr}")
    return out


def _target_defs(t: ast.AST, value, kind, path=()):
    """Yield (name, kind, value, path) and (mutated base names, used names) for an assignment target."""
    defs, mut, uses = [], set(), set()
    if isinstance(t, ast.Name):
        defs.append((t.id, kind if not path else "unpack", value, path))
    elif isinstance(t, (ast.Tuple, ast.List)):
        for i, el in enumerate(t.elts):
            if isinstance(el, ast.Starred):
                d, m, u = _target_defs(el.value, value, "unpack", path + (("*", i),))
            else:
                d, m, u = _target_defs(el, value, "unpack", path + (i,))
            defs += d
            mut |= m
            uses |= u
    elif isinstance(t, ast.Attribute):
        if isinstance(t.value, ast.Name) and t.value.id == "self":
            defs.append((f"self.{t.attr}", kind if not path else "unpack", value, path))
            uses.add("self")
        else:
            uses |= _names_loaded(t.value)
            b = t
            while isinstance(b, (ast.Attribute, ast.Subscript)):
                b = b.value
            if isinstance(b, ast.Name):
                mut.add(b.id)
    elif isinstance(t, ast.Subscript):
        uses |= _names_loaded(t.value) | _names_loaded(t.slice)
        b = t
        while isinstance(b, (ast.Attribute, ast.Subscript)):
            if isinstance(b, ast.Attribute) and isinstance(b.value, ast.Name) and b.value.id == "self":
                mut.add(f"self.{b.attr}")
            b = b.value
        if isinstance(b, ast.Name):
            mut.add(b.id)
    elif isinstance(t, ast.Starred):
        return _target_defs(t.value, value, kind, path)
    return defs, mut, uses


class CFG:
    def __init__(self, fn: ast.FunctionDef | ast.Module):
        self.fn = fn
        self.nodes: list[Node] = []
        self._loops: list = []  # stack of (header id, break targets list)
        self.entry = self._new("entry", fn)
        self.exit = self._new("exit", fn)
        self.stmt_node: dict[int, int] = {}  # id(ast stmt) -> node id (first node for the statement)
        if isinstance(fn, (ast.FunctionDef, ast.AsyncFunctionDef, ast.Lambda)):
            a = fn.args
            for arg in a.posonlyargs + a.args + a.kwonlyargs + ([a.vararg] if a.vararg else []) + ([a.kwarg] if a.kwarg else []):
                self.nodes[self.entry].defs.append(Def(self.entry, arg.arg, "param"))
        body = fn.body if not isinstance(fn, ast.Lambda) else [ast.Return(value=fn.body)]
        outs = self._seq(body, [(self.entry, None)])
        self._connect(outs, self.exit)
        for n in self.nodes:
            for s, lab in n.succ:
                self.nodes[s].pred.append((n.id, lab))
        # attributes of `self` carry the incoming object state: an implicit definition at function entry
        pseudo = set()
        for n in self.nodes:
            pseudo |= {u for u in n.uses if u.startswith("self.")}
            pseudo |= {d.name for d in n.defs if d.name.startswith("self.")}
        have = {d.name for d in self.nodes[self.entry].defs}
        for nm in sorted(pseudo - have):
            self.nodes[self.entry].defs.append(Def(self.entry, nm, "attr-in"))
        self._rd = None
        self._dom = None
        self._pdom = None
        self._g = None

    # -- construction ---------------------------------------------------
    def _new(self, kind, a) -> int:
        n = Node(len(self.nodes), kind, a)
        if self._loops:
            n.loop = self._loops[-1][0]
        self.nodes.append(n)
        return n.id

    def _connect(self, preds, to):
        for p, lab in preds:
            if (to, lab) not in self.nodes[p].succ:
                self.nodes[p].succ.append((to, lab))

    def _seq(self, stmts, preds):
        for s in stmts:
            preds = self._stmt(s, preds)
        return preds

    def _stmt(self, s, preds):
        if isinstance(s, ast.If):
            t = self._new("test", s)
            self.stmt_node[id(s)] = t
            self.nodes[t].uses = _names_loaded(s.test)
            self._walrus(t, s.test)
            self._connect(preds, t)
            a = self._seq(s.body, [(t, True)])
            b = self._seq(s.orelse, [(t, False)])
            return a + b
        if isinstance(s, ast.While):
            t = self._new("test", s)
            self.stmt_node[id(s)] = t
            self.nodes[t].uses = _names_loaded(s.test)
            self._walrus(t, s.test)
            self._connect(preds, t)
            brk = []
            self._loops.append((t, brk))
            self.nodes[t].loop_header = True
            body_out = self._seq(s.body, [(t, True)])
            self._loops.pop()
            self._connect(body_out, t)
            const_true = isinstance(s.test, ast.Constant) and bool(s.test.value)
            out = [] if const_true else [(t, False)]
            out = self._seq(s.orelse, out) if s.orelse else out
            return out + brk
        if isinstance(s, (ast.For, ast.AsyncFor)):
            h = self._new("for", s)
            self.stmt_node[id(s)] = h
            node = self.nodes[h]
            node.uses = _names_loaded(s.iter)
            d, m, u = _target_defs(s.target, s.iter, "for")
            node.defs = [Def(h, nm, "for", val, path) for nm, k, val, path in d]
            node.mutates |= m
            node.uses |= u
            self._connect(preds, h)
            brk = []
            self._loops.append((h, brk))
            body_out = self._seq(s.body, [(h, True)])
            self._loops.pop()
            self._connect(body_out, h)
            out = [(h, False)]
            out = self._seq(s.orelse, out) if s.orelse else out
            return out + brk
        if isinstance(s, ast.Break):
            n = self._new("stmt", s)
            self.stmt_node[id(s)] = n
            self._connect(preds, n)
            if self._loops:
                self._loops[-1][1].append((n, None))
            return []
        if isinstance(s, ast.Continue):
            n = self._new("stmt", s)
            self.stmt_node[id(s)] = n
            self._connect(preds, n)
            if self._loops:
                self._connect([(n, None)], self._loops[-1][0])
            return []
        if isinstance(s, ast.Return):
            n = self._new("stmt", s)
            self.stmt_node[id(s)] = n
            self.nodes[n].uses = _names_loaded(s.value)
            self._connect(preds, n)
            self._connect([(n, None)], self.exit)
            return []
        if isinstance(s, ast.Raise):
            n = self._new("stmt", s)
            self.stmt_node[id(s)] = n
            self.nodes[n].uses = _names_loaded(s.exc)
            self.nodes[n].raises = True
            self._connect(preds, n)
            return []  # exceptional exit: not connected to the normal exit
        if isinstance(s, (ast.With, ast.AsyncWith)):
            n = self._new("with", s)
            self.stmt_node[id(s)] = n
            node = self.nodes[n]
            for it in s.items:
                node.uses |= _names_loaded(it.context_expr)
                if it.optional_vars is not None:
                    d, m, u = _target_defs(it.optional_vars, it.context_expr, "with")
                    node.defs += [Def(n, nm, "with", val, path) for nm, k, val, path in d]
            self._connect(preds, n)
            return self._seq(s.body, [(n, None)])
        if isinstance(s, ast.Try) or s.__class__.__name__ == "TryStar":
            first = len(self.nodes)
            body_out = self._seq(s.body, preds)
            body_nodes = list(range(first, len(self.nodes)))
            outs = self._seq(s.orelse, body_out) if s.orelse else body_out
            for h in s.handlers:
                hn = self._new("stmt", h)
                if h.name:
                    self.nodes[hn].defs.append(Def(hn, h.name, "except"))
                self.nodes[hn].uses = _names_loaded(h.type)
                self._connect(list(preds) + [(b, "exc") for b in body_nodes], hn)
                outs = outs + self._seq(h.body, [(hn, None)])
            if s.finalbody:
                outs = self._seq(s.finalbody, outs)
            return outs
        if isinstance(s, (ast.FunctionDef, ast.AsyncFunctionDef, ast.ClassDef)):
            n = self._new("def", s)
            self.stmt_node[id(s)] = n
            node = self.nodes[n]
            node.defs.append(Def(n, s.name, "funcdef" if not isinstance(s, ast.ClassDef) else "classdef", s))
            bound = set()
            if not isinstance(s, ast.ClassDef):
                a = s.args
                bound = {x.arg for x in a.posonlyargs + a.args + a.kwonlyargs}
                if a.vararg:
                    bound.add(a.vararg.arg)
                if a.kwarg:
                    bound.add(a.kwarg.arg)
            loaded, stored = set(), set()
            for b in s.body:
                for x in ast.walk(b):
                    if isinstance(x, ast.Name):
                        (loaded if isinstance(x.ctx, ast.Load) else stored).add(x.id)
            node.uses = (loaded - bound - stored) | set().union(*[_names_loaded(d) for d in s.decorator_list]) if s.decorator_list else (loaded - bound - stored)
            self._connect(preds, n)
            return [(n, None)]
        if isinstance(s, ast.Match):
            t = self._new("test", s)
            self.stmt_node[id(s)] = t
            self.nodes[t].uses = _names_loaded(s.subject)
            self._connect(preds, t)
            outs = []
            for i, c in enumerate(s.cases):
                outs += self._seq(c.body, [(t, ("case", i))])
            return outs + [(t, ("case", None))]
        # simple statements
        n = self._new("stmt", s)
        self.stmt_node[id(s)] = n
        node = self.nodes[n]
        if isinstance(s, ast.Assign):
            node.uses = _names_loaded(s.value)
            for t in s.targets:
                d, m, u = _target_defs(t, s.value, "assign")
                node.defs += [Def(n, nm, k, val, path) for nm, k, val, path in d]
                node.mutates |= m
                node.uses |= u
        elif isinstance(s, ast.AnnAssign):
            node.uses = _names_loaded(s.value)
            if s.value is not None:
                d, m, u = _target_defs(s.target, s.value, "assign")
                node.defs += [Def(n, nm, k, val, path) for nm, k, val, path in d]
                node.mutates |= m
                node.uses |= u
        elif isinstance(s, ast.AugAssign):
            node.uses = _names_loaded(s.value)
            d, m, u = _target_defs(s.target, s, "aug")
            node.defs += [Def(n, nm, "aug", s, path) for nm, k, val, path in d]
            node.mutates |= m
            node.uses |= u
            if isinstance(s.target, ast.Name):
                node.uses.add(s.target.id)
            elif isinstance(s.target, ast.Attribute) and isinstance(s.target.value, ast.Name) and s.target.value.id == "self":
                node.uses.add(f"self.{s.target.attr}")
            else:
                node.uses |= _names_loaded(s.target)
        elif isinstance(s, (ast.Import, ast.ImportFrom)):
            for a in s.names:
                node.defs.append(Def(n, a.asname or a.name.split(".")[0], "import"))
        elif isinstance(s, ast.Delete):
            for t in s.targets:
                if isinstance(t, ast.Name):
                    node.defs.append(Def(n, t.id, "del"))
                else:
                    node.uses |= _names_loaded(t)
        elif isinstance(s, ast.Assert):
            node.uses = _names_loaded(s.test)
        elif isinstance(s, ast.Expr):
            node.uses = _names_loaded(s.value)
        elif isinstance(s, (ast.Global, ast.Nonlocal, ast.Pass)):
            pass
        else:
            for ch in ast.iter_child_nodes(s):
                node.uses |= _names_loaded(ch)
        self._walrus(n, s)
        self._connect(preds, n)
        return [(n, None)]

    def _walrus(self, nid, e):
        for x in ast.walk(e):
            if isinstance(x, ast.NamedExpr) and isinstance(x.target, ast.Name):
                self.nodes[nid].defs.append(Def(nid, x.target.id, "walrus", x.value))

    # -- queries ----------------------------------------------------------
    def node_of(self, stmt: ast.AST) -> Node:
        """CFG node of a statement (or of the statement enclosing an expression)."""
        s = stmt
        while s is not None and id(s) not in self.stmt_node:
            s = getattr(s, "_parent", None)
        if s is None:
            raise KeyError("statement not in this CFG")
        return self.nodes[self.stmt_node[id(s)]]

    def graph(self) -> nx.DiGraph:
        if self._g is None:
            g = nx.DiGraph()
            for n in self.nodes:
                g.add_node(n.id)
                for s, lab in n.succ:
                    g.add_edge(n.id, s)
            self._g = g
        return self._g

    def reachable_nodes(self):
        return nx.descendants(self.graph(), self.entry) | {self.entry}

    def reaching(self):
        """IN sets: node id -> {name -> frozenset[(def node id, name)]}."""
        if self._rd is not None:
            return self._rd
        n = len(self.nodes)
        IN = [dict() for _ in range(n)]
        OUT = [dict() for _ in range(n)]
        work = list(range(n))
        inwork = set(work)
        while work:
            i = work.pop(0)
            inwork.discard(i)
            node = self.nodes[i]
            new_in: dict = {}
            for p, _ in node.pred:
                for nm, ds in OUT[p].items():
                    if nm in new_in:
                        new_in[nm] = new_in[nm] | ds
                    else:
                        new_in[nm] = ds
            IN[i] = new_in
            out = dict(new_in)
            for d in node.defs:
                out[d.name] = frozenset([(i, d.name)])
            if out != OUT[i]:
                OUT[i] = out
                for s, _ in node.succ:
                    if s not in inwork:
                        work.append(s)
                        inwork.add(s)
        self._rd = IN
        self._out = OUT
        return IN

    def reaching_out(self):
        self.reaching()
        return self._out

    def defs_of(self, node_id: int, name: str) -> list[Def]:
        """Reaching definitions (Def objects) of ``name`` on entry to node ``node_id``."""
        ds = self.reaching()[node_id].get(name, frozenset())
        out = []
        for nid, nm in sorted(ds):
            for d in self.nodes[nid].defs:
                if d.name == nm:
                    out.append(d)
        return out

    def get_def(self, node_id: int, name: str) -> Def | None:
        for d in self.nodes[node_id].defs:
            if d.name == name:
                return d
        return None

    def dominators(self):
        if self._dom is None:
            g = self.graph().subgraph(self.reachable_nodes())
            self._dom = nx.immediate_dominators(g, self.entry)
        return self._dom

    def dominates(self, a: int, b: int) -> bool:
        idom = self.dominators()
        if b not in idom:
            return False
        x = b
        while True:
            if x == a:
                return True
            p = idom.get(x)
            if p is None or p == x:
                return False
            x = p

    def postdominators(self):
        if self._pdom is None:
            g = self.graph().reverse(copy=True)
            # nodes that cannot reach exit (raise) are attached to a virtual sink = exit
            for n in self.nodes:
                if not n.succ and n.id != self.exit:
                    g.add_edge(self.exit, n.id)
            reach = nx.descendants(g, self.exit) | {self.exit}
            self._pdom = nx.immediate_dominators(g.subgraph(reach), self.exit)
        return self._pdom

    def postdominates(self, a: int, b: int) -> bool:
        ip = self.postdominators()
        if b not in ip:
            return False
        x = b
        while True:
            if x == a:
                return True
            p = ip.get(x)
            if p is None or p == x:
                return False
            x = p

    def control_deps(self, nid: int) -> list:
        """[(branch node id, label)] the node is (transitively) control dependent on, nearest first.

        Computed syntactically (structured code): walk up the AST parents and record for each enclosing
        If/While/For which arm the statement is in. break/continue/return in sibling positions are handled
        by :py:meth:`guards_on_all_paths` when needed.
        """
        out = []
        node = self.nodes[nid]
        s = node.ast
        if node.kind in ("test", "for", "with") and s is not None:
            child, p = s, getattr(s, "_parent", None)
        else:
            child, p = s, getattr(s, "_parent", None)
        while p is not None and p is not self.fn:
            if isinstance(p, ast.If):
                if any(child is x for x in p.body):
                    out.append((self.stmt_node[id(p)], True))
                elif any(child is x for x in p.orelse):
                    out.append((self.stmt_node[id(p)], False))
            elif isinstance(p, (ast.While, ast.For, ast.AsyncFor)):
                if any(child is x for x in p.body):
                    out.append((self.stmt_node[id(p)], True))
                elif any(child is x for x in p.orelse):
                    out.append((self.stmt_node[id(p)], False))
            child, p = p, getattr(p, "_parent", None)
        return out

    def enclosing_loops(self, nid: int) -> list[int]:
        return [b for b, lab in self.control_deps(nid) if isinstance(self.nodes[b].ast, (ast.While, ast.For, ast.AsyncFor)) and lab is True]

    def loop_body_nodes(self, header: int) -> set:
        """All CFG nodes syntactically inside the body of loop ``header`` (header excluded)."""
        s = self.nodes[header].ast
        ids = set()
        for st in s.body:
            for x in ast.walk(st):
                if id(x) in self.stmt_node:
                    ids.add(self.stmt_node[id(x)])
        # nodes created for except handlers are keyed by handler object
        return ids

    def _lits(self, test, label, at, depth=0):
        """Literals (expr text, truth) implied by taking branch ``label`` of ``test`` (None if nothing is implied)."""
        if label not in (True, False):
            return []
        if isinstance(test, ast.UnaryOp) and isinstance(test.op, ast.Not):
            return self._lits(test.operand, not label, at, depth)
        if isinstance(test, ast.BoolOp):
            if isinstance(test.op, ast.Or) and label is False:
                return [l for v in test.values for l in self._lits(v, False, at, depth)]
            if isinstance(test.op, ast.And) and label is True:
                return [l for v in test.values for l in self._lits(v, True, at, depth)]
            return [(ast.unparse(test), label)]
        if isinstance(test, ast.Name) and depth < 3:
            rhs = self._expand_name(test, at)
            if rhs is not None:
                return self._lits(rhs, label, at, depth + 1) + [(test.id, label)]
        return [(ast.unparse(test), label)]

    def _expand_name(self, test, at):
        """`done = terminated or truncated; if done:` -> the defining expression, if its operands still have the
        values they had at the definition (reaching-definition equality); else None."""
        ds = self.defs_of(at, test.id)
        if len(ds) == 1 and ds[0].kind == "assign" and isinstance(ds[0].value, (ast.BoolOp, ast.UnaryOp, ast.Name, ast.Compare)):
            rhs = ds[0].value
            names = {x.id for x in ast.walk(rhs) if isinstance(x, ast.Name)}
            rd = self.reaching()
            out = self.reaching_out()[ds[0].node]
            if all(rd[at].get(nm) == out.get(nm) for nm in names) and test.id not in names:
                return rhs
        return None

    def eval3(self, test, assume: dict, at: int, depth: int = 0):
        """Three-valued evaluation of a branch condition under ``assume`` (expr text -> bool). None = unknown."""
        txt = ast.unparse(test)
        if txt in assume:
            return assume[txt]
        if isinstance(test, ast.Constant):
            return bool(test.value)
        if isinstance(test, ast.UnaryOp) and isinstance(test.op, ast.Not):
            v = self.eval3(test.operand, assume, at, depth)
            return None if v is None else (not v)
        if isinstance(test, ast.BoolOp):
            vals = [self.eval3(v, assume, at, depth) for v in test.values]
            if isinstance(test.op, ast.Or):
                if any(v is True for v in vals):
                    return True
                return False if all(v is False for v in vals) else None
            if any(v is False for v in vals):
                return False
            return True if all(v is True for v in vals) else None
        if isinstance(test, ast.Name) and depth < 3:
            rhs = self._expand_name(test, at)
            if rhs is not None:
                return self.eval3(rhs, assume, at, depth + 1)
        return None

    def paths_avoiding(self, src: int, dst: int, avoid: set, feasible: bool = True, assume=None, first_label=None, at_node=None) -> list | None:
        """A path src -> dst whose interior avoids ``avoid``, or None.

        With ``feasible`` the search is path-sensitive for *syntactically identical* branch conditions and for the
        boolean structure (not/and/or) over them: a branch whose condition evaluates to a definite value under the
        literals collected so far (``assume`` = initial literals) is only followed on that arm.  Literals are dropped
        when one of their variables is redefined.  This removes correlated-branch false alarms and implements the
        truth-table pruning of C11-R3; it is a finite graph search, not a solver.
        """
        a0 = frozenset((assume or {}).items()) if not isinstance(assume, frozenset) else assume
        seen = {(src, a0)}
        stack = [(src, a0, [src])]
        first = True
        while stack:
            x, assume_, path = stack.pop()
            node = self.nodes[x]
            for s, lab in node.succ:
                if x == src and len(path) == 1 and first_label is not None and lab != first_label:
                    continue
                a2 = assume_
                if feasible and node.kind == "test" and hasattr(node.ast, "test") and lab in (True, False):
                    here = dict(a2)
                    if at_node is not None:
                        here.update(at_node(x) or {})     # facts the caller knows to hold at this test (e.g. record fields holding step results)
                    v = self.eval3(node.ast.test, here, x)
                    if v is not None and v != lab:
                        continue
                    lits = self._lits(node.ast.test, lab, x)
                    if any((k, not vv) in a2 for k, vv in lits) or any(here.get(k) is (not vv) for k, vv in lits if k in here):
                        continue
                    a2 = a2 | frozenset(lits)
                if s == dst:
                    return path + [s]
                if s in avoid:
                    continue
                if feasible:
                    a2 = self.propagate(s, a2)
                st = (s, a2)
                if st in seen:
                    continue
                seen.add(st)
                stack.append((s, a2, path + [s]))
        return None

    def propagate(self, s: int, a2: frozenset) -> frozenset:
        """Literals that hold after executing node ``s`` when ``a2`` held before: literals over redefined names are dropped, boolean
        values are propagated through `x = <boolean constant / expression over known literals>` and element-wise tuple copies."""
        sn = self.nodes[s]
        killed = {d.name for d in sn.defs}
        stores = _inplace_stores(sn.ast) if sn.kind == "stmt" and a2 else ()
        if stores:
            # `self.t += 1`, `buf.size = 0`, `flags[i] = True`: a literal that reads the updated field / element no longer holds
            a2 = frozenset((k, v) for k, v in a2 if not _reads_store(k, stores))
        if not killed:
            return a2
        val = None
        if sn.kind == "stmt" and isinstance(sn.ast, ast.Assign) and len(sn.ast.targets) == 1 and isinstance(sn.ast.targets[0], ast.Name):
            # constant propagation of booleans along the path: `done = terminated or truncated`, `due = False`
            val = self.eval3(sn.ast.value, dict(a2), s) if isinstance(sn.ast.value, (ast.BoolOp, ast.UnaryOp, ast.Name, ast.Constant)) else None
            if isinstance(sn.ast.value, ast.Constant) and not isinstance(sn.ast.value.value, bool):
                val = None
        extra = []
        if sn.kind == "stmt" and isinstance(sn.ast, ast.Assign) and len(sn.ast.targets) == 1 and isinstance(sn.ast.targets[0], (ast.Tuple, ast.List)) \
                and isinstance(sn.ast.value, (ast.Tuple, ast.List)) and len(sn.ast.value.elts) == len(sn.ast.targets[0].elts):
            # element-wise copies `a, b = (c, d)` (also produced by helper expansion) carry the truth values along
            for t_, v_ in zip(sn.ast.targets[0].elts, sn.ast.value.elts):
                if isinstance(t_, ast.Name) and isinstance(v_, (ast.BoolOp, ast.UnaryOp, ast.Name, ast.Constant)):
                    if isinstance(v_, ast.Constant) and not isinstance(v_.value, bool):
                        continue
                    ev = self.eval3(v_, dict(a2), s)
                    if ev is not None:
                        extra.append((t_.id, ev))
        a2 = frozenset((k, v) for k, v in a2 if not (killed & _idents(k)))
        if val is not None:
            a2 = a2 | {(sn.ast.targets[0].id, val)}
        if extra:
            a2 = a2 | frozenset(extra)
        return a2

    def describe_path(self, path) -> list[str]:
        out = []
        for p in path:
            n = self.nodes[p]
            if n.kind in ("entry", "exit"):
                out.append(n.kind)
            elif isinstance(n.ast, ast.Expr) and isinstance(n.ast.value, ast.Constant) and isinstance(n.ast.value.value, str):
                continue
            else:
                txt = ast.unparse(n.ast.test) if n.kind == "test" and hasattr(n.ast, "test") else (
                    "for " + ast.unparse(n.ast.target) if n.kind == "for" else ast.unparse(n.ast).split("\n")[0])
                out.append(f"L{n.lineno}: {txt[:70]}")
        return out


def _inplace_stores(stmt) -> tuple:
    """(kind, base text[, attr]) of the attribute / element stores of one simple statement."""
    if isinstance(stmt, ast.Assign):
        ts = list(stmt.targets)
    elif isinstance(stmt, (ast.AugAssign, ast.AnnAssign)):
        ts = [stmt.target]
    else:
        return ()
    out = []
    while ts:
        t = ts.pop()
        if isinstance(t, (ast.Tuple, ast.List)):
            ts += list(t.elts)
        elif isinstance(t, ast.Starred):
            ts.append(t.value)
        elif isinstance(t, ast.Attribute):
            out.append(("attr", ast.unparse(t.value), t.attr))
        elif isinstance(t, ast.Subscript):
            out.append(("sub", ast.unparse(t.value)))
    return tuple(out)


_READS_CACHE: dict = {}


def _reads_store(txt: str, stores: tuple) -> bool:
    """Does the literal ``txt`` read a field / an element that one of ``stores`` writes?  A stored field `b.a` is read by `b.a`
    (and anything below it); a stored element `b[i]` by any subscript of `b` and by any call that receives `b` whole or is a method
    of `b` other than a pure shape question (`len(b)`, `b.shape`, `b is None` do not change)."""
    key = (txt, stores)
    if key in _READS_CACHE:
        return _READS_CACHE[key]
    res = False
    try:
        tree = ast.parse(txt, mode="eval")
    except SyntaxError:
        tree = None
    if tree is not None:
        attrs = {(b, a) for k, b, *r in stores if k == "attr" for a in r}
        subs = {b for k, b, *r in stores if k == "sub"}
        for x in ast.walk(tree):
            if isinstance(x, ast.Attribute) and (ast.unparse(x.value), x.attr) in attrs:
                res = True
            elif isinstance(x, ast.Subscript) and ast.unparse(x.value) in subs:
                res = True
            elif isinstance(x, ast.Call) and subs:
                fn = x.func
                if isinstance(fn, ast.Name) and fn.id in ("len", "isinstance", "type", "id"):
                    continue
                if isinstance(fn, ast.Attribute) and ast.unparse(fn.value) in subs:
                    res = True
                elif any(ast.unparse(a) in subs for a in x.args):
                    res = True
            if res:
                break
    _READS_CACHE[key] = res
    return res


_IDENT_CACHE: dict = {}


def _idents(txt: str) -> set:
    if txt not in _IDENT_CACHE:
        try:
            _IDENT_CACHE[txt] = {x.id for x in ast.walk(ast.parse(txt, mode="eval")) if isinstance(x, ast.Name)}
        except SyntaxError:
            _IDENT_CACHE[txt] = set()
    return _IDENT_CACHE[txt]


def calls_in(e: ast.AST):
    for x in ast.walk(e):
        if isinstance(x, ast.Call):
            yield x


def call_name(c: ast.Call) -> str:
    """Dotted source text of the callee (``a.b.c``), '' if not a plain dotted expression."""
    e = c.func
    parts = []
    while isinstance(e, ast.Attribute):
        parts.append(e.attr)
        e = e.value
    if isinstance(e, ast.Name):
        parts.append(e.id)
        return ".".join(parts[::-1])
    return ""


def attr_chain(e: ast.AST) -> str:
    parts = []
    while isinstance(e, ast.Attribute):
        parts.append(e.attr)
        e = e.value
    if isinstance(e, ast.Name):
        parts.append(e.id)
        return ".".join(parts[::-1])
    return ""
