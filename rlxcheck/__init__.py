"""rlxcheck - repository-specific static analysis for rl-blox (properties C01-C20).

Never imports or executes rl_blox; reads /repo's working tree with ``ast``.
"""
