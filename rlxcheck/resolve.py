"""E0: callable alias resolution (partial / jit / cached_partial / factories) and the repo call graph."""
from __future__ import annotations

import ast
from dataclasses import dataclass, field

import networkx as nx

from .cfg import CFG
from .repo import Repo, ModuleInfo

JIT_WRAPPERS = {"flax.nnx.jit", "jax.jit", "flax.nnx.cached_partial", "functools.partial", "jax.vmap", "flax.nnx.vmap",
                "jax.checkpoint", "flax.nnx.remat"}


@dataclass
class Target:
    qual: str | None  # repo function the callable resolves to
    prefix: list = field(default_factory=list)  # positional args already bound (ast exprs), in order
    kwargs: dict = field(default_factory=dict)  # keyword args already bound
    chain: list = field(default_factory=list)  # wrappers seen (for evidence)


class Resolver:
    def __init__(self, repo: Repo):
        self.repo = repo
        self._cfgs = {}
        self._cg = None

    def cfg_of(self, fn) -> CFG:
        if id(fn) not in self._cfgs:
            self._cfgs[id(fn)] = CFG(fn)
        return self._cfgs[id(fn)]

    # -----------------------------------------------------------------------------------------
    def resolve(self, e: ast.AST, mi: ModuleInfo, cfg: CFG | None = None, at: int | None = None, depth: int = 0) -> Target | None:
        """Resolve a callable expression to a repo function plus the arguments already bound to it."""
        if depth > 8:
            return None
        if isinstance(e, ast.Name):
            if cfg is not None and at is not None:
                defs = cfg.defs_of(at, e.id)
                real = [d for d in defs if d.kind != "param"]
                if real:
                    # all reaching (non-param) definitions must agree on the target function
                    outs = []
                    for d in real:
                        if d.kind == "funcdef":
                            t = self._closure_wrapper(d.value, mi, cfg, d.node, depth)
                            if t is not None and len(real) == 1:
                                return t
                            return Target(None, chain=[f"local def {e.id}"])
                        if d.kind != "assign":
                            return None
                        outs.append(self.resolve(d.value, mi, cfg, d.node, depth + 1))
                    if all(o is not None and o.qual == outs[0].qual for o in outs) and outs[0] is not None:
                        return outs[-1]
                    return None
                if defs:
                    return None  # a parameter: unknown callable
            r = self.repo.resolve_name(mi, e.id)
            if r and r.startswith(self.repo.PKG + ".") and self._is_func(r):
                return Target(r)
            return None
        if isinstance(e, ast.Attribute):
            r = self.repo.resolve_expr(mi, e)
            if r and r.startswith(self.repo.PKG + ".") and self._is_func(r):
                return Target(r)
            return None
        if isinstance(e, ast.Call):
            fq = self.repo.resolve_expr(mi, e.func) if isinstance(e.func, (ast.Name, ast.Attribute)) else None
            # partial(nnx.jit, static_argnames=...)(f)
            if isinstance(e.func, ast.Call):
                inner = e.func
                iq = self.repo.resolve_expr(mi, inner.func) if isinstance(inner.func, (ast.Name, ast.Attribute)) else None
                if iq == "functools.partial" and inner.args:
                    wq = self.repo.resolve_expr(mi, inner.args[0]) if isinstance(inner.args[0], (ast.Name, ast.Attribute)) else None
                    if wq in JIT_WRAPPERS and e.args:
                        t = self.resolve(e.args[0], mi, cfg, at, depth + 1)
                        if t:
                            t.chain.append(wq)
                        return t
                if iq in ("flax.nnx.value_and_grad", "flax.nnx.grad", "jax.grad", "jax.value_and_grad"):
                    return None
                return None
            if fq in ("flax.nnx.jit", "jax.jit", "jax.vmap", "flax.nnx.vmap") and e.args:
                t = self.resolve(e.args[0], mi, cfg, at, depth + 1)
                if t:
                    t.chain.append(fq)
                return t
            if fq in ("functools.partial", "flax.nnx.cached_partial") and e.args:
                t = self.resolve(e.args[0], mi, cfg, at, depth + 1)
                if t is None:
                    return None
                fac = getattr(t, "factory", None)
                t = Target(t.qual, list(t.prefix) + list(e.args[1:]), dict(t.kwargs), t.chain + [fq])
                if fac is not None:
                    t.factory = fac  # type: ignore[attr-defined]
                for kw in e.keywords:
                    if kw.arg:
                        t.kwargs[kw.arg] = kw.value
                return t
            # factory: repo function whose single return value is itself a resolvable callable
            if fq and fq.startswith(self.repo.PKG + ".") and self._is_func(fq):
                fn = self.repo.func(fq)
                rets = [n for n in ast.walk(fn) if isinstance(n, ast.Return) and n.value is not None and not any(isinstance(p_, ast.FunctionDef) and p_ is not fn and any(x is n for x in ast.walk(p_)) for p_ in ast.walk(fn))]
                if len(rets) == 1 and isinstance(rets[0].value, (ast.Call, ast.Name)):
                    c2 = self.cfg_of(fn)
                    try:
                        node = c2.node_of(rets[0])
                    except KeyError:
                        return None
                    t = self.resolve(rets[0].value, fn._module, c2, node.id, depth + 1)
                    if t and t.qual:
                        # arguments bound inside the factory are expressions of the factory's scope: keep them tagged
                        t.chain.append(f"factory {fq}")
                        t.factory = (fq, e)  # type: ignore[attr-defined]
                        return t
            return None
        return None

    def _closure_wrapper(self, g: ast.FunctionDef, mi, cfg, at, depth):
        """A nested `def g(p1..pk): return F(a1..am, p1..pk)` (decorated with jit or not) is F with (a1..am) bound, like partial(F, a1..am)."""
        from .repo import positional_params
        if not isinstance(g, ast.FunctionDef):
            return None
        body = [x for x in g.body if not (isinstance(x, ast.Expr) and isinstance(x.value, ast.Constant))]
        if len(body) != 1 or not isinstance(body[0], ast.Return) or not isinstance(body[0].value, ast.Call):
            return None
        call = body[0].value
        t = self.resolve(call.func, mi, cfg, at, depth + 1)
        if t is None or not t.qual:
            return None
        gp = positional_params(g)
        try:
            F = self.repo.func(t.qual)
        except Exception:
            return None
        fp = positional_params(F)
        bound = {}
        pos = list(t.prefix) + list(call.args)
        if any(isinstance(a, ast.Starred) for a in pos) or any(k.arg is None for k in call.keywords):
            return None
        for pn, a in zip(fp, pos):
            bound[pn] = a
        for k in call.keywords:
            bound[k.arg] = k.value
        bound.update(t.kwargs)
        # parameters of F that receive g's own parameters stay free; the others are bound; the bound ones must form a leading prefix
        free = [pn for pn in fp if pn in bound and isinstance(bound[pn], ast.Name) and bound[pn].id in gp]
        fixed = [pn for pn in fp if pn in bound and pn not in free]
        if fixed != fp[:len(fixed)] or [bound[pn].id for pn in free] != gp[:len(free)] or len(free) != len(gp):
            return None
        return Target(t.qual, [bound[pn] for pn in fixed], {}, t.chain + [f"closure {g.name}"])

    def _is_func(self, qual: str) -> bool:
        try:
            mi, node = self.repo.lookup(qual)
            return isinstance(node, (ast.FunctionDef, ast.AsyncFunctionDef))
        except Exception:
            return False

    # -----------------------------------------------------------------------------------------
    def call_graph(self) -> nx.DiGraph:
        """Edges caller -> callee over repo functions (direct names, aliases, self.method, factories)."""
        if self._cg is not None:
            return self._cg
        g = nx.DiGraph()
        stats = {"calls": 0, "internal_candidates": 0, "resolved": 0}
        for qual, fn, mi in self.repo.all_functions():
            g.add_node(qual)
            cfg = None
            cls_qual = None
            p = getattr(fn, "_parent", None)
            if isinstance(p, ast.ClassDef):
                cls_qual = self.repo.canonical(f"{mi.name}.{p.name}", p)
            for node in ast.walk(fn):
                if not isinstance(node, ast.Call):
                    continue
                stats["calls"] += 1
                f = node.func
                tq = None
                if isinstance(f, ast.Attribute) and isinstance(f.value, ast.Name) and f.value.id == "self" and cls_qual:
                    m = self.repo.method(cls_qual, f.attr)
                    if m:
                        tq = f"{m[0]}.{f.attr}"
                elif isinstance(f, ast.Attribute) and isinstance(f.value, ast.Call) and isinstance(f.value.func, ast.Name) and f.value.func.id == "super" and cls_qual:
                    for base in self.repo.mro(cls_qual)[1:]:
                        m = self.repo.method(base, f.attr, inherited=False)
                        if m:
                            tq = f"{base}.{f.attr}"
                            break
                else:
                    if cfg is None:
                        try:
                            cfg = self.cfg_of(fn)
                        except Exception:
                            cfg = False
                    at = None
                    if cfg:
                        try:
                            at = cfg.node_of(node).id
                        except KeyError:
                            at = None
                    t = self.resolve(f, mi, cfg or None, at)
                    if t and t.qual:
                        tq = t.qual
                    else:
                        # class constructor -> __init__
                        r = self.repo.resolve_expr(mi, f) if isinstance(f, (ast.Name, ast.Attribute)) else None
                        if r and r.startswith(self.repo.PKG + "."):
                            try:
                                m2, nd = self.repo.lookup(r)
                                if isinstance(nd, ast.ClassDef):
                                    mm = self.repo.method(f"{m2.name}.{nd.name}", "__init__")
                                    if mm:
                                        tq = f"{mm[0]}.__init__"
                            except Exception:
                                pass
                    # arguments that are repo functions (higher-order use: value_and_grad(loss), partial(f, ..))
                for a in list(node.args) + [k.value for k in node.keywords]:
                    if isinstance(a, (ast.Name, ast.Attribute)):
                        r = self.repo.resolve_expr(mi, a)
                        if r and r.startswith(self.repo.PKG + ".") and self._is_func(r):
                            g.add_edge(qual, r, kind="ref")
                if tq:
                    stats["resolved"] += 1
                    g.add_edge(qual, tq, kind="call")
        self._cg = g
        self.cg_stats = stats
        return g
