"""Optional parameters that were added after the checker's reference signatures were recorded are read at their defaults.

The documented behaviour of a routine is the behaviour of its recorded signature.  A parameter that did not exist then and that has a
constant default is a new option; the rules describe the routine with the option at its default.  This pass rewrites the parsed tree
(never the files): inside such a function the parameter is replaced by its default constant and tests that became constant are folded;
call sites that pass the default explicitly drop the argument.  It is applied only when *no* call inside the package passes another
value for the parameter - otherwise the function is left untouched (and the rules see the option as ordinary code).
"""
from __future__ import annotations

import ast
import copy
import json
import os

SIG_FILE = os.path.join(os.path.dirname(__file__), "known_signatures.json")


def load_signatures() -> dict:
    try:
        with open(SIG_FILE, encoding="utf-8") as fh:
            return json.load(fh)["signatures"]
    except Exception:
        return {}


def write_signatures(repo, path: str = SIG_FILE):
    from .repo import param_names
    sigs = {q: param_names(fn) for q, fn, mi in repo.all_functions()}
    with open(path, "w", encoding="utf-8") as fh:
        json.dump({"comment": "parameter names of every function / method of rl_blox when the checker was built: parameters that are not listed here and have a constant default are options added later and are read at their defaults",
                   "signatures": sigs}, fh, indent=0, sort_keys=True)


def _defaults(fn: ast.FunctionDef) -> dict:
    a = fn.args
    pos = a.posonlyargs + a.args
    out = dict(zip([x.arg for x in pos[len(pos) - len(a.defaults):]], a.defaults))
    out.update({x.arg: d for x, d in zip(a.kwonlyargs, a.kw_defaults) if d is not None})
    return out


def _is_const(e) -> bool:
    if isinstance(e, ast.Constant):
        return isinstance(e.value, (bool, int, float, str, type(None)))
    if isinstance(e, ast.UnaryOp) and isinstance(e.op, ast.USub) and isinstance(e.operand, ast.Constant) and isinstance(e.operand.value, (int, float)):
        return True
    return False


def _value(e):
    return -e.operand.value if isinstance(e, ast.UnaryOp) else e.value


def _same_const(a, b) -> bool:
    return _is_const(a) and _is_const(b) and type(_value(a)) is type(_value(b)) and _value(a) == _value(b)


class _Unknown(Exception):
    pass


def const_eval(e):
    """Value of an expression made of constants only (comparisons, identity tests, boolean operators, not); raises _Unknown otherwise."""
    if _is_const(e):
        return _value(e)
    if isinstance(e, ast.UnaryOp) and isinstance(e.op, ast.Not):
        return not const_eval(e.operand)
    if isinstance(e, ast.BoolOp):
        # short-circuit: a constant prefix may decide
        res = None
        for v in e.values:
            try:
                x = const_eval(v)
            except _Unknown:
                raise
            if isinstance(e.op, ast.And) and not x:
                return x
            if isinstance(e.op, ast.Or) and x:
                return x
            res = x
        return res
    if isinstance(e, ast.Compare) and len(e.ops) == 1:
        a, b = const_eval(e.left), const_eval(e.comparators[0])
        op = e.ops[0]
        if isinstance(op, ast.Is):
            return a is b if (a is None or b is None or isinstance(a, bool) or isinstance(b, bool)) else _raise()
        if isinstance(op, ast.IsNot):
            return a is not b if (a is None or b is None or isinstance(a, bool) or isinstance(b, bool)) else _raise()
        try:
            if isinstance(op, ast.Eq):
                return a == b
            if isinstance(op, ast.NotEq):
                return a != b
            if isinstance(op, ast.Lt):
                return a < b
            if isinstance(op, ast.LtE):
                return a <= b
            if isinstance(op, ast.Gt):
                return a > b
            if isinstance(op, ast.GtE):
                return a >= b
        except TypeError:
            raise _Unknown()
    raise _Unknown()


def _raise():
    raise _Unknown()


class _Subst(ast.NodeTransformer):
    def __init__(self, mapping):
        self.mapping = mapping

    def visit_Name(self, n):
        if isinstance(n.ctx, ast.Load) and n.id in self.mapping:
            return ast.copy_location(copy.deepcopy(self.mapping[n.id]), n)
        return n

    def visit_FunctionDef(self, n):
        # a nested function that re-binds the name as its own parameter shadows it
        shadow = {a.arg for a in n.args.posonlyargs + n.args.args + n.args.kwonlyargs} | ({n.args.vararg.arg} if n.args.vararg else set()) | ({n.args.kwarg.arg} if n.args.kwarg else set())
        inner = {k: v for k, v in self.mapping.items() if k not in shadow}
        if inner:
            sub = _Subst(inner)
            n.body = [sub.visit(x) for x in n.body]
        return n

    visit_AsyncFunctionDef = visit_FunctionDef

    def visit_Lambda(self, n):
        shadow = {a.arg for a in n.args.posonlyargs + n.args.args + n.args.kwonlyargs}
        inner = {k: v for k, v in self.mapping.items() if k not in shadow}
        if inner:
            n.body = _Subst(inner).visit(n.body)
        return n


class _Fold(ast.NodeTransformer):
    """Remove branches whose test is a constant expression."""

    def _block(self, stmts):
        out = []
        for s in stmts:
            r = self.visit(s)
            if r is None:
                continue
            new = r if isinstance(r, list) else [r]
            was_branch = isinstance(s, ast.If) and not (len(new) == 1 and new[0] is s)
            out += new
            # statements after an unconditional return / raise that a folded branch uncovered are unreachable
            if was_branch and new and isinstance(new[-1], (ast.Return, ast.Raise, ast.Continue, ast.Break)):
                break
        return out

    def generic_visit(self, node):
        for f in ("body", "orelse", "finalbody"):
            v = getattr(node, f, None)
            if isinstance(v, list) and v and isinstance(v[0], ast.stmt):
                nb = self._block(v)
                setattr(node, f, nb if (nb or f != "body") else [ast.copy_location(ast.Pass(), v[0])])
        for f, v in ast.iter_fields(node):
            if f in ("body", "orelse", "finalbody") and isinstance(v, list) and (not v or isinstance(v[0], ast.stmt)):
                continue
            if isinstance(v, ast.AST):
                setattr(node, f, self.visit(v))
            elif isinstance(v, list):
                setattr(node, f, [self.visit(x) if isinstance(x, ast.AST) else x for x in v])
        return node

    def visit_If(self, n):
        n = self.generic_visit(n)
        try:
            v = const_eval(n.test)
        except _Unknown:
            return n
        return n.body if v else (n.orelse or None)

    def visit_IfExp(self, n):
        n = self.generic_visit(n)
        try:
            v = const_eval(n.test)
        except _Unknown:
            return n
        return n.body if v else n.orelse

    def visit_Assert(self, n):
        n = self.generic_visit(n)
        try:
            if const_eval(n.test):
                return None
        except _Unknown:
            pass
        return n

    def visit_BoolOp(self, n):
        n = self.generic_visit(n)
        # drop constant operands that do not decide:  True and x -> x ;  False or x -> x
        vals = []
        for i, v in enumerate(n.values):
            try:
                c = const_eval(v)
            except _Unknown:
                vals.append(v)
                continue
            if isinstance(n.op, ast.And):
                if not c:
                    return v if not vals else ast.copy_location(ast.BoolOp(op=ast.And(), values=vals + [v]), n)
                if i == len(n.values) - 1:
                    vals.append(v)
            else:
                if c:
                    return v if not vals else ast.copy_location(ast.BoolOp(op=ast.Or(), values=vals + [v]), n)
                if i == len(n.values) - 1:
                    vals.append(v)
        if len(vals) == 1:
            return vals[0]
        n.values = vals
        return n


def _module_constant(mi, e):
    """A default written as the name of a module-level constant (`delta=DEFAULT_DELTA` with `DEFAULT_DELTA = 1.0` assigned exactly once at
    module level and never rebound) is that constant; anything else stays as it is."""
    if not isinstance(e, ast.Name) or mi is None:
        return e
    vals = []
    for st in getattr(mi.tree, "body", []):
        tg = st.targets if isinstance(st, ast.Assign) else [st.target] if isinstance(st, (ast.AnnAssign, ast.AugAssign)) else []
        for t in tg:
            if any(isinstance(x, ast.Name) and x.id == e.id for x in ast.walk(t)):
                vals.append(st)
    if len(vals) != 1 or isinstance(vals[0], ast.AugAssign) or getattr(vals[0], "value", None) is None or not _is_const(vals[0].value):
        return e
    if any(isinstance(x, ast.Global) and e.id in x.names for x in ast.walk(mi.tree)):
        return e
    return ast.copy_location(vals[0].value, e)


def specialise_repo(repo) -> list:
    """Apply the pass in place to the repository view.  Returns [(function qual, parameter, default source text)]."""
    from .repo import param_names
    sigs = load_signatures()
    if not sigs:
        return []
    funcs = [(q, fn, mi) for q, fn, mi in repo.all_functions() if "<locals>" not in q]
    cands = {}      # qual -> {param: default expr}
    by_name = {}
    for q, fn, mi in funcs:
        by_name.setdefault(fn.name if not q.endswith(".__init__") else q.rsplit(".", 2)[-2], []).append((q, fn, mi))
        if q not in sigs:
            continue
        dflt = {p_: _module_constant(mi, d_) for p_, d_ in _defaults(fn).items()}
        stored = {n.id for n in ast.walk(fn) if isinstance(n, ast.Name) and isinstance(n.ctx, (ast.Store, ast.Del))}
        now = param_names(fn)
        # a recorded name that is gone means parameters were renamed (or removed): an unrecorded name may then be the renamed one, not an
        # added option - such functions are left as they are
        if any(p not in now for p in sigs[q]):
            continue
        new = {p: dflt[p] for p in now if p not in sigs[q] and p in dflt and _is_const(dflt[p]) and p not in stored}
        if new:
            cands[q] = new
    if not cands:
        return []

    def passed_value(call, fn, p):
        """Expression the call passes for parameter p of fn, or None when it leaves the default."""
        for k in call.keywords:
            if k.arg == p:
                return k.value
            if k.arg is None:
                return ast.Constant(value=Ellipsis)     # **kwargs: unknown
        pos = [a.arg for a in fn.args.posonlyargs + fn.args.args]
        if pos and pos[0] in ("self", "cls"):
            pos = pos[1:]
        if p in pos:
            i = pos.index(p)
            if any(isinstance(a, ast.Starred) for a in call.args[: i + 1]):
                return ast.Constant(value=Ellipsis)
            if len(call.args) > i:
                return call.args[i]
        return None

    def callee_candidates(call, mi):
        f = call.func
        out = []
        if isinstance(f, (ast.Name, ast.Attribute)):
            try:
                r = repo.resolve_expr(mi, f)
            except Exception:
                r = None
            if r:
                for q in (r, r + ".__init__"):
                    if q in cands:
                        fn = next(x[1] for x in funcs if x[0] == q)
                        out.append((q, fn))
                if out or (r.startswith(repo.PKG + ".") and repo.has(r)):
                    return out
        nm = f.attr if isinstance(f, ast.Attribute) else f.id if isinstance(f, ast.Name) else None
        for q, fn, _m in by_name.get(nm, []):
            if q in cands:
                out.append((q, fn))
        return out
    # fixpoint: a candidate survives when every call passes nothing, the default, or a surviving candidate of the caller with the same default
    changed = True
    while changed:
        changed = False
        for q0, fn0, mi0 in funcs:
            own = cands.get(q0, {})
            for c in ast.walk(fn0):
                if not isinstance(c, ast.Call):
                    continue
                for q, fn in callee_candidates(c, mi0):
                    for p in list(cands.get(q, {})):
                        v = passed_value(c, fn, p)
                        if v is None:
                            continue
                        d = cands[q][p]
                        ok = _same_const(v, d) or (isinstance(v, ast.Name) and v.id in own and _same_const(own[v.id], d))
                        if not ok:
                            del cands[q][p]
                            changed = True
    done = []
    # options kept on the instance: `self.flag = <added parameter>` in __init__
    inst_opts = {}      # class qual -> {attribute: default expr}
    for q, fn, mi in funcs:
        mp = cands.get(q)
        if not mp or not q.endswith(".__init__"):
            continue
        for st in fn.body:
            if isinstance(st, ast.Assign) and len(st.targets) == 1 and isinstance(st.targets[0], ast.Attribute) and isinstance(st.targets[0].value, ast.Name) \
                    and st.targets[0].value.id == "self" and isinstance(st.value, ast.Name) and st.value.id in mp:
                inst_opts.setdefault(q.rsplit(".", 1)[0], {})[st.targets[0].attr] = mp[st.value.id]
    for q, fn, mi in funcs:
        mp = cands.get(q)
        if not mp:
            continue
        sub = _Subst(mp)
        fn.body = [sub.visit(s) for s in fn.body]
        for p, d in mp.items():
            done.append((q, p, ast.unparse(d)))
    if not done:
        return []
    # an instance option that nothing else in the package stores is that constant wherever the class reads it
    if inst_opts:
        stores = {}
        for q0, fn0, mi0 in funcs:
            for x in ast.walk(fn0):
                if isinstance(x, ast.Attribute) and isinstance(x.ctx, (ast.Store, ast.Del)):
                    stores[x.attr] = stores.get(x.attr, 0) + 1
                if isinstance(x, ast.Call) and isinstance(x.func, ast.Name) and x.func.id in ("setattr", "delattr") and len(x.args) >= 2 and isinstance(x.args[1], ast.Constant):
                    stores[x.args[1].value] = stores.get(x.args[1].value, 0) + 2
        for cq, attrs in inst_opts.items():
            keep = {a: d for a, d in attrs.items() if stores.get(a, 0) == 1}
            if not keep:
                continue

            class _SelfAttr(ast.NodeTransformer):
                def visit_Attribute(self, n):
                    self.generic_visit(n)
                    if isinstance(n.ctx, ast.Load) and isinstance(n.value, ast.Name) and n.value.id == "self" and n.attr in keep:
                        return ast.copy_location(ast.Constant(value=_value(keep[n.attr])), n)
                    return n
            for q0, fn0, mi0 in funcs:
                if q0.startswith(cq + ".") and "<locals>" not in q0:
                    fn0.body = [_SelfAttr().visit(st) for st in fn0.body]
            for a, d in keep.items():
                done.append((cq, "self." + a, ast.unparse(d)))
    # call sites: drop arguments that pass the default of a specialised parameter
    for q0, fn0, mi0 in funcs:
        for c in ast.walk(fn0):
            if not isinstance(c, ast.Call):
                continue
            cs = callee_candidates(c, mi0)
            if not cs:
                continue
            for k in list(c.keywords):
                if k.arg is not None and _is_const(k.value) and cs and all(k.arg in cands.get(q, {}) and _same_const(cands[q][k.arg], k.value) for q, _f in cs):
                    c.keywords.remove(k)
            # trailing positional arguments
            while c.args and len(cs) == 1 and not any(isinstance(a, ast.Starred) for a in c.args):
                q, fn = cs[0]
                pos = [a.arg for a in fn.args.posonlyargs + fn.args.args]
                if pos and pos[0] in ("self", "cls") and not (isinstance(c.func, ast.Name) and not q.endswith(".__init__")):
                    pos = pos[1:]
                i = len(c.args) - 1
                if i < len(pos) and pos[i] in cands.get(q, {}) and _same_const(cands[q][pos[i]], c.args[i]) and not c.keywords:
                    c.args.pop()
                else:
                    break
    for q, fn, mi in funcs:
        folded = _Fold().visit(fn)
        ast.fix_missing_locations(fn)
    for mi in repo.modules.values():
        for parent in ast.walk(mi.tree):
            for child in ast.iter_child_nodes(parent):
                child._parent = parent
    return done
