"""E6a: module write-effect summaries (which parameters' module state a function may change).

A module-valued parameter is *written* only through
  * ``<opt>.update(m, g)``            (flax Optimizer: changes m and the optimizer state),
  * ``nnx.update(m, s)``,
  * being passed, at a written parameter position, to a repo function whose summary writes it.
Summaries are propagated bottom-up over the resolved call graph (aliases made with partial / jit /
cached_partial are folded by :class:`Resolver`).  Paths are ``(root parameter, attribute path)``.
"""
from __future__ import annotations

import ast

from .cfg import CFG
from .repo import Repo, positional_params, bind_call
from .resolve import Resolver


def expr_path(e: ast.AST):
    """`a.b.c` -> ('a', ('b','c')); None if not a plain attribute chain on a name."""
    parts = []
    while isinstance(e, ast.Attribute):
        parts.append(e.attr)
        e = e.value
    if isinstance(e, ast.Name):
        return e.id, tuple(parts[::-1])
    return None


class Effects:
    def __init__(self, repo: Repo, res: Resolver):
        self.repo, self.res = repo, res
        self._sum: dict = {}
        self._active: set = set()
        self.sites: dict = {}  # qual -> list of (kind, call ast, written path, opt path)

    def summary(self, qual: str) -> set:
        """Set of (param name, attr path) whose module state ``qual`` may change (optimizers included)."""
        if qual in self._sum:
            return self._sum[qual]
        if qual in self._active:
            return set()
        self._active.add(qual)
        try:
            fn = self.repo.func(qual)
        except Exception:
            self._active.discard(qual)
            self._sum[qual] = set()
            return set()
        out = set()
        sites = []
        self._scan(fn, fn, qual, {}, out, sites)
        self._active.discard(qual)
        self._sum[qual] = out
        self.sites[qual] = sites
        return out

    # ------------------------------------------------------------------
    def _scan(self, fn, scope_fn, qual, rename, out, sites):
        """Scan ``scope_fn`` (fn itself or a nested def) ; ``rename`` maps local names to outer paths."""
        mi = fn._module
        params = set(positional_params(fn)) | {a.arg for a in fn.args.kwonlyargs}
        cfg = self.res.cfg_of(scope_fn) if scope_fn is fn else None

        def to_path(e):
            p = expr_path(e)
            if p is None:
                return None
            root, attrs = p
            if root in rename:
                r2 = rename[root]
                if r2 is None:
                    return None
                return r2[0], r2[1] + attrs
            if root in aliases:
                r2 = aliases[root]
                return r2[0], r2[1] + attrs
            return (root, attrs)

        # local aliases of module-valued paths: names assigned exactly once in this scope to an attribute chain rooted at a
        # parameter (or another such alias), e.g. `actor = policy.actor`, `policy__i2 = policy` (helper expansion)
        aliases = {}
        counts = {}
        cands = {}
        for st in ast.walk(scope_fn):
            if isinstance(st, ast.Name) and isinstance(st.ctx, ast.Store):
                counts[st.id] = counts.get(st.id, 0) + 1
            if isinstance(st, ast.Assign) and len(st.targets) == 1 and isinstance(st.targets[0], ast.Name):
                pth = expr_path(st.value)
                if pth is not None:
                    cands[st.targets[0].id] = pth
        for _ in range(4):
            for nm, (root, attrs) in cands.items():
                if counts.get(nm) != 1 or nm in params or nm in rename:
                    continue
                if root in aliases:
                    aliases[nm] = (aliases[root][0], aliases[root][1] + attrs)
                elif root in params or root in rename:
                    base = rename.get(root) if root in rename else (root, ())
                    if base is not None:
                        aliases[nm] = (base[0], base[1] + attrs)
        nested = {}
        for st in ast.walk(scope_fn):
            if isinstance(st, (ast.FunctionDef, ast.AsyncFunctionDef)) and st is not scope_fn:
                par = getattr(st, "_parent", None)
                while par is not None and not isinstance(par, (ast.FunctionDef, ast.AsyncFunctionDef)):
                    par = getattr(par, "_parent", None)
                if par is scope_fn:
                    nested[st.name] = st

        def walk_calls(node):
            for ch in ast.iter_child_nodes(node):
                if isinstance(ch, (ast.FunctionDef, ast.AsyncFunctionDef, ast.Lambda)) and ch is not scope_fn:
                    continue
                if isinstance(ch, ast.Call):
                    yield ch
                yield from walk_calls(ch)

        for c in walk_calls(scope_fn):
            f = c.func
            fq = self.repo.resolve_expr(mi, f) if isinstance(f, (ast.Name, ast.Attribute)) else None
            if fq == "flax.nnx.update" and c.args:
                p = to_path(c.args[0])
                if p:
                    out.add(p)
                    sites.append(("nnx.update", c, p, None))
                continue
            if isinstance(f, ast.Attribute) and f.attr == "update" and len(c.args) == 2 and not c.keywords:
                op = to_path(f.value)
                # dict.update / set.update take one argument; Optimizer.update(model, grads) takes two
                p = to_path(c.args[0])
                if p and op:
                    out.add(p)
                    out.add(op)
                    sites.append(("optimizer.update", c, p, op))
                continue
            # nested def called here: bind its parameters
            if isinstance(f, ast.Name) and f.id in nested:
                nd = nested[f.id]
                ren = dict(rename)
                npar = positional_params(nd)
                for i, a in enumerate(c.args):
                    if i >= len(npar):
                        break
                    if isinstance(a, ast.Tuple):
                        ren[npar[i]] = ("__tuple__", tuple(to_path(x) for x in a.elts))
                    else:
                        ren[npar[i]] = to_path(a)
                # tuple-unpack of a parameter inside the nested def: `a, b = args`
                for st in nd.body:
                    if isinstance(st, ast.Assign) and isinstance(st.value, ast.Name) and st.value.id in ren and isinstance(st.targets[0], ast.Tuple):
                        src = ren[st.value.id]
                        if isinstance(src, tuple) and src and src[0] == "__tuple__":
                            for t, pth in zip(st.targets[0].elts, src[1]):
                                if isinstance(t, ast.Name):
                                    ren[t.id] = pth
                ren = {k: (v if not (isinstance(v, tuple) and v and v[0] == "__tuple__") else None) for k, v in ren.items()}
                nd._module = mi
                self._scan(fn, nd, qual, ren, out, sites)
                continue
            # repo callee through aliases
            node_id = None
            if cfg is not None:
                try:
                    node_id = cfg.node_of(c).id
                except KeyError:
                    node_id = None
            t = self.res.resolve(f, mi, cfg, node_id)
            callee = t.qual if t else None
            prefix = list(t.prefix) if t else []
            if callee is None and isinstance(f, ast.Attribute) and isinstance(f.value, ast.Name) and f.value.id == "self":
                p = getattr(fn, "_parent", None)
                if isinstance(p, ast.ClassDef):
                    m = self.repo.method(self.repo.canonical(f"{mi.name}.{p.name}", p), f.attr)
                    if m:
                        callee = f"{m[0]}.{f.attr}"
            if callee and callee != qual:
                sub = self.summary(callee)
                if sub:
                    try:
                        cfn = self.repo.func(callee)
                    except Exception:
                        continue
                    skip_self = isinstance(getattr(cfn, "_parent", None), ast.ClassDef)
                    if t is not None and hasattr(t, "factory"):
                        continue
                    b = bind_call(cfn, c, prefix, skip_self=skip_self)
                    for kw, v in (t.kwargs.items() if t else []):
                        b.setdefault(kw, v)
                    for (pname, attrs) in sub:
                        if pname in b and not isinstance(b[pname], list):
                            p = to_path(b[pname])
                            if p:
                                out.add((p[0], p[1] + attrs))
                                sites.append((f"call {callee}", c, (p[0], p[1] + attrs), None))

    # ------------------------------------------------------------------
    def written_at_call(self, callee: str, call: ast.Call, prefix=None, kwargs=None) -> list:
        """Argument expressions of ``call`` that the callee may write: [(arg expr, attr path, callee param)]."""
        out = []
        sub = self.summary(callee)
        if not sub:
            return out
        cfn = self.repo.func(callee)
        skip_self = isinstance(getattr(cfn, "_parent", None), ast.ClassDef)
        b = bind_call(cfn, call, prefix or [], skip_self=skip_self)
        for k, v in (kwargs or {}).items():
            b.setdefault(k, v)
        for pname, attrs in sorted(sub):
            if pname in b and not isinstance(b[pname], list):
                out.append((b[pname], attrs, pname))
        return out
