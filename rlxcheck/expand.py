"""Transparent helpers: inline calls to functions that are not part of the frozen API surface.

Every rule of the checker is anchored on functions and methods that exist in the tree the checker was written for
(``known_names.json``: the qualified names of all functions / methods at that point).  A maintainer who *extracts a
helper* (``self._allocate(sample)``, ``_polyak_average(new, old, tau)``, ``_window_indices(start, h)``) creates a callee the rules
have never heard of; analysing the caller with that call left opaque would make every anchored rule fail on code that
behaves exactly as before.  This pass therefore rewrites, in the parsed tree only, each call to such an *unknown* repo
function or method into its body:

* expression mode - the callee body consists of (guarded) returns and single-assignment locals: the call is replaced by
  the equivalent (conditional) expression with the parameters substituted; works anywhere, also inside comprehensions;
* statement mode - otherwise, for calls in statement position (assignment value, expression statement, return value,
  if-test, for-iterable): parameters are bound to fresh locals, the body is copied with fresh local names, every
  ``return`` becomes an assignment to a fresh result variable (early returns become if/else structure), and the call is
  replaced by that variable.

Nothing is executed; recursion, generators, try/with bodies containing returns and star-argument calls are left alone
(the call stays opaque and the rules decide what they can).  Locations of inlined nodes are those of the call site.
"""
from __future__ import annotations

import ast
import copy
import json
import os

KNOWN_FILE = os.path.join(os.path.dirname(os.path.abspath(__file__)), "known_names.json")


def load_known() -> set:
    with open(KNOWN_FILE, encoding="utf-8") as fh:
        return set(json.load(fh)["names"])


def clone(n):
    """Structural copy of an AST subtree: fields and positions only (no `_parent` / `_module` back references, which would
    drag the whole module into a deepcopy)."""
    if isinstance(n, ast.AST):
        new = type(n)()
        for f in n._fields:
            if hasattr(n, f):
                setattr(new, f, clone(getattr(n, f)))
        for a in n._attributes:
            if hasattr(n, a):
                setattr(new, a, getattr(n, a))
        return new
    if isinstance(n, list):
        return [clone(x) for x in n]
    return n


def _dotted(e):
    parts = []
    while isinstance(e, ast.Attribute):
        parts.append(e.attr)
        e = e.value
    if isinstance(e, ast.Name):
        return ".".join([e.id] + parts[::-1])
    return None


class _Rename(ast.NodeTransformer):
    def __init__(self, names: dict, self_expr=None):
        self.names, self.self_expr = names, self_expr

    def visit_Name(self, n):
        if n.id == "self" and self.self_expr is not None:
            return clone(self.self_expr)
        if n.id in self.names:
            r = self.names[n.id]
            if isinstance(r, str):
                return ast.copy_location(ast.Name(id=r, ctx=n.ctx), n)
            return clone(r) if isinstance(n.ctx, ast.Load) else n
        return n

    def visit_arg(self, a):
        if a.arg in self.names and isinstance(self.names[a.arg], str):
            a.arg = self.names[a.arg]
        return a


def _contains(node, types):
    return any(isinstance(x, types) for x in ast.walk(node))


def _always_returns(stmts) -> bool:
    for s in stmts:
        if isinstance(s, (ast.Return, ast.Raise)):
            return True
        if isinstance(s, ast.If) and _always_returns(s.body) and _always_returns(s.orelse):
            return True
    return False


class NotInlinable(Exception):
    pass


class _SpliceStar(ast.NodeTransformer):
    """f(a, *(p, q)) -> f(a, p, q)  (a tuple display under a star, produced when explicit extras were bound to *args)."""

    def visit_Call(self, c):
        self.generic_visit(c)
        if any(isinstance(x, ast.Starred) and isinstance(x.value, (ast.Tuple, ast.List)) for x in c.args):
            new = []
            for x in c.args:
                if isinstance(x, ast.Starred) and isinstance(x.value, (ast.Tuple, ast.List)):
                    new += list(x.value.elts)
                else:
                    new.append(x)
            c.args = new
        return c


def _to_assignments(stmts, result: str, at):
    """Rewrite a statement list so that every `return E` becomes `result = E` and nothing after it runs (structured form)."""
    out = []
    for i, s in enumerate(stmts):
        rest = stmts[i + 1:]
        if isinstance(s, ast.Return):
            val = s.value if s.value is not None else ast.Constant(value=None)
            out.append(ast.copy_location(ast.Assign(targets=[ast.Name(id=result, ctx=ast.Store())], value=val, lineno=at.lineno), at))
            return out
        if isinstance(s, ast.If) and _contains(s, ast.Return):
            body = _to_assignments(s.body + ([] if _always_returns(s.body) else rest), result, at)
            orelse = _to_assignments(s.orelse + ([] if _always_returns(s.orelse) else rest), result, at)
            new = ast.copy_location(ast.If(test=s.test, body=body or [ast.Pass()], orelse=orelse), at)
            out.append(new)
            return out
        if isinstance(s, (ast.For, ast.While, ast.With, ast.Try, ast.AsyncFor, ast.AsyncWith)) and _contains(s, ast.Return):
            raise NotInlinable("return inside a loop / with / try")
        if isinstance(s, ast.Raise):
            out.append(s)
            return out
        out.append(s)
    # fell off the end: implicit None
    out.append(ast.copy_location(ast.Assign(targets=[ast.Name(id=result, ctx=ast.Store())], value=ast.Constant(value=None), lineno=at.lineno), at))
    return out


def _as_expression(stmts, env: dict):
    """Callee body as one expression (guards -> conditional expressions, single-assignment locals substituted); None if impossible."""
    env = dict(env)
    for i, s in enumerate(stmts):
        rest = stmts[i + 1:]
        if isinstance(s, ast.Expr) and isinstance(s.value, ast.Constant):
            continue
        if isinstance(s, ast.Return):
            if s.value is None:
                return ast.Constant(value=None)
            return _Rename(env).visit(clone(s.value))
        if isinstance(s, ast.Assign) and len(s.targets) == 1 and isinstance(s.targets[0], ast.Name) and not _contains(s.value, (ast.Yield, ast.Await, ast.NamedExpr)):
            env[s.targets[0].id] = _Rename(env).visit(clone(s.value))
            continue
        if isinstance(s, ast.If) and not _contains(s.test, (ast.NamedExpr,)):
            a = _as_expression(s.body + ([] if _always_returns(s.body) else rest), env)
            b = _as_expression(s.orelse + ([] if _always_returns(s.orelse) else rest), env)
            if a is None or b is None:
                return None
            return ast.IfExp(test=_Rename(env).visit(clone(s.test)), body=a, orelse=b)
        if isinstance(s, ast.Raise) or isinstance(s, ast.Assert):
            if isinstance(s, ast.Assert):
                continue
            return None
        return None
    return None


class Expander:
    def __init__(self, repo, known: set, max_depth: int = 3):
        self.repo, self.known, self.max_depth = repo, known, max_depth
        self.counter = 0
        self.inlined: list = []  # (caller qual, callee qual, mode)
        self.failed: list = []   # (caller qual, callee qual): unknown helper whose call could not be expanded
        self._attr_types_cache = {}
        self._closures, self._closures_on = {}, False

    # -- callee resolution ------------------------------------------------------------------------------------------
    def _attr_types(self, cq):
        if cq not in self._attr_types_cache:
            out = {}
            try:
                for c in self.repo.mro(cq)[::-1]:
                    m = self.repo.method(c, "__init__", inherited=False)
                    if not m:
                        continue
                    mi = self.repo.cls(c)._module
                    for n in ast.walk(m[1]):
                        if isinstance(n, ast.Assign) and isinstance(n.targets[0], ast.Attribute) and _dotted(n.targets[0].value) == "self" and isinstance(n.value, ast.Call) and isinstance(n.value.func, ast.Name):
                            r = self.repo.resolve_name(mi, n.value.func.id)
                            if r and r.startswith(self.repo.PKG + ".") and self.repo.has(r):
                                out[n.targets[0].attr] = r
            except Exception:
                pass
            self._attr_types_cache[cq] = out
        return self._attr_types_cache[cq]

    def resolve(self, call: ast.Call, mi, cls_qual, owner_qual):
        """-> (callee qual, FunctionDef, module, self expression or None) for an *unknown* repo callee, else None."""
        f = call.func
        if isinstance(f, ast.Lambda):
            # immediate application of a lambda (produced when a lambda-valued local is substituted): a function with one return
            fn = ast.FunctionDef(name="<lambda>", args=f.args, body=[ast.Return(value=f.body)], decorator_list=[], returns=None, type_comment=None, type_params=[])
            ast.copy_location(fn, f)
            ast.fix_missing_locations(fn)
            return f"<lambda>@{getattr(f, 'lineno', 0)}:{getattr(f, 'col_offset', 0)}:{id(f)}", fn, mi, None
        try:
            if isinstance(f, ast.Name) and self._closures_on and f.id in self._closures:
                cfn, cq_ = self._closures[f.id]
                return cq_, cfn, mi, None
            if isinstance(f, ast.Name):
                q = self.repo.resolve_name(mi, f.id)
                if q and q.startswith(self.repo.PKG + ".") and self.repo.has(q):
                    m2, node = self.repo.lookup(q)
                    if isinstance(node, ast.FunctionDef) and q not in self.known:
                        return q, node, m2, None
                return None
            if isinstance(f, ast.Attribute):
                recv = f.value
                rd = _dotted(recv)
                if rd in ("self", "cls") and cls_qual:
                    m = self.repo.method(cls_qual, f.attr)
                    if m and f"{m[0]}.{f.attr}" not in self.known:
                        return f"{m[0]}.{f.attr}", m[1], self.repo.cls(m[0])._module, recv
                    return None
                if rd and rd.startswith("self.") and rd.count(".") == 1 and cls_qual:
                    t = self._attr_types(cls_qual).get(rd[5:])
                    if t:
                        m = self.repo.method(t, f.attr)
                        if m and f"{m[0]}.{f.attr}" not in self.known:
                            return f"{m[0]}.{f.attr}", m[1], self.repo.cls(m[0])._module, recv
                    return None
                # ClassName.static_helper(...) or module.func(...)
                q = self.repo.resolve_expr(mi, f)
                if q and q.startswith(self.repo.PKG + ".") and self.repo.has(q) and q not in self.known:
                    m2, node = self.repo.lookup(q)
                    if isinstance(node, ast.FunctionDef):
                        return q, node, m2, None
        except Exception:
            return None
        return None

    # -- parameter binding --------------------------------------------------------------------------------------------------
    @staticmethod
    def _is_static(fn):
        return any(_dotted(d) in ("staticmethod",) for d in fn.decorator_list)

    @staticmethod
    def _is_classmethod(fn):
        return any(_dotted(d) in ("classmethod",) for d in fn.decorator_list)

    def bind(self, fn: ast.FunctionDef, call: ast.Call, self_expr, is_method: bool):
        a = fn.args
        star_pass = {}
        starred = [x for x in call.args if isinstance(x, ast.Starred)]
        dstar = [k for k in call.keywords if k.arg is None]
        n_fixed = len(a.posonlyargs) + len(a.args) - (1 if (is_method and not self._is_static(fn) and (a.posonlyargs + a.args) and (a.posonlyargs + a.args)[0].arg in ("self", "cls")) else 0)
        if a.vararg and not starred and not dstar and not a.kwarg and len(call.args) >= n_fixed and not any(k.arg is None for k in call.keywords):
            # explicit extras into *args:  f(x, p, q)  into  def f(x, *args)  -> args == (p, q)
            extras = call.args[n_fixed:]
            star_pass[a.vararg.arg] = ast.Tuple(elts=list(extras), ctx=ast.Load())
            call = ast.Call(func=call.func, args=list(call.args[:n_fixed]), keywords=list(call.keywords))
        elif starred or dstar or a.vararg or a.kwarg:
            # pure pass-through:  f(..., *args, **kwargs)  into  def f(..., *args, **kwargs)
            ok = len(starred) == (1 if a.vararg else 0) and len(dstar) == (1 if a.kwarg else 0) and len(starred) <= 1 and len(dstar) <= 1
            if ok and starred:
                ok = call.args[-1] is starred[0] and isinstance(starred[0].value, ast.Name)
            if ok and dstar:
                ok = isinstance(dstar[0].value, ast.Name)
            if not ok:
                raise NotInlinable("star arguments")
            if starred:
                star_pass[a.vararg.arg] = starred[0].value
            if dstar:
                star_pass[a.kwarg.arg] = dstar[0].value
            call = ast.Call(func=call.func, args=[x for x in call.args if not isinstance(x, ast.Starred)], keywords=[k for k in call.keywords if k.arg is not None])
        params = [x.arg for x in a.posonlyargs + a.args]
        defaults = dict(zip(params[len(params) - len(a.defaults):], a.defaults))
        for x, d in zip(a.kwonlyargs, a.kw_defaults):
            params.append(x.arg)
            if d is not None:
                defaults[x.arg] = d
        binding = {}
        pos = list(params)
        if is_method and not self._is_static(fn) and pos and pos[0] in ("self", "cls"):
            pos = pos[1:]
        if len(call.args) > len(pos):
            raise NotInlinable("too many arguments")
        for p, v in zip(pos, call.args):
            binding[p] = v
        for k in call.keywords:
            if k.arg not in params or k.arg in binding:
                raise NotInlinable("keyword mismatch")
            binding[k.arg] = k.value
        for p in pos:
            if p not in binding:
                if p in defaults:
                    binding[p] = defaults[p]
                else:
                    raise NotInlinable(f"missing argument {p}")
        binding.update(star_pass)
        return binding

    # -- one function ------------------------------------------------------------------------------------------------------------
    @staticmethod
    def normalize_star_args(fn: ast.FunctionDef) -> bool:
        """`t = (a, b, c); f(x, *t)` -> `f(x, a, b, c)` when the pack and the call sit in the same statement list and neither t nor
        its element names are stored to in between (so the elements have the packed values at the call)."""
        changed = False

        def stored(st):
            return {n.id for n in ast.walk(st) if isinstance(n, ast.Name) and isinstance(n.ctx, (ast.Store, ast.Del))}

        def block(stmts):
            nonlocal changed
            for i, st in enumerate(stmts):
                for f in ("body", "orelse", "finalbody"):
                    v = getattr(st, f, None)
                    if isinstance(v, list) and v and isinstance(v[0], ast.stmt):
                        block(v)
                for h in getattr(st, "handlers", []) or []:
                    block(h.body)
                if isinstance(st, ast.Assign) and len(st.targets) == 1 and isinstance(st.targets[0], ast.Name) and isinstance(st.value, (ast.Tuple, ast.List)) \
                        and all(isinstance(e, (ast.Name, ast.Constant)) for e in st.value.elts):
                    t = st.targets[0].id
                    elems = {e.id for e in st.value.elts if isinstance(e, ast.Name)}
                    for later in stmts[i + 1:]:
                        # only the statement's own expressions (not nested blocks) are rewritten; any store to t / elements ends the window
                        own = [x for f2, x in ast.iter_fields(later) if f2 not in ("body", "orelse", "finalbody", "handlers")]
                        for root in own:
                            for c in (ast.walk(root) if isinstance(root, ast.AST) else [y for r in root if isinstance(r, ast.AST) for y in ast.walk(r)] if isinstance(root, list) else []):
                                if isinstance(c, ast.Call) and any(isinstance(a, ast.Starred) and isinstance(a.value, ast.Name) and a.value.id == t for a in c.args):
                                    new_args = []
                                    for a in c.args:
                                        if isinstance(a, ast.Starred) and isinstance(a.value, ast.Name) and a.value.id == t:
                                            new_args += [clone(e) for e in st.value.elts]
                                            changed = True
                                        else:
                                            new_args.append(a)
                                    c.args = new_args
                        if stored(later) & (elems | {t}) or isinstance(later, (ast.For, ast.While, ast.If, ast.With, ast.Try)):
                            break
        block(fn.body)
        # function-wide: a pack assigned exactly once whose element names are stored at most once in the whole function (single
        # assignment or parameter) can be substituted at every later call, also inside loops
        stores, packs = {}, {}
        for n in ast.walk(fn):
            if isinstance(n, ast.Name) and isinstance(n.ctx, (ast.Store, ast.Del)):
                stores[n.id] = stores.get(n.id, 0) + 1
            if isinstance(n, ast.Assign) and len(n.targets) == 1 and isinstance(n.targets[0], ast.Name) and isinstance(n.value, (ast.Tuple, ast.List)):
                packs.setdefault(n.targets[0].id, []).append(n.value)
        for c in ast.walk(fn):
            if not isinstance(c, ast.Call) or not any(isinstance(a, ast.Starred) for a in c.args):
                continue
            new_args = []
            for a in c.args:
                if isinstance(a, ast.Starred) and isinstance(a.value, ast.Name) and len(packs.get(a.value.id, [])) == 1 and stores.get(a.value.id) == 1:
                    disp = packs[a.value.id][0]
                    if all((isinstance(e, ast.Name) and stores.get(e.id, 0) <= 1) or isinstance(e, ast.Constant) for e in disp.elts) and getattr(disp, "lineno", 0) <= getattr(c, "lineno", 0):
                        new_args += [clone(e) for e in disp.elts]
                        changed = True
                        continue
                new_args.append(a)
            c.args = new_args
        return changed

    @staticmethod
    def unroll_unpacked_comprehensions(fn: ast.FunctionDef) -> bool:
        """`a, b = (f(x) for x in (p, q))` -> `a, b = (f(p), f(q))` (also list comprehensions): element-wise substitution."""
        changed = False
        for n in ast.walk(fn):
            if not (isinstance(n, ast.Assign) and len(n.targets) == 1 and isinstance(n.targets[0], (ast.Tuple, ast.List))):
                continue
            v = n.value
            if not (isinstance(v, (ast.GeneratorExp, ast.ListComp)) and len(v.generators) == 1):
                continue
            g = v.generators[0]
            if g.ifs or g.is_async or not isinstance(g.iter, (ast.Tuple, ast.List)) or len(g.iter.elts) != len(n.targets[0].elts) or any(isinstance(x, ast.Starred) for x in g.iter.elts):
                continue
            elts = []
            for it in g.iter.elts:
                if isinstance(g.target, ast.Name):
                    sub = {g.target.id: it}
                elif isinstance(g.target, (ast.Tuple, ast.List)) and isinstance(it, (ast.Tuple, ast.List)) and len(it.elts) == len(g.target.elts) and all(isinstance(t, ast.Name) for t in g.target.elts):
                    sub = {t.id: e for t, e in zip(g.target.elts, it.elts)}
                else:
                    elts = None
                    break
                elts.append(_Rename(sub).visit(clone(v.elt)))
            if elts is None:
                continue
            n.value = ast.copy_location(ast.Tuple(elts=elts, ctx=ast.Load()), v)
            changed = True
        return changed

    def unroll_literal_comprehensions(self, fn: ast.FunctionDef, mi=None) -> bool:
        """`[E(x) for x in (a, b)]` -> `[E(a), E(b)]`, `sum(E(x) for x in (a, b))` -> `sum((E(a), E(b)))`: a comprehension over a literal
        tuple / list (or a local bound once to one), without filter, is the display of its instances."""
        stores, lits = {}, {}
        for n in ast.walk(fn):
            if isinstance(n, ast.Name) and isinstance(n.ctx, (ast.Store, ast.Del)):
                stores[n.id] = stores.get(n.id, 0) + 1
            if isinstance(n, ast.Assign) and len(n.targets) == 1 and isinstance(n.targets[0], ast.Name):
                v_ = n.value
                if isinstance(v_, ast.Call) and isinstance(v_.func, ast.Name) and v_.func.id in ("tuple", "list") and len(v_.args) == 1 and not v_.keywords and isinstance(v_.args[0], (ast.Tuple, ast.List)):
                    v_ = v_.args[0]
                if isinstance(v_, (ast.Tuple, ast.List)) and not any(isinstance(x, ast.Starred) for x in v_.elts):
                    lits[n.targets[0].id] = v_
        changed = False
        params_ = {a.arg for a in fn.args.posonlyargs + fn.args.args + fn.args.kwonlyargs}

        def pure(e_):
            """Evaluating the element expression twice is harmless: names, constants, arithmetic, calls into jax / optax or on parameters."""
            for c_ in ast.walk(e_):
                if isinstance(c_, ast.Call):
                    f_ = c_.func
                    root = f_
                    while isinstance(root, (ast.Attribute, ast.Subscript, ast.Call)):
                        root = root.func if isinstance(root, ast.Call) else root.value
                    r_ = self.repo.resolve_expr(mi, f_) if (mi is not None and isinstance(f_, (ast.Name, ast.Attribute))) else None
                    if r_ and r_.startswith(("jax.numpy.", "jax.nn.", "jax.lax.", "optax.", "jax.random.")):
                        continue
                    if isinstance(root, ast.Name) and root.id in params_ and not (isinstance(f_, ast.Attribute) and f_.attr in ("sample_batch", "integers", "uniform", "choice", "normal", "random", "permutation", "add_sample", "append", "pop", "update")):
                        continue
                    return False
                if isinstance(c_, ast.Name) and isinstance(c_.ctx, ast.Load) and stores.get(c_.id, 0) > 1:
                    return False
            return True

        class T(ast.NodeTransformer):
            def _unroll(self_inner, c):
                nonlocal changed
                if len(c.generators) != 1:
                    return None
                g = c.generators[0]
                it = g.iter
                if isinstance(it, ast.Name) and it.id in lits and stores.get(it.id) == 1 and getattr(lits[it.id], "lineno", 0) <= getattr(c, "lineno", 0):
                    elts_src = lits[it.id].elts
                    if not all(pure(e_) for e_ in elts_src):
                        return None
                    it = lits[it.id]
                if g.ifs or g.is_async or not isinstance(it, (ast.Tuple, ast.List)) or not it.elts or len(it.elts) > 6 or any(isinstance(x, ast.Starred) for x in it.elts):
                    return None
                out = []
                for item in it.elts:
                    if isinstance(g.target, ast.Name):
                        sub = {g.target.id: item}
                    elif isinstance(g.target, (ast.Tuple, ast.List)) and isinstance(item, (ast.Tuple, ast.List)) and len(item.elts) == len(g.target.elts) and all(isinstance(t, ast.Name) for t in g.target.elts):
                        sub = {t.id: e_ for t, e_ in zip(g.target.elts, item.elts)}
                    else:
                        return None
                    out.append(_Rename(sub).visit(clone(c.elt)))
                changed = True
                return out

            def visit_ListComp(self_inner, c):
                self_inner.generic_visit(c)
                o = self_inner._unroll(c)
                return c if o is None else ast.copy_location(ast.List(elts=o, ctx=ast.Load()), c)

            def visit_GeneratorExp(self_inner, c):
                self_inner.generic_visit(c)
                o = self_inner._unroll(c)
                return c if o is None else ast.copy_location(ast.Tuple(elts=o, ctx=ast.Load()), c)
        T().visit(fn)
        return changed

    @staticmethod
    def inline_local_lambdas(fn: ast.FunctionDef) -> bool:
        """`f = lambda x: E; ... f(a)` -> `(lambda x: E)(a)` when f is assigned exactly once in the function (then expanded like a helper)."""
        lam, stores = {}, {}
        for n in ast.walk(fn):
            if isinstance(n, ast.Name) and isinstance(n.ctx, ast.Store):
                stores[n.id] = stores.get(n.id, 0) + 1
            if isinstance(n, ast.Assign) and len(n.targets) == 1 and isinstance(n.targets[0], ast.Name) and isinstance(n.value, ast.Lambda):
                lam[n.targets[0].id] = n.value
        changed = False
        for c in ast.walk(fn):
            if isinstance(c, ast.Call) and isinstance(c.func, ast.Name) and c.func.id in lam and stores.get(c.func.id) == 1:
                c.func = clone(lam[c.func.id])
                changed = True
        return changed

    def _local_closures(self, fn, qual):
        """Nested defs of fn that are new (not in the frozen surface), defined once and never rebound: direct calls to them are
        analysed as if their body stood at the call (free variables are those of the enclosing function at the time of the call)."""
        out = {}
        stores = {}
        for n in ast.walk(fn):
            if isinstance(n, ast.Name) and isinstance(n.ctx, (ast.Store, ast.Del)):
                stores[n.id] = stores.get(n.id, 0) + 1
        params = {a.arg for a in fn.args.posonlyargs + fn.args.args + fn.args.kwonlyargs}

        def scan(stmts):
            for st in stmts:
                if isinstance(st, ast.FunctionDef):
                    q = f"{qual}.<locals>.{st.name}"
                    if q not in self.known and not st.decorator_list and st.name not in stores and st.name not in params:
                        out[st.name] = (st, q) if st.name not in out else None
                    continue
                if isinstance(st, ast.ClassDef):
                    continue
                for f in ("body", "orelse", "finalbody"):
                    v = getattr(st, f, None)
                    if isinstance(v, list) and v and isinstance(v[0], ast.stmt):
                        scan(v)
                for h in getattr(st, "handlers", []) or []:
                    scan(h.body)
        scan(fn.body)
        return {k: v for k, v in out.items() if v is not None}

    def _drop_inlined_closures(self, fn):
        """A closure whose every use was a direct call that has been expanded is no longer referenced: its definition is removed so that
        scanning rules see its statements once (at the call), not twice."""
        used = {n.id for n in ast.walk(fn) if isinstance(n, ast.Name) and isinstance(n.ctx, ast.Load)}

        def prune(stmts):
            keep = []
            for st in stmts:
                if isinstance(st, ast.FunctionDef) and st.name in self._closures and self._closures[st.name][0] is st and st.name not in used \
                        and any(c[1] == self._closures[st.name][1] for c in self.inlined):
                    continue
                for f in ("body", "orelse", "finalbody"):
                    v = getattr(st, f, None)
                    if isinstance(v, list) and v and isinstance(v[0], ast.stmt) and not isinstance(st, (ast.FunctionDef, ast.ClassDef)):
                        setattr(st, f, prune(v) or [ast.copy_location(ast.Pass(), st)])
                keep.append(st)
            return keep
        fn.body = prune(fn.body) or [ast.copy_location(ast.Pass(), fn)]

    def inline_dynamic_dispatch(self, fn: ast.FunctionDef, mi) -> bool:
        """Reflection with a constant name is ordinary attribute access: `getattr(o, "m")` -> `o.m`,
        `operator.methodcaller("m", *a, **k)(o)` -> `o.m(*a, **k)` (also through a local bound once to the methodcaller)."""
        changed = False

        def is_methodcaller(c):
            return isinstance(c, ast.Call) and isinstance(c.func, (ast.Name, ast.Attribute)) and self.repo.resolve_expr(mi, c.func) == "operator.methodcaller" \
                and c.args and isinstance(c.args[0], ast.Constant) and isinstance(c.args[0].value, str) and c.args[0].value.isidentifier()
        stores, mc = {}, {}
        for n in ast.walk(fn):
            if isinstance(n, ast.Name) and isinstance(n.ctx, ast.Store):
                stores[n.id] = stores.get(n.id, 0) + 1
            if isinstance(n, ast.Assign) and len(n.targets) == 1 and isinstance(n.targets[0], ast.Name) and is_methodcaller(n.value):
                mc[n.targets[0].id] = n.value

        class T(ast.NodeTransformer):
            def visit_Call(self_inner, c):
                nonlocal changed
                self_inner.generic_visit(c)
                f = c.func
                src = None
                if isinstance(f, ast.Name) and f.id in mc and stores.get(f.id) == 1:
                    src = mc[f.id]
                elif is_methodcaller(f):
                    src = f
                if src is not None and len(c.args) == 1 and not c.keywords and not isinstance(c.args[0], ast.Starred):
                    changed = True
                    return ast.copy_location(ast.Call(func=ast.Attribute(value=c.args[0], attr=src.args[0].value, ctx=ast.Load()), args=[clone(a) for a in src.args[1:]],
                                                      keywords=[clone(k) for k in src.keywords]), c)
                if isinstance(f, ast.Name) and f.id == "getattr" and len(c.args) == 2 and not c.keywords and isinstance(c.args[1], ast.Constant) and isinstance(c.args[1].value, str) \
                        and c.args[1].value.isidentifier() and "getattr" not in stores:
                    changed = True
                    return ast.copy_location(ast.Attribute(value=c.args[0], attr=c.args[1].value, ctx=ast.Load()), c)
                return c
        T().visit(fn)
        return changed

    def expand_function(self, fn: ast.FunctionDef, mi, cls_qual, qual, stack=()):
        self._closures, self._closures_on = self._local_closures(fn, qual), True
        try:
            changed = self._expand_function(fn, mi, cls_qual, qual, stack)
            if changed and self._closures:
                self._drop_inlined_closures(fn)
        finally:
            self._closures, self._closures_on = {}, False
        if changed:
            ast.fix_missing_locations(fn)
            for parent in ast.walk(fn):
                for child in ast.iter_child_nodes(parent):
                    child._parent = parent
        return changed

    def _expand_function(self, fn: ast.FunctionDef, mi, cls_qual, qual, stack=()):
        changed = self.normalize_star_args(fn)
        changed |= self.unroll_unpacked_comprehensions(fn)
        fn.body, ch = self._block(fn.body, mi, cls_qual, qual, stack + (qual,), 0)
        changed |= ch
        for _ in range(2):
            if not self.inline_local_lambdas(fn):
                break
            changed = True
            fn.body, ch = self._block(fn.body, mi, cls_qual, qual, stack + (qual,), 0)
        if self.inline_dynamic_dispatch(fn, mi):
            changed = True
            fn.body, ch = self._block(fn.body, mi, cls_qual, qual, stack + (qual,), 0)
        for _ in range(3):
            if not self.unroll_literal_comprehensions(fn, mi):
                break
            changed = True
        if changed:
            ast.fix_missing_locations(fn)
            for parent in ast.walk(fn):
                for child in ast.iter_child_nodes(parent):
                    child._parent = parent
        return changed

    def _block(self, stmts, mi, cls_qual, qual, stack, depth):
        out, changed = [], False
        for s in stmts:
            if isinstance(s, (ast.FunctionDef, ast.AsyncFunctionDef, ast.ClassDef)):
                if isinstance(s, ast.FunctionDef):
                    s.body, ch = self._block(s.body, mi, cls_qual, qual + ".<locals>." + s.name, stack, depth)
                    changed |= ch
                out.append(s)
                continue
            pre, s2, ch = self._stmt(s, mi, cls_qual, qual, stack, depth)
            changed |= ch
            out += pre
            if ch and isinstance(s2, ast.Expr) and isinstance(s2.value, ast.Name) and s2.value.id.startswith("ret__i"):
                continue   # the call was a statement of its own: nothing is left of it
            out.append(s2)
        return out, changed

    def _hoistable_exprs(self, s):
        """Expression slots of a statement that are evaluated exactly once, before anything else of the statement."""
        if isinstance(s, ast.Assign):
            return [("value", s)]
        if isinstance(s, (ast.AugAssign, ast.AnnAssign)) and s.value is not None:
            return [("value", s)]
        if isinstance(s, ast.Expr):
            return [("value", s)]
        if isinstance(s, ast.Return) and s.value is not None:
            return [("value", s)]
        if isinstance(s, ast.If):
            return [("test", s)]
        if isinstance(s, ast.For):
            return [("iter", s)]
        return []

    def _stmt(self, s, mi, cls_qual, qual, stack, depth):
        changed = False
        pre = []
        # recurse into compound statements
        for field in ("body", "orelse", "finalbody"):
            if isinstance(getattr(s, field, None), list) and getattr(s, field) and isinstance(getattr(s, field)[0], ast.stmt):
                new, ch = self._block(getattr(s, field), mi, cls_qual, qual, stack, depth)
                setattr(s, field, new)
                changed |= ch
        for h in getattr(s, "handlers", []) or []:
            h.body, ch = self._block(h.body, mi, cls_qual, qual, stack, depth)
            changed |= ch
        # expression-mode inlining anywhere in the statement's own expressions
        for _ in range(20):
            hit = self._find_call(s, mi, cls_qual, qual, stack, own_only=True)
            if hit is None:
                break
            call, (cq, cfn, cmi, self_expr) = hit
            done = False
            body_ = [x for x in cfn.body if not (isinstance(x, ast.Expr) and isinstance(x.value, ast.Constant))]
            branching = any(isinstance(x, ast.If) for x in body_)
            slots_ = self._hoistable_exprs(s)
            hoistable = any(any(x is call for x in ast.walk(getattr(st, f))) for f, st in slots_) and not self._inside_comprehension(s, call) and len(stack) <= self.max_depth
            if branching and hoistable and not cq.startswith("<lambda>"):
                # keep the callee's if/else structure as statements (path analyses see the branches) rather than a conditional expression
                try:
                    whole = isinstance(s, ast.Assign) and s.value is call
                    stm, res = self._inline_statements(call, cq, cfn, cmi, self_expr, mi, cls_qual, qual, stack, assign_to=s.targets if whole else None)
                    pre += stm
                    if whole:
                        s = ast.copy_location(ast.Expr(value=ast.Name(id=res, ctx=ast.Load())), s)
                    else:
                        self._replace(s, call, ast.copy_location(ast.Name(id=res, ctx=ast.Load()), call))
                    self.inlined.append((qual, cq, "stmt"))
                    changed = done = True
                    continue
                except NotInlinable:
                    pass
            try:
                binding = self.bind(cfn, call, self_expr, self_expr is not None or self._is_static(cfn))
                env = {p: v for p, v in binding.items()}
                body = [x for x in cfn.body if not (isinstance(x, ast.Expr) and isinstance(x.value, ast.Constant))]
                # an argument that contains a call (a draw, an allocation ...) must be evaluated once: if its parameter is read more than
                # once, or inside a comprehension / lambda of the callee, the call is expanded as statements (argument bound first)
                for p_, v_ in binding.items():
                    if isinstance(v_, ast.AST) and any(isinstance(x, ast.Call) for x in ast.walk(v_)):
                        uses = [x for st_ in body for x in ast.walk(st_) if isinstance(x, ast.Name) and x.id == p_ and isinstance(x.ctx, ast.Load)]
                        nested = any(isinstance(c_, (ast.ListComp, ast.SetComp, ast.DictComp, ast.GeneratorExp, ast.Lambda)) and any(u is y for u in uses for y in ast.walk(c_)) for st_ in body for c_ in ast.walk(st_))
                        if len(uses) > 1 or nested:
                            raise NotInlinable("argument with a call is used repeatedly")
                expr = _as_expression(body, env)
                if expr is not None and not _contains(expr, (ast.Yield, ast.YieldFrom, ast.Await)):
                    if self_expr is not None and not self._is_static(cfn):
                        expr = _Rename({}, self_expr).visit(expr)
                    expr = _SpliceStar().visit(expr)
                    if cmi is not mi:
                        self._import_names([ast.Expr(value=expr)], cmi, mi)
                    expr = self._relocate(expr, call)
                    self._replace(s, call, expr)
                    self.inlined.append((qual, cq, "expr"))
                    changed = done = True
            except NotInlinable:
                pass
            if not done:
                # statement mode, only for hoistable positions
                slots = self._hoistable_exprs(s)
                in_slot = any(any(x is call for x in ast.walk(getattr(st, f))) for f, st in slots)
                in_comp = self._inside_comprehension(s, call)
                if in_slot and not in_comp and len(stack) <= self.max_depth:
                    try:
                        whole = isinstance(s, ast.Assign) and s.value is call
                        stm, res = self._inline_statements(call, cq, cfn, cmi, self_expr, mi, cls_qual, qual, stack, assign_to=s.targets if whole else None)
                        pre += stm
                        if whole:
                            s = ast.copy_location(ast.Expr(value=ast.Name(id=res, ctx=ast.Load())), s)   # dropped by the caller
                        else:
                            self._replace(s, call, ast.copy_location(ast.Name(id=res, ctx=ast.Load()), call))
                        self.inlined.append((qual, cq, "stmt"))
                        changed = done = True
                    except NotInlinable:
                        pass
            if not done:
                call._no_inline = True
                self.failed.append((qual, cq))
        return pre, s, changed

    def _inside_comprehension(self, s, call):
        for n in ast.walk(s):
            if isinstance(n, (ast.ListComp, ast.SetComp, ast.DictComp, ast.GeneratorExp, ast.Lambda)):
                if any(x is call for x in ast.walk(n)):
                    return True
        return False

    def _own_exprs(self, s):
        """Child expressions of a statement that belong to the statement itself (not to nested statement lists)."""
        out = []
        for f, v in ast.iter_fields(s):
            if f in ("body", "orelse", "finalbody", "handlers"):
                continue
            if isinstance(v, ast.AST):
                out.append(v)
            elif isinstance(v, list):
                out += [x for x in v if isinstance(x, ast.AST) and not isinstance(x, ast.stmt)]
        return out

    def _find_call(self, s, mi, cls_qual, qual, stack, own_only=True):
        """An unknown-helper call inside the statement's own expressions that contains no other such call (innermost first)."""
        cands = []
        for root in self._own_exprs(s):
            for n in ast.walk(root):
                if isinstance(n, ast.Call) and not getattr(n, "_no_inline", False):
                    r = self.resolve(n, mi, cls_qual, qual)
                    if r is not None and r[0] not in stack:
                        cands.append((n, r))
        for n, r in cands:
            if not any(m is not n and any(x is m for x in ast.walk(n)) for m, _ in cands):
                return n, r
        return None

    def _relocate(self, node, at):
        for x in ast.walk(node):
            if hasattr(x, "lineno") or isinstance(x, (ast.expr, ast.stmt)):
                ast.copy_location(x, at)
        return node

    def _replace(self, s, old, new):
        class R(ast.NodeTransformer):
            def visit_Call(self_inner, n):
                if n is old:
                    return new
                return self_inner.generic_visit(n)
        for f, v in ast.iter_fields(s):
            if f in ("body", "orelse", "finalbody", "handlers"):
                continue
            if isinstance(v, ast.AST):
                setattr(s, f, R().visit(v))
            elif isinstance(v, list):
                setattr(s, f, [R().visit(x) if isinstance(x, ast.AST) and not isinstance(x, ast.stmt) else x for x in v])

    def _inline_statements(self, call, cq, cfn, cmi, self_expr, mi, cls_qual, qual, stack, assign_to=None):
        is_closure = "<locals>" in cq
        if _contains(cfn, (ast.Yield, ast.YieldFrom, ast.Await, ast.Global)) or (not is_closure and _contains(cfn, ast.Nonlocal)) \
                or any(isinstance(x, (ast.FunctionDef, ast.ClassDef, ast.Lambda)) for x in ast.walk(cfn) if x is not cfn):
            raise NotInlinable("generator / nested definition")
        binding = self.bind(cfn, call, self_expr, self_expr is not None or self._is_static(cfn))
        shared = {nm for x in ast.walk(cfn) if isinstance(x, ast.Nonlocal) for nm in x.names}
        self.counter += 1
        sfx = f"__i{self.counter}"
        body = clone([x for x in cfn.body if not (isinstance(x, ast.Expr) and isinstance(x.value, ast.Constant)) and not isinstance(x, ast.Nonlocal)])
        if _contains(ast.Module(body=body, type_ignores=[]), ast.Nonlocal):
            raise NotInlinable("nonlocal below the top level")
        # callee-local names (stored anywhere in the body) and parameters get fresh names
        locals_ = set(binding)
        for x in body:
            for n in ast.walk(x):
                if isinstance(n, ast.Name) and isinstance(n.ctx, (ast.Store, ast.Del)):
                    locals_.add(n.id)
        names = {n: f"{n}{sfx}" for n in locals_ if n not in ("self", "cls") and n not in shared}
        res = f"ret{sfx}"
        # parameters the callee never assigns and whose argument is a plain name / attribute chain / constant are substituted directly
        stored_in_callee = {n.id for x in body for n in ast.walk(x) if isinstance(n, ast.Name) and isinstance(n.ctx, (ast.Store, ast.Del))}
        direct = {}
        # an attribute chain is the *location* at call time: it may only stand for the parameter if the callee cannot change that location
        # (no store to an attribute of that name, no call that is handed / invoked on the object the chain starts from)
        stored_attrs = {n.attr for x in body for n in ast.walk(x) if isinstance(n, ast.Attribute) and isinstance(n.ctx, (ast.Store, ast.Del))}
        stored_attrs |= {n.target.attr for x in body for n in ast.walk(x) if isinstance(n, ast.AugAssign) and isinstance(n.target, ast.Attribute)}
        arg_of_param = {}
        for p_, v_ in binding.items():
            if isinstance(v_, ast.AST) and _dotted(v_):
                arg_of_param[p_] = _dotted(v_)
        if self_expr is not None and _dotted(self_expr):
            arg_of_param["self"] = _dotted(self_expr)

        def _stable(x_):
            if not isinstance(x_, ast.Attribute):
                return True
            d_ = _dotted(x_)
            parts = d_.split(".")
            if set(parts[1:]) & stored_attrs:
                return False
            # parameters through which the callee holds an object the chain passes through (a proper prefix of the chain): a call that
            # is invoked on / handed such an object may rebind the attribute; calls on the chain's own value only change that value
            holders = {p_ for p_, a_ in arg_of_param.items() if d_.startswith(a_ + ".")}
            if not holders:
                return True
            for st_ in body:
                for c_ in ast.walk(st_):
                    if isinstance(c_, ast.Call):
                        involved = [c_.func.value] if isinstance(c_.func, ast.Attribute) else []
                        involved += [a_.value if isinstance(a_, ast.Starred) else a_ for a_ in c_.args] + [k_.value for k_ in c_.keywords]
                        for e_ in involved:
                            de_ = _dotted(e_)
                            if de_ and de_.split(".")[0] in holders:
                                # the held object itself, or an object on the way to the attribute
                                full = arg_of_param[de_.split(".")[0]] + de_[len(de_.split(".")[0]):]
                                if d_.startswith(full + "."):
                                    return False
            return True
        for p, v in binding.items():
            simple = lambda x_: isinstance(x_, ast.Constant) or (_dotted(x_) is not None and len(ast.dump(x_)) < 400 and _stable(x_))
            if p not in stored_in_callee and (simple(v) or (isinstance(v, ast.Tuple) and all(simple(x_) for x_ in v.elts))):
                direct[p] = v
        names_r = dict(names)
        for p, v in direct.items():
            names_r[p] = v          # _Rename deep-copies expression replacements for loads
        ren = _Rename(names_r, self_expr if (self_expr is not None and not self._is_static(cfn)) else None)
        body = [_SpliceStar().visit(ren.visit(x)) for x in body]
        body = _to_assignments(body, res, call)
        if assign_to is not None:
            # `targets = CALL`: every `ret = E` becomes `targets = E`
            class _T(ast.NodeTransformer):
                def visit_Assign(self_inner, n):
                    if len(n.targets) == 1 and isinstance(n.targets[0], ast.Name) and n.targets[0].id == res:
                        return ast.copy_location(ast.Assign(targets=[clone(t) for t in assign_to], value=n.value, lineno=n.lineno), n)
                    return self_inner.generic_visit(n)
            body = [_T().visit(x) for x in body]
        stm = []
        for p, v in binding.items():
            if p in direct:
                continue
            stm.append(ast.copy_location(ast.Assign(targets=[ast.Name(id=names[p], ctx=ast.Store())], value=clone(v), lineno=call.lineno), call))
        stm += body
        for x in stm:
            self._relocate(x, call)
        # the callee lives in (possibly) another module / class: names it uses resolve there; nested unknown helpers of the callee
        # are expanded in its own context first
        owner_cls = cq.rsplit(".", 1)[0] if self_expr is not None else None
        if owner_cls is not None and not self.repo.has(owner_cls):
            owner_cls = None
        was_on = self._closures_on
        self._closures_on = was_on and is_closure
        try:
            stm, _ = self._block(stm, cmi, owner_cls if owner_cls else cls_qual, qual, stack + (cq,), 0)
        finally:
            self._closures_on = was_on
        if cmi is not mi:
            self._import_names(stm, cmi, mi)
        return stm, res

    def _import_names(self, stm, cmi, mi):
        """Module-level names used by inlined code from another module must resolve in the caller's module: register them."""
        for x in stm:
            for n in ast.walk(x):
                if isinstance(n, ast.Name) and isinstance(n.ctx, ast.Load) and n.id not in mi.imports and n.id not in mi.defs:
                    if n.id in cmi.imports:
                        mi.imports[n.id] = cmi.imports[n.id]
                    elif n.id in cmi.defs:
                        mi.imports[n.id] = f"{cmi.name}.{n.id}"


def expand_repo(repo, known: set | None = None):
    """Expand unknown helpers in every function of the repository view (in place).  Returns the list of inlinings."""
    known = load_known() if known is None else known
    ex = Expander(repo, known)
    todo = []
    for mi in repo.modules.values():
        for name, node in mi.defs.items():
            if isinstance(node, ast.FunctionDef):
                todo.append((node, mi, None, repo.canonical(f"{mi.name}.{name}", node)))
            elif isinstance(node, ast.ClassDef):
                for ch in node.body:
                    if isinstance(ch, ast.FunctionDef):
                        cqn = repo.canonical(f"{mi.name}.{name}", node)
                        todo.append((ch, mi, cqn, f"{cqn}.{ch.name}"))
    for fn, mi, cq, q in todo:
        try:
            ex.expand_function(fn, mi, cq, q)
        except RecursionError:
            continue
    repo.expand_failed = list(ex.failed)
    return ex.inlined


def write_known(repo, path: str = KNOWN_FILE):
    names = sorted(q for q, fn, mi in repo.all_functions())
    with open(path, "w", encoding="utf-8") as fh:
        json.dump({"comment": "qualified names of all functions / methods of rl_blox when the checker was built: calls to repo functions outside this list are analysed as if inlined",
                   "names": names}, fh, indent=0)
    return len(names)
