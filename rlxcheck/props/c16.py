"""C16 - black-box optimisers keep their distribution and bookkeeping invariants (structural part)."""
from __future__ import annotations

import ast

from ..loops import dotted, find_env_loop
from ..nf import NF, Scope, Poly, parse_expr
from ..repo import Repo, loc, short, AnalysisError, positional_params, param_names, bind_call
from ..sem import OrderModel, Unknown, eval_order_formula, summarise_paths, active_summaries, same_ingredients, result_position, split_conditional_assignments
from ..sympath import enumerate_paths, PathEval

EXPLANATION = (
    "Formula identities and bookkeeping structure of CMA-ES and CEM. Weights: w / sum(w) with w = log(mu + 1/2) - log1p(arange(floor(mu))) "
    "(normalisation decided; positivity / monotonicity are properties of log and are not decided). Incumbent: set_evaluation_feedback only "
    "compares its quantities, so it is compared with the documented table in a finite order model (worlds over {sum(feedback), best} and the "
    "maximise flag): in every world the enabled path stores the sign-adjusted fitness at index it % population, advances it by one and "
    "replaces the incumbent as a whole (fitness, iteration, parameters of that same index) when the candidate is better, keeps it as a whole "
    "when it is worse. train_cmaes evaluates the candidate it wrote into the policy and reports the un-negated best fitness. Mean "
    "recombination, last_mean and the step-size cap are normal-form identities of update_search_distribution evaluated per path. flat_params / "
    "set_params are read as dataflow terms: both walk the leaves of nnx.state(net, nnx.Param) in pytree order, one concatenating the raveled "
    "leaves, the other cutting consecutive slices of prod(leaf.shape) (loop-carried offset evaluated symbolically). CEM: elites = top-k by "
    "fitness, convex update (shared with C10); optimize_cem binds bounds and evaluated samples by signature and reaching definitions."
)
TRUSTED = ["jax.tree_util.tree_leaves / tree_flatten / tree_unflatten use one deterministic leaf order", "jnp.argsort ascending; jax.lax.top_k returns the k largest",
           "entries of the population are distinct objects (samples[i] and samples[j] differ for i != j)"]
RULES = {
    "R1-weights": "weights == w / sum(w), w == log(mu + 0.5) - log1p(arange(int(mu))), mu == n_samples_per_update / 2; config stores int(mu)",
    "R2-incumbent": "order-world table of set_evaluation_feedback: fitness[k] := +-sum(feedback), it += 1, incumbent (fitness, iteration, samples[k]) replaced as a whole iff the candidate is better (ties free), k = it % population; "
                    "best_* written nowhere else; train_cmaes sets the candidate it evaluates and un-negates the reported value",
    "R3-mean": "mean' == sum(weights[:,None] * samples[argsort(fitness)[:mu]], axis=0); last_mean' == old mean",
    "R4-step-size": "var' == var * exp(min(0.6, log_step_size_update))^2",
    "R7-covariance-form": "cov' == scalar * cov + c * outer(p, p) + c' * X^T diag(w) X [- c'' * Y^T diag(w) Y]: every added term is symmetric by construction, and the negative (active) quadratic form is the positive one with the worst mu candidates in place of the best (same centre, same step-size scaling, same weights)",
    "R5-flat-set": "flat_params and set_params use nnx.state(net, nnx.Param) leaves in tree_leaves order; consecutive slices of prod(leaf.shape) reshaped to leaf.shape; nnx.update(net, state)",
    "R6-cem": "elites == take(samples, top_k(fitness, n_elite).indices, axis=0); optimize_cem passes bounds (lb, ub) in order and updates from the fitness of the very samples it ranks",
}

CM = "rl_blox.algorithm.cmaes."
BEST_FIELDS = ("best_fitness", "best_fitness_it", "best_params")


def _env(fn):
    return {p: Poly.atom(p, {p}, {p}) for p in param_names(fn)}


# ---- R1 ------------------------------------------------------------------------------------------------------------------------------------
def r1_weights(ck, repo, nf):
    m = repo.method(CM + "CMAESConfig", "create", inherited=False)
    ck.need(m is not None, "CMAESConfig.create not found")
    fn = m[1]
    mi = repo.cls(CM + "CMAESConfig")._module
    fn._module = mi
    cfg = nf.cfg_of(fn)
    env = {p: Poly.atom(p, {p}, {p}) for p in positional_params(fn)}
    ret = [n for n in cfg.nodes if n.kind == "stmt" and isinstance(n.ast, ast.Return)]
    ck.need(len(ret) == 1 and isinstance(ret[0].ast.value, ast.Call), "CMAESConfig.create: return cls(...) not found")
    kw = {k.arg: k.value for k in ret[0].ast.value.keywords}
    ck.need("weights" in kw and "mu" in kw, "CMAESConfig.create: weights / mu are not passed by keyword (unrecognised form)")
    # n_samples_per_update may be defaulted: evaluate on the path where it is given
    paths = enumerate_paths(cfg, cfg.entry, {ret[0].id})
    wseen = set()
    for p in paths:
        pe = PathEval(nf, cfg, mi, CM + "CMAESConfig.create", env).run(p[:-1])
        wseen.add((pe.ev(kw["weights"]), pe.ev(kw["mu"])))
    sc0 = Scope(None, mi, env, "spec")
    where = loc(mi, fn)
    site = CM + "CMAESConfig.create"
    for w, mu in wseen:
        nums, mus = [], []
        for nspu in ("n_samples_per_update", "(4 + int(3 * math.log(n_params)))"):
            nums.append(nf.poly(parse_expr(f"(math.log({nspu} / 2.0 + 0.5) - jnp.log1p(jnp.arange(int({nspu} / 2.0))))"), sc0, None))
            mus.append(nf.poly(parse_expr(f"int({nspu} / 2.0)"), sc0, None))
        # w == N / g: the atom that divides every monomial
        common = None
        for mono in w.terms:
            neg = {a for a, k in mono if k == -1}
            common = neg if common is None else common & neg
        common = sorted(common or [])
        if len(common) == 1:
            g = common[0]
            N = w * Poly.atom(g)
            wg = nf.poly(parse_expr("jnp.sum(NUM)"), Scope(None, mi, {"NUM": N}, "spec"), None)
            want_g = wg.single_atom() or f"({wg.canon()})"
            if g == want_g:
                ck.ob("R1-weights", site, "sum-to-one", True, "weights = N / sum(N)", "", where)
            elif (nf.meta.get(g, {}).get("args") and nf.meta[g]["args"][0] == N) or same_ingredients(Poly.atom(g), wg, ("max", "min", "mean", "prod", "len")):
                ck.ob("R1-weights", site, "sum-to-one", False, f"weights = N / {g[:60]}", "the weights must be normalised by their own sum (they do not sum to one)", where)
            else:
                raise AnalysisError(f"{site}: weights `{w.canon()[:100]}` are divided by `{g[:60]}` (unrecognised form)")
        elif len(common) == 0 and any(same_ingredients(w, n_) for n_ in nums):
            N = w
            ck.ob("R1-weights", site, "sum-to-one", False, f"weights = {w.canon()[:100]}", "the weights are not normalised by their sum", where)
        else:
            raise AnalysisError(f"{site}: weights `{w.canon()[:100]}` (unrecognised form)")
        okn = any(N == n_ and mu == m_ for n_, m_ in zip(nums, mus))
        if not okn and not (any(same_ingredients(N, n_) for n_ in nums) and any(same_ingredients(mu, m_) for m_ in mus)):
            raise AnalysisError(f"{site}: unnormalised weights `{N.canon()[:100]}`, mu `{mu.canon()[:40]}` (unrecognised form)")
        ck.ob("R1-weights", site, "log-rank-form", okn, f"N = {N.canon()[:120]}; mu = {mu.canon()}", "" if okn else "the unnormalised weights must be log(mu + 1/2) - log1p(arange(int(mu))) with mu = population / 2 (positive, decreasing), mu stored as int", where)


# ---- R2 ------------------------------------------------------------------------------------------------------------------------------------
def r2_feedback_table(ck, repo, nf):
    q = CM + "set_evaluation_feedback"
    fn = split_conditional_assignments(repo.func(q))
    mi = fn._module
    cfg = nf.cfg_of(fn)
    ck._keep = getattr(ck, "_keep", []) + [fn]      # the CFG cache is keyed by id(fn)
    params = param_names(fn)
    ck.need(len(params) >= 4, f"{q}: signature changed (anchor vanished)")
    CONF, ST, POP, FB = params[:4]
    env = _env(fn)
    old = {f"{ST}.{b}": Poly.atom(f"old.{ST}.{b}") for b in BEST_FIELDS + ("it",)}
    spec = PathEval(nf, cfg, mi, q, env)
    spec.store = dict(old)
    F = spec.ev(parse_expr(f"float(jnp.sum({FB}))"))
    MX = spec.ev(parse_expr(f"{CONF}.maximize"))
    K = spec.ev(parse_expr(f"{ST}.it % {CONF}.n_samples_per_update"))
    CAND = spec.ev(parse_expr(f"{POP}.samples[{ST}.it % {CONF}.n_samples_per_update]"))
    BEST, IT = old[f"{ST}.best_fitness"], old[f"{ST}.it"]
    model = OrderModel()
    model.cluster([F, BEST])
    model.cluster([-F, BEST])
    model.cluster([MX, Poly.const(0)])
    for sign_, ci in ((F, 0), (-F, 1)):
        mn = spec.nf.poly(parse_expr("min(A, B)"), Scope(None, mi, {"A": sign_, "B": BEST}, q), None)
        if mn.single_atom():
            model.derive(mn.single_atom(), "min", ci, 0, 1)
    sums = summarise_paths(nf, cfg, mi, q, env, old)
    ck.floor("feedback-paths", len(sums), 2)
    where = loc(mi, fn)
    viol, checked, kinds = {}, set(), set()
    n_worlds = 0
    for w in model.worlds():
        n_worlds += 1
        try:
            act = active_summaries(model, w, sums)
            mx = model.sign(w, MX) != 0
        except Unknown as u:
            raise AnalysisError(f"{q}: a branch compares `{str(u)[:100]}`, which is outside the order model of the documented table (unrecognised form)")
        if len(act) != 1:
            raise AnalysisError(f"{q}: {len(act)} paths enabled in the world [{model.describe(w)}] (unrecognised form)")
        sm = act[0]
        fk = -F if mx else F
        rel = model.sign(w, fk - BEST)
        kinds.add(("max" if mx else "min", rel))
        st = sm.pe.store
        got = {b: st.get(f"{ST}.{b}") for b in BEST_FIELDS}
        improved = {"best_fitness": fk, "best_fitness_it": IT, "best_params": CAND}
        kept = {b: old[f"{ST}.{b}"] for b in BEST_FIELDS}

        def agrees(tbl):
            return all(got[b] is not None and model.resolve(w, got[b]) == model.resolve(w, tbl[b]) for b in BEST_FIELDS)
        ok = (agrees(improved) if rel < 0 else agrees(kept) if rel > 0 else (agrees(improved) or agrees(kept)))
        checked.add("incumbent")
        if not ok:
            for b in BEST_FIELDS:
                if got[b] is None or not (same_ingredients(got[b], improved[b], ("old",)) or same_ingredients(got[b], kept[b])):
                    raise AnalysisError(f"{q}: {b} := `{got[b].canon()[:80] if got[b] is not None else None}` (unrecognised form)")
            want_txt = "replaced as a whole by the evaluated candidate (fitness, iteration, parameters of index it % population)" if rel < 0 else "kept as a whole" if rel > 0 else "replaced or kept as a whole"
            viol.setdefault("incumbent", (f"{ {b: got[b].canon()[:50] for b in BEST_FIELDS} } in the world [{model.describe(w)}]",
                                          f"the candidate is {'better than' if rel < 0 else 'worse than' if rel > 0 else 'as good as'} the incumbent: it must be {want_txt}"))
        # fitness slot and counter
        slots = [(b_, i_, v_) for (_n, b_, i_, v_) in sm.pe.effects if b_ == f"{POP}.fitness"]
        checked.add("records-fitness")
        ok = len(slots) == 1 and slots[0][1] == K.canon() and slots[0][2] == fk
        if not ok:
            if len(slots) == 1 and not same_ingredients(slots[0][2], fk):
                raise AnalysisError(f"{q}: fitness slot := `{slots[0][2].canon()[:80]}` (unrecognised form)")
            viol.setdefault("records-fitness", (f"population.fitness writes: {[(i_, v_.canon()[:40]) for _b, i_, v_ in slots]} ({'maximise' if mx else 'minimise'})",
                                                "the sign-adjusted fitness (negated exactly when maximising) must be stored at the evaluated index k = it % population"))
        it = st.get(f"{ST}.it")
        checked.add("it+1")
        if not (it is not None and it == IT + Poly.const(1)):
            if it is None or not same_ingredients(it, IT):
                raise AnalysisError(f"{q}: evaluation counter := `{it.canon()[:60] if it is not None else None}` (unrecognised form)")
            viol.setdefault("it+1", (f"{ST}.it = {it.canon()}", "the evaluation counter advances by one per feedback"))
    for key in sorted(checked):
        v = viol.get(key)
        ck.ob("R2-incumbent", q, f"table:{key}", v is None, f"{n_worlds} order worlds, {len(sums)} paths" if v is None else v[0], "" if v is None else v[1], where)
    ck.floor("feedback-worlds", n_worlds, 20)
    # writers of best_* elsewhere
    transparent = repo.transparent_helpers()
    for qual, f2, mi2 in repo.all_functions():
        if not qual.startswith(CM) or qual == q or qual.endswith("CMAESState.create") or qual in transparent:
            continue
        for n in ast.walk(f2):
            if isinstance(n, (ast.Assign, ast.AugAssign)):
                for tg in (n.targets if isinstance(n, ast.Assign) else [n.target]):
                    if isinstance(tg, ast.Attribute) and tg.attr in BEST_FIELDS:
                        ck.ob("R2-incumbent", qual, f"foreign-writer:{tg.attr}", False, short(n), "the incumbent may only be written by set_evaluation_feedback", loc(mi2, n))
    _incumbent_is_a_value(ck, repo, q, fn, mi, POP)
    gq = CM + "get_next_parameters"
    gfn = split_conditional_assignments(repo.func(gq))
    ck._keep.append(gfn)
    gp = param_names(gfn)
    gcfg = nf.cfg_of(gfn)
    genv = _env(gfn)
    want = nf.poly(parse_expr(f"{gp[2]}.samples[{gp[1]}.it % {gp[0]}.n_samples_per_update]"), Scope(None, gfn._module, genv, gq), None)
    NON_IDENTITY = ("clip", "minimum", "maximum", "tanh", "round", "floor", "abs", "where")
    for sm in summarise_paths(nf, gcfg, gfn._module, gq, genv, {}):
        g = sm.ret
        ck.need(g is not None, f"{gq}: path without return value")
        ok = g == want
        why = "the candidate handed out must be the one whose feedback index is it % population"
        if not ok:
            m_ = nf.meta.get(g.single_atom() or "", {})
            if m_.get("fn", "").split(".")[-1] in NON_IDENTITY and m_.get("args") and any(a_ == want for a_ in m_["args"][:2]):
                why = f"the candidate handed out is {m_['fn'].split('.')[-1]}(population.samples[k], ...), not the stored sample: the incumbent and the mean are then built from points that were never evaluated"
            elif not same_ingredients(g, want):
                raise AnalysisError(f"{gq}: returns `{g.canon()[:80]}` (unrecognised form)")
        ck.ob("R2-incumbent", gq, "same-index-as-feedback", ok, f"return {g.canon()[:100]}", "" if ok else why, loc(gfn._module, gfn))


INPLACE_METHODS = ("fill", "sort", "put", "partition", "itemset", "resize", "setfield", "__setitem__")
INPLACE_FUNCS = ("numpy.copyto", "numpy.put", "numpy.place", "numpy.putmask", "numpy.put_along_axis")
COPIES = ("copy", "array", "asarray", "deepcopy", "tolist", "tuple", "list", "device_put")


def _host_array_field(repo, mi, fields):
    """Is one of ``fields`` declared / built as a numpy array in a class of the module?"""
    for n in ast.walk(mi.tree):
        if isinstance(n, ast.AnnAssign) and isinstance(n.target, ast.Name) and n.target.id in fields and repo.resolve_expr(mi, n.annotation) == "numpy.ndarray":
            return True
        if isinstance(n, ast.Assign) and any(isinstance(t, ast.Attribute) and t.attr in fields for t in n.targets) and isinstance(n.value, ast.Call):
            d_ = repo.resolve_expr(mi, n.value.func) if isinstance(n.value.func, (ast.Name, ast.Attribute)) else None
            if d_ in ("numpy.array", "numpy.empty", "numpy.zeros", "numpy.asarray", "numpy.ones", "numpy.empty_like", "numpy.zeros_like"):
                return True
    return False


def _incumbent_is_a_value(ck, repo, q, fn, mi, POP):
    """The recorded best parameters are a value: if the storage the candidate is read from is ever overwritten in place, the stored
    incumbent must be a copy - an index into a host array is a view that changes with the storage."""
    # where do the candidate parameters come from (field of the population object)?
    stores = [n for n in ast.walk(fn) if isinstance(n, ast.Assign) and any(isinstance(t, ast.Attribute) and t.attr == "best_params" for t in n.targets)]
    if not stores:
        raise AnalysisError(f"{q}: no assignment to best_params (anchor vanished)")

    def resolve_local(e, depth=0):
        if isinstance(e, ast.Name) and depth < 4:
            ds = [n for n in ast.walk(fn) if isinstance(n, ast.Assign) and any(isinstance(t, ast.Name) and t.id == e.id for t in n.targets)]
            if len(ds) == 1:
                return resolve_local(ds[0].value, depth + 1)
        return e
    fields, views = set(), []
    for st_ in stores:
        v = resolve_local(st_.value)
        copied = False
        while isinstance(v, ast.Call):
            d_ = dotted(v.func) or ""
            if d_.split(".")[-1] in COPIES and (v.args or isinstance(v.func, ast.Attribute)):
                copied = True
                v = resolve_local(v.args[0] if v.args else v.func.value)
            else:
                break
        base = v
        while isinstance(base, ast.Subscript):
            base = resolve_local(base.value)
        if isinstance(base, ast.Attribute) and isinstance(base.value, ast.Name) and base.value.id == POP:
            fields.add(base.attr)
            if not copied:
                views.append((st_, base.attr))
        elif not copied:
            raise AnalysisError(f"{q}: best_params := `{short(st_.value, 60)}` - where the stored parameters come from is not recognised")
    # in-place writers of that field anywhere in the module
    writers, maybe = [], []
    for qual, f2, mi2 in repo.all_functions():
        if mi2 is not mi or "<locals>" in qual:
            continue
        alias = {}
        for n in ast.walk(f2):
            if isinstance(n, ast.Assign) and len(n.targets) == 1 and isinstance(n.targets[0], ast.Name) and isinstance(n.value, ast.Attribute) and n.value.attr in fields:
                alias[n.targets[0].id] = n.value.attr

        def is_field(e):
            return (isinstance(e, ast.Attribute) and e.attr in fields) or (isinstance(e, ast.Name) and e.id in alias)
        for n in ast.walk(f2):
            if isinstance(n, (ast.Assign, ast.AugAssign)):
                for tg in (n.targets if isinstance(n, ast.Assign) else [n.target]):
                    if isinstance(tg, ast.Subscript) and is_field(tg.value):
                        (writers if _host_array_field(repo, mi2, fields) else maybe).append((qual, mi2, n))
            elif isinstance(n, ast.Call):
                d_ = repo.resolve_expr(mi2, n.func) if isinstance(n.func, (ast.Name, ast.Attribute)) else None
                if d_ in INPLACE_FUNCS and n.args and is_field(n.args[0]):
                    writers.append((qual, mi2, n))
                elif isinstance(n.func, ast.Attribute) and n.func.attr in INPLACE_METHODS and is_field(n.func.value):
                    writers.append((qual, mi2, n))
                elif any(k.arg == "out" and is_field(k.value) for k in n.keywords):
                    writers.append((qual, mi2, n))
    if views and maybe and not writers:
        raise AnalysisError(f"{q}: `{short(maybe[0][2], 60)}` stores into population.{views[0][1]} by index while best_params keeps an uncopied element of it - whether that storage is a host array (view) or a list of values is not known")
    ok = not (views and writers)
    ck.ob("R2-incumbent", q, "incumbent-is-a-value", ok,
          f"best_params is read from population.{'/'.join(sorted(fields))}; in-place writers of that storage in the module: {len(writers)}; stored without a copy at {len(views)} site(s)" if ok else
          f"`{short(views[0][0], 60)}` and `{short(writers[0][2], 60)}` in {writers[0][0].split('.')[-1]}",
          "" if ok else f"the incumbent is stored as an index into population.{views[0][1]} without a copy while that storage is overwritten in place: with a host array the recorded best parameters change to another candidate at the next overwrite, while best_fitness keeps the old value",
          loc(mi, views[0][0]) if views else loc(mi, fn))


def r2_train_loop(ck, repo, nf):
    from .c15 import _role_of_counter
    q = CM + "train_cmaes"
    L = find_env_loop(repo, q)
    cfg, mi, fn = L.cfg, L.mi, L.fn

    def calls_of(target):
        return [(n, c) for n in cfg.nodes if n.ast is not None and n.kind == "stmt" for c in ast.walk(n.ast)
                if isinstance(c, ast.Call) and isinstance(c.func, (ast.Name, ast.Attribute)) and repo.resolve_expr(mi, c.func) == target]
    body = cfg.loop_body_nodes(L.outer_header)
    fbs = [(n, c) for n, c in calls_of(CM + "set_evaluation_feedback") if n.id in body]
    sps = [(n, c) for n, c in calls_of(CM + "set_params") if n.id in body]
    ck.need(len(fbs) == 1 and len(sps) == 1, f"{q}: expected one set_params and one set_evaluation_feedback call per episode, found {len(sps)} / {len(fbs)}")
    (fbn, fbc), (spn, spc) = fbs[0], sps[0]
    fb_fn, sp_fn, gn_fn = repo.func(CM + "set_evaluation_feedback"), repo.func(CM + "set_params"), repo.func(CM + "get_next_parameters")
    fbb = bind_call(fb_fn, fbc)
    fparams = param_names(fb_fn)
    spb = bind_call(sp_fn, spc)
    cand = spb.get(param_names(sp_fn)[1])
    cand_e, cand_at = cand, spn.id
    if isinstance(cand, ast.Name):
        ds = cfg.defs_of(spn.id, cand.id)
        if len(ds) == 1 and ds[0].kind == "assign":
            cand_e, cand_at = ds[0].value, ds[0].node
    ck.need(isinstance(cand_e, ast.Call) and isinstance(cand_e.func, (ast.Name, ast.Attribute)) and repo.resolve_expr(mi, cand_e.func) == CM + "get_next_parameters",
            f"{q}: the parameters written into the policy `{short(cand_e, 60)}` are not the result of get_next_parameters (unrecognised form)")
    gb = bind_call(gn_fn, cand_e)
    same_objs = all(isinstance(gb.get(a), ast.Name) and isinstance(fbb.get(b), ast.Name) and gb[a].id == fbb[b].id and
                    [d.node for d in cfg.defs_of(cand_at, gb[a].id)] == [d.node for d in cfg.defs_of(fbn.id, fbb[b].id)]
                    for a, b in zip(param_names(gn_fn)[:3], fparams[:3]))
    order = cfg.dominates(spn.id, fbn.id)
    ok = same_objs and order
    ck.ob("R2-incumbent", q, "evaluates-what-it-sets", ok, f"`{short(spc, 70)}` ... `{short(fbc, 70)}`",
          "" if ok else "each episode must evaluate the candidate that was written into the policy: same config / state / population between get_next_parameters and set_evaluation_feedback, in this order", loc(mi, fbc))
    ret_arg = fbb.get(fparams[3])
    ck.need(isinstance(ret_arg, ast.Name), f"{q}: feedback argument `{short(ret_arg) if ret_arg is not None else None}` (unrecognised form)")
    role = _role_of_counter(cfg, L, ret_arg.id, body)
    if role is None:
        raise AnalysisError(f"{q}: cannot classify the feedback variable `{ret_arg.id}` by its updates")
    ck.ob("R2-incumbent", q, "feedback-is-return", role == "return", f"feedback <- `{ret_arg.id}` ({role} counter)", "" if role == "return" else "the fitness of a candidate is the return of its episode", loc(mi, fbc))
    # the env episode lies between writing the candidate and its feedback
    ok = cfg.dominates(spn.id, L.step_node) and cfg.dominates(spn.id, fbn.id) and cfg.paths_avoiding(L.step_node, fbn.id, {spn.id}) is not None
    ck.ob("R2-incumbent", q, "episode-between", ok, "set_params -> env.step ... -> set_evaluation_feedback", "" if ok else "the candidate must be written into the policy before the episode that evaluates it", loc(mi, spc))
    # reported sign
    confs = calls_of(CM + "CMAESConfig.create")
    ck.need(len(confs) == 1, f"{q}: CMAESConfig.create call not found")
    m = repo.method(CM + "CMAESConfig", "create", inherited=False)
    cb = bind_call(m[1], confs[0][1], skip_self=True)
    mxv = cb.get("maximize")
    ck.need(isinstance(mxv, ast.Constant) and isinstance(mxv.value, bool), f"{q}: maximize is not a literal")
    rets = [n for n in cfg.nodes if n.kind == "stmt" and isinstance(n.ast, ast.Return) and n.ast.value is not None]
    ck.need(len(rets) == 1, f"{q}: expected one return")
    rv = rets[0].ast.value
    elts = None
    if isinstance(rv, ast.Call) and len(rv.args) >= 2:
        elts = rv.args
    elif isinstance(rv, ast.Tuple):
        elts = rv.elts
    ck.need(elts is not None and len(elts) >= 2, f"{q}: result construction (unrecognised form)")
    rexpr = elts[1]
    if isinstance(rexpr, ast.Name):
        ds = cfg.defs_of(rets[0].id, rexpr.id)
        ck.need(len(ds) == 1 and ds[0].kind == "assign", f"{q}: reported best fitness `{rexpr.id}` (unrecognised form)")
        rexpr = ds[0].value
    got = nf.poly(rexpr, Scope(None, mi, {}, q), None)
    st_name = fbb[fparams[1]].id
    want = nf.poly(parse_expr(f"{'-' if mxv.value else ''}{st_name}.best_fitness"), Scope(None, mi, {}, q), None)
    ok = got == want
    if not ok and not same_ingredients(got, want):
        raise AnalysisError(f"{q}: reported best fitness `{got.canon()[:80]}` (unrecognised form)")
    ck.ob("R2-incumbent", q, "reported-sign", ok, f"maximize={mxv.value}; reported best fitness = {got.canon()}", "" if ok else "returns are maximised through negation; the reported best fitness must be un-negated", loc(mi, rets[0].ast))
    ck.ob("R2-incumbent", q, "maximises-return", mxv.value is True, f"CMAESConfig.create(maximize={mxv.value})", "" if mxv.value else "episode returns are to be maximised", loc(mi, confs[0][1]))


# ---- R3 / R4 -------------------------------------------------------------------------------------------------------------------------------
def r34_update(ck, repo, nf):
    q = CM + "update_search_distribution"
    fn = repo.func(q)
    mi = fn._module
    cfg = nf.cfg_of(fn)
    env = _env(fn)
    CONF, ST, POP = param_names(fn)[:3]
    olds = {f"{ST}.{k}": Poly.atom(f"old.{ST}.{k}") for k in ("mean", "last_mean", "var", "ps", "pc", "cov", "invsqrtC", "it", "eigen_decomp_updated")}
    paths = enumerate_paths(cfg, cfg.entry, {cfg.exit})
    ck.count("update-paths", len(paths))
    sc0 = Scope(None, mi, env, q)
    want_mean = nf.poly(parse_expr(f"jnp.sum({CONF}.weights[:, jnp.newaxis] * {POP}.samples[jnp.argsort(jnp.asarray({POP}.fitness), axis=0)[:{CONF}.mu]], axis=0)"), sc0, None)
    done = set()
    for p in paths:
        pe = PathEval(nf, cfg, mi, q, env)
        pe.store = dict(olds)
        pe.run(p)
        mean, last, var = pe.store[f"{ST}.mean"], pe.store[f"{ST}.last_mean"], pe.store[f"{ST}.var"]
        key = (mean.canon(), last.canon(), var.canon())
        if key in done:
            continue
        done.add(key)
        ok = mean == want_mean
        if not ok and not same_ingredients(mean, want_mean, ("old", ST, "mean", "last_mean")):
            raise AnalysisError(f"{q}: mean' = `{mean.canon()[:100]}` (unrecognised form)")
        ck.ob("R3-mean", q, "recombination", ok, f"mean' = {mean.canon()[:150]}", "" if ok else f"must be the weight-averaged best mu candidates: {want_mean.canon()[:120]}", loc(mi, fn))
        ok = last == olds[f"{ST}.mean"]
        if not ok and not same_ingredients(last, want_mean, ("old", ST, "mean", "last_mean")):
            raise AnalysisError(f"{q}: last_mean' = `{last.canon()[:100]}` (unrecognised form)")
        ck.ob("R3-mean", q, "last-mean", ok, f"last_mean' = {last.canon()[:100]}", "" if ok else "last_mean must hold the mean before this update", loc(mi, fn))
        # var' = old.var * exp(min(0.6, X))^2
        OV = f"old.{ST}.var"
        verdict = None
        if len(var.terms) == 1:
            (mono, c), = var.terms.items()
            d = dict(mono)
            others = [a for a in d if a != OV]
            if c == 1 and d.get(OV) == 1 and len(others) == 1 and nf.meta.get(others[0], {}).get("fn", "").split(".")[-1] == "exp":
                inner = nf.meta[others[0]]["args"][0]
                scale = d[others[0]]
                im = nf.meta.get(inner.single_atom() or "", {})
                if im.get("fn") in ("min", "minimum") or im.get("fn", "").endswith(".minimum"):
                    consts = [a.const_value() for a in im["args"] if a.is_const()]
                    verdict = scale == 2 and len(im["args"]) == 2 and len(consts) == 1 and consts[0] * 5 == 3
                    why = f"cap constant {[float(x) for x in consts]} with exponent {scale}"
                elif not any("min" in t for t in inner.atoms()):
                    verdict, why = False, "no cap on the exponent"
        if verdict is None:
            raise AnalysisError(f"{q}: var' = `{var.canon()[:120]}` (unrecognised form)")
        ck.ob("R4-step-size", q, "capped-growth", verdict, f"var' = {var.canon()[:150]}", "" if verdict else f"must be var * exp(min(0.6, log_step_size_update))**2: the step size grows by at most exp(0.6) per update ({why})", loc(mi, fn))


# ---- R7 ------------------------------------------------------------------------------------------------------------------------------------
def _quadratic_form(nf, atom):
    """(X, W, Y) for an atom that denotes X^T diag(W) Y, else None."""
    m = nf.meta.get(atom, {})
    fname = m.get("fn", "").split(".")[-1]
    if fname not in ("dot", "matmul") or len(m.get("args", [])) != 2:
        return None
    left, right = m["args"]
    lm = nf.meta.get(left.single_atom() or "", {})
    lf = lm.get("fn", "").split(".")[-1]

    def transposed(p):
        mm = nf.meta.get(p.single_atom() or "", {})
        return mm["args"][0] if mm.get("fn", "").split(".")[-1] in ("T", "transpose") and len(mm.get("args", [])) == 1 else None
    if lf in ("dot", "matmul") and len(lm.get("args", [])) == 2:
        x = transposed(lm["args"][0])
        dm = nf.meta.get(lm["args"][1].single_atom() or "", {})
        if x is not None and dm.get("fn", "").split(".")[-1] == "diag" and len(dm.get("args", [])) == 1:
            return x, dm["args"][0], right
        return None
    inner = transposed(left)
    if inner is not None:
        # (w[:, None] * X)^T Y: every term of the transposed factor carries the same broadcast weight atom exactly once
        cands = None
        for mono, _c in inner.terms.items():
            ws = {a for a, k in mono if k == 1 and nf.meta.get(a, {}).get("fn") == "subscript" and (a.endswith("[:, jax.numpy.newaxis]") or a.endswith("[:, numpy.newaxis]") or a.endswith("[:, None]"))}
            cands = ws if cands is None else cands & ws
        if cands and len(cands) == 1:
            w = next(iter(cands))
            x = inner.subst({w: Poly.const(1)})
            wm = nf.meta.get(w, {})
            return x, (wm.get("args") or [None])[0], right
    return None


def _affine_in(x, name):
    """Is the polynomial a scaled and shifted copy of the atom ``name`` (degree one, not nested inside another atom)?"""
    seen = False
    for mono, _c in x.terms.items():
        for a, k in mono:
            if a == name:
                if k != 1:
                    return False
                seen = True
            elif name in a:
                return False
    return seen


def r7_covariance(ck, repo, nf):
    q = CM + "update_search_distribution"
    fn = repo.func(q)
    mi = fn._module
    cfg = nf.cfg_of(fn)
    env = _env(fn)
    CONF, ST, POP = param_names(fn)[:3]
    olds = {f"{ST}.{k}": Poly.atom(f"old.{ST}.{k}") for k in ("mean", "last_mean", "var", "ps", "pc", "cov", "invsqrtC", "it", "eigen_decomp_updated")}
    sc0 = Scope(None, mi, env, q)
    best = nf.poly(parse_expr(f"{POP}.samples[jnp.argsort(jnp.asarray({POP}.fitness), axis=0)[:{CONF}.mu]]"), sc0, None)
    worst = nf.poly(parse_expr(f"{POP}.samples[jnp.argsort(jnp.asarray({POP}.fitness), axis=0)[::-1][:{CONF}.mu]]"), sc0, None)
    SEL = Poly.atom("⟨selected⟩")
    OC = f"old.{ST}.cov"
    done = set()
    n_forms = 0
    for p in enumerate_paths(cfg, cfg.entry, {cfg.exit}):
        pe = PathEval(nf, cfg, mi, q, env)
        pe.store = dict(olds)
        pe.run(p)
        cov = pe.store[f"{ST}.cov"]
        if cov.canon() in done:
            continue
        done.add(cov.canon())
        where = loc(mi, fn)
        forms, ranks = {}, {}
        for mono, c in cov.terms.items():
            d = dict(mono)
            mats = [a for a in d if a == OC or nf.meta.get(a, {}).get("fn", "").split(".")[-1] in ("dot", "matmul", "outer")]
            if len(mats) != 1 or d[mats[0]] != 1:
                raise AnalysisError(f"{q}: covariance term `{Poly({mono: c}).canon()[:100]}` is not a scalar multiple of the old covariance, an outer product or a quadratic form (unrecognised form)")
            a = mats[0]
            if a == OC:
                continue
            if nf.meta[a]["fn"].split(".")[-1] == "outer":
                ranks[a] = nf.meta[a]["args"]
            else:
                qf = _quadratic_form(nf, a)
                if qf is None:
                    raise AnalysisError(f"{q}: matrix term `{a[:100]}` is not read as X^T diag(w) Y (unrecognised form)")
                forms.setdefault(a, (qf, []))[1].append((Poly({tuple(sorted((k_, v_) for k_, v_ in d.items() if k_ != a)): c})))
        if not forms:
            raise AnalysisError(f"{q}: no rank-mu quadratic form in cov' (anchor vanished)")
        for a, args in ranks.items():
            ok = len(args) == 2 and args[0] == args[1]
            ck.ob("R7-covariance-form", q, "rank-one-symmetric", ok, f"outer({args[0].canon()[:50]}, {args[1].canon()[:50] if len(args) > 1 else ''})", "" if ok else "outer(a, b) with a != b is not symmetric: the covariance loses symmetry", where)
        per_sel = {}
        for a, ((x, w, y), coefs) in forms.items():
            n_forms += 1
            ok = x == y
            ck.ob("R7-covariance-form", q, f"quadratic-form-symmetric:{len(per_sel)}", ok, f"X^T diag(w) Y with X = {x.canon()[:80]}", "" if ok else f"the two factors differ (Y = {y.canon()[:80]}): the term is not symmetric", where)
            kind = "best" if any(at in x.atoms() for at in best.atoms()) and not any(at in x.atoms() for at in worst.atoms() - best.atoms()) else "worst" if any(at in x.atoms() for at in worst.atoms()) else None
            # normalise the selection away
            b_at, w_at = best.single_atom(), worst.single_atom()
            if b_at is None or w_at is None:
                raise AnalysisError(f"{q}: selection of the best / worst candidates has no atomic normal form")
            if w_at in x.atoms():
                per_sel["worst"] = (x.subst({w_at: SEL}), w, x)
            elif b_at in x.atoms():
                per_sel["best"] = (x.subst({b_at: SEL}), w, x)
            else:
                raise AnalysisError(f"{q}: quadratic form over `{x.canon()[:100]}` - neither the best nor the worst mu candidates of the ranking (unrecognised form)")
        if "best" not in per_sel:
            raise AnalysisError(f"{q}: no quadratic form over the best mu candidates in cov' (unrecognised form)")
        if "worst" in per_sel:
            (xb, wb, rawb), (xw, ww, raww) = per_sel["best"], per_sel["worst"]
            ok = xb == xw and (wb is None or ww is None or wb == ww)
            if not ok and not (_affine_in(xw, "⟨selected⟩") and _affine_in(xb, "⟨selected⟩") and (wb is None or ww is None or wb == ww or same_ingredients(wb, ww))):
                raise AnalysisError(f"{q}: negative update over `{raww.canon()[:100]}` (unrecognised form)")
            ck.ob("R7-covariance-form", q, "negative-update-mirrors-positive", ok, f"worst: {raww.canon()[:110]}  |  best: {rawb.canon()[:110]}",
                  "" if ok else "the negative rank-mu term is not the positive one with the worst candidates in place of the best (centre / step-size scaling / weights differ): the subtraction is mis-scaled and can drive variances negative", where)
    ck.floor("covariance-quadratic-forms", n_forms, 3)


# ---- R5 ------------------------------------------------------------------------------------------------------------------------------------
class _Terms:
    """Dataflow terms of one function: names are followed to their single reaching definition; calls are named by their resolved target."""

    def __init__(self, repo, fn, cfg):
        self.repo, self.fn, self.cfg, self.mi = repo, fn, cfg, fn._module
        self.params = param_names(fn)

    def val(self, e, at, depth=0):
        if depth > 12:
            return ("deep",)
        if isinstance(e, ast.Name):
            ds = self.cfg.defs_of(at, e.id)
            if len(ds) == 1 and ds[0].kind == "param":
                return ("param", e.id)
            if len(ds) == 1 and ds[0].kind == "assign":
                return self.val(ds[0].value, ds[0].node, depth + 1)
            if len(ds) == 1 and ds[0].kind == "unpack" and ds[0].path and len(ds[0].path) == 1:
                return ("proj", self.val(ds[0].value, ds[0].node, depth + 1), ds[0].path[0])
            if not ds:
                return ("global", self.repo.resolve_name(self.mi, e.id) or e.id)
            return ("phi", e.id)
        if isinstance(e, ast.Attribute):
            r = self.repo.resolve_expr(self.mi, e)
            if r:
                return ("global", r)
            return ("attr", self.val(e.value, at, depth + 1), e.attr)
        if isinstance(e, ast.Subscript) and isinstance(e.slice, ast.Constant) and isinstance(e.slice.value, int):
            return ("proj", self.val(e.value, at, depth + 1), e.slice.value)
        if isinstance(e, ast.Call):
            f = e.func
            name = self.repo.resolve_expr(self.mi, f) if isinstance(f, (ast.Name, ast.Attribute)) else None
            recv = None
            if name is None and isinstance(f, ast.Attribute):
                name, recv = "." + f.attr, self.val(f.value, at, depth + 1)
            elif name is None and isinstance(f, ast.Name):
                name = f.id
            args = [self.val(a, at, depth + 1) for a in e.args if not isinstance(a, ast.Starred)]
            kws = {k.arg: self.val(k.value, at, depth + 1) for k in e.keywords if k.arg}
            return ("call", name, ([recv] if recv is not None else []) + args, kws)
        if isinstance(e, ast.Constant):
            return ("const", e.value)
        return ("expr", ast.dump(e)[:80])


LEAVES = ("jax.tree_util.tree_leaves", "jax.tree.leaves", "jax.tree_leaves")
FLATTEN = ("jax.tree_util.tree_flatten", "jax.tree.flatten", "jax.tree_flatten")
STRUCTURE = ("jax.tree_util.tree_structure", "jax.tree.structure", "jax.tree_structure")
UNFLATTEN = ("jax.tree_util.tree_unflatten", "jax.tree.unflatten", "jax.tree_unflatten")


def _is_param_state(t, net):
    return t[0] == "call" and t[1] == "flax.nnx.state" and len(t[2]) == 2 and t[2][0] == ("param", net) and t[2][1] == ("global", "flax.nnx.Param") and not t[3]


def _state_of_leaves(t):
    if t[0] == "call" and t[1] in LEAVES and len(t[2]) == 1:
        return t[2][0]
    if t[0] == "proj" and t[2] == 0 and t[1][0] == "call" and t[1][1] in FLATTEN and len(t[1][2]) == 1:
        return t[1][2][0]
    return None


def _state_of_treedef(t):
    if t[0] == "call" and t[1] in STRUCTURE and len(t[2]) == 1:
        return t[2][0]
    if t[0] == "proj" and t[2] == 1 and t[1][0] == "call" and t[1][1] in FLATTEN and len(t[1][2]) == 1:
        return t[1][2][0]
    return None


def _elementwise_ravel(T, e, at, depth=0):
    """(source expression, node) when ``e`` applies ravel / reshape(-1) / flatten to every element of a sequence, in order; else None."""
    cfg = T.cfg
    if depth > 6:
        return None
    if isinstance(e, ast.Name):
        ds = cfg.defs_of(at, e.id)
        if len(ds) == 1 and ds[0].kind == "assign":
            return _elementwise_ravel(T, ds[0].value, ds[0].node, depth + 1)
        return None
    if isinstance(e, ast.Call) and isinstance(e.func, ast.Name) and e.func.id in ("list", "tuple") and len(e.args) == 1:
        return _elementwise_ravel(T, e.args[0], at, depth + 1)

    def is_ravel_of(x, var):
        if isinstance(x, ast.Call) and isinstance(x.func, ast.Attribute) and isinstance(x.func.value, ast.Name) and x.func.value.id == var:
            if x.func.attr in ("ravel", "flatten") and not x.args:
                return True
            if x.func.attr == "reshape" and len(x.args) == 1 and ((isinstance(x.args[0], ast.UnaryOp) and isinstance(x.args[0].op, ast.USub) and isinstance(x.args[0].operand, ast.Constant) and x.args[0].operand.value == 1)
                                                                 or (isinstance(x.args[0], ast.Constant) and x.args[0].value == -1)):
                return True
        if isinstance(x, ast.Call) and isinstance(x.func, (ast.Name, ast.Attribute)) and T.repo.resolve_expr(T.mi, x.func) in ("jax.numpy.ravel", "numpy.ravel") and len(x.args) == 1 and isinstance(x.args[0], ast.Name) and x.args[0].id == var:
            return True
        return False
    if isinstance(e, (ast.ListComp, ast.GeneratorExp)) and len(e.generators) == 1 and not e.generators[0].ifs and isinstance(e.generators[0].target, ast.Name):
        if is_ravel_of(e.elt, e.generators[0].target.id):
            return e.generators[0].iter, at
        return None
    if isinstance(e, ast.Call) and isinstance(e.func, ast.Name) and e.func.id == "map" and len(e.args) == 2:
        f = e.args[0]
        if isinstance(f, ast.Lambda) and len(f.args.args) == 1 and is_ravel_of(f.body, f.args.args[0].arg):
            return e.args[1], at
        if isinstance(f, (ast.Name, ast.Attribute)) and T.repo.resolve_expr(T.mi, f) in ("jax.numpy.ravel", "numpy.ravel"):
            return e.args[1], at
    return None


def r5_flat_set(ck, repo, nf):
    fq, sq = CM + "flat_params", CM + "set_params"
    f, s = repo.func(fq), repo.func(sq)
    # -- flat_params --------------------------------------------------------------------------------------------------------------
    cfg = nf.cfg_of(f)
    T = _Terms(repo, f, cfg)
    net = T.params[0]
    rets = [n for n in cfg.nodes if n.kind == "stmt" and isinstance(n.ast, ast.Return) and n.ast.value is not None]
    ck.need(len(rets) == 1, f"{fq}: expected one return")
    rv, rat = rets[0].ast.value, rets[0].id
    if isinstance(rv, ast.Name):
        ds = cfg.defs_of(rat, rv.id)
        ck.need(len(ds) == 1 and ds[0].kind == "assign", f"{fq}: returned value (unrecognised form)")
        rv, rat = ds[0].value, ds[0].node
    ck.need(isinstance(rv, ast.Call) and isinstance(rv.func, (ast.Name, ast.Attribute)) and repo.resolve_expr(T.mi, rv.func) in ("jax.numpy.concatenate", "jax.numpy.hstack") and rv.args,
            f"{fq}: the flat vector `{short(rv, 60)}` is not a concatenation (unrecognised form)")
    axis = next((k.value for k in rv.keywords if k.arg == "axis"), rv.args[1] if len(rv.args) > 1 else None)
    ck.need(axis is None or (isinstance(axis, ast.Constant) and axis.value == 0), f"{fq}: concatenation axis (unrecognised form)")
    ew = _elementwise_ravel(T, rv.args[0], rat)
    ck.need(ew is not None, f"{fq}: `{short(rv.args[0], 60)}` is not an element-wise ravel of the leaves (unrecognised form)")
    st = _state_of_leaves(T.val(ew[0], ew[1]))
    ck.need(st is not None, f"{fq}: the raveled sequence `{short(ew[0], 50)}` is not a pytree leaf list (unrecognised form)")
    ok = _is_param_state(st, net)
    ck.ob("R5-flat-set", fq, "leaf-order-and-ravel", ok, f"concatenate(ravel(leaf) for leaf in leaves({_show(st)}))", "" if ok else "flat_params must concatenate the raveled leaves of nnx.state(net, nnx.Param) in pytree order", loc(f._module, f))
    # -- set_params ----------------------------------------------------------------------------------------------------------------
    cfg = nf.cfg_of(s)
    T = _Terms(repo, s, cfg)
    net, vec = T.params[0], T.params[1]
    ups = [(n, c) for n in cfg.nodes if n.ast is not None and n.kind == "stmt" for c in ast.walk(n.ast)
           if isinstance(c, ast.Call) and isinstance(c.func, (ast.Name, ast.Attribute)) and repo.resolve_expr(T.mi, c.func) == "flax.nnx.update"]
    ck.need(len(ups) == 1 and len(ups[0][1].args) == 2, f"{sq}: expected one nnx.update(net, state) call")
    un, uc = ups[0]
    ok_net = T.val(uc.args[0], un.id) == ("param", net)
    new_state = T.val(uc.args[1], un.id)
    ck.need(new_state[0] == "call" and new_state[1] in UNFLATTEN and len(new_state[2]) == 2, f"{sq}: the written state `{short(uc.args[1], 50)}` is not a tree_unflatten(...) (unrecognised form)")
    td_state = _state_of_treedef(new_state[2][0])
    ck.need(td_state is not None, f"{sq}: tree definition (unrecognised form)")
    # the leaf loop
    loops = [n for n in cfg.nodes if n.kind == "for"]
    ck.need(len(loops) == 1, f"{sq}: leaf loop not found (unrecognised form)")
    lp = loops[0]
    lv_state = _state_of_leaves(T.val(lp.ast.iter, lp.id))
    ck.need(lv_state is not None and isinstance(lp.ast.target, ast.Name), f"{sq}: the loop does not iterate over pytree leaves (unrecognised form)")
    ok = ok_net and _is_param_state(td_state, net) and _is_param_state(lv_state, net)
    ck.ob("R5-flat-set", sq, "same-filter-and-order", ok, f"leaves({_show(lv_state)}), treedef({_show(td_state)}) -> tree_unflatten -> nnx.update({_show(T.val(uc.args[0], un.id))}, .)",
          "" if ok else "set_params must use the same Param filter and leaf order as flat_params and write back into the same network with nnx.update", loc(s._module, s))
    # loop-carried variables get symbolic entry values; the body is straight-line
    lbody = cfg.loop_body_nodes(lp.id)
    grown_names = {c.func.value.id for m in cfg.nodes if m.id in lbody and m.ast is not None and m.kind == "stmt" for c in ast.walk(m.ast)
                   if isinstance(c, ast.Call) and isinstance(c.func, ast.Attribute) and c.func.attr in ("append", "extend") and isinstance(c.func.value, ast.Name)}
    carried = sorted(({d.name for m in cfg.nodes if m.id in lbody for d in m.defs} | grown_names) - {lp.ast.target.id})
    env0 = {**_env(s), **{v: Poly.atom(f"IN.{v}") for v in carried}}
    paths = enumerate_paths(cfg, lp.id, {lp.id}, first_label=True)
    ck.need(len(paths) == 1, f"{sq}: loop body not straight-line (unrecognised form)")
    pe = PathEval(nf, cfg, s._module, sq, env0).run(paths[0][:-1])
    leaf = pe.env[lp.ast.target.id].canon()
    size = nf.poly(parse_expr("np.prod(LEAF.shape)"), Scope(None, s._module, {"LEAF": pe.env[lp.ast.target.id]}, sq), None)
    # the container that reaches tree_unflatten, and what is appended to it
    leaves_arg = None
    # locate the tree_unflatten call expression to read its second argument as a name
    for m in cfg.nodes:
        if m.ast is None or m.kind != "stmt":
            continue
        for c in ast.walk(m.ast):
            if isinstance(c, ast.Call) and isinstance(c.func, (ast.Name, ast.Attribute)) and repo.resolve_expr(T.mi, c.func) in UNFLATTEN and len(c.args) == 2:
                leaves_arg = c.args[1]
    ck.need(isinstance(leaves_arg, ast.Name) and leaves_arg.id in carried, f"{sq}: new leaves container (unrecognised form)")
    C = leaves_arg.id
    grown = pe.env[C]
    offs = [v for v in carried if v != C and pe.env[v] == Poly.atom(f"IN.{v}") + size]
    want_any = None
    ok_slice = False
    for o in offs:
        want = nf.poly(parse_expr("CONT + [VEC[OFF:OFF + SIZE].reshape(LEAF.shape)]"), Scope(None, s._module, {"CONT": Poly.atom(f"IN.{C}"), "VEC": env0[vec], "OFF": Poly.atom(f"IN.{o}"), "SIZE": size, "LEAF": pe.env[lp.ast.target.id]}, sq), None)
        want_any = want
        if grown == want:
            ok_slice = True
            # the offset starts at 0 and the container empty
            d0 = [d for d in cfg.defs_of(lp.id, o) if d.node not in lbody]
            c0 = [d for d in cfg.defs_of(lp.id, C) if d.node not in lbody]
            ok0 = len(d0) == 1 and isinstance(d0[0].value, ast.Constant) and d0[0].value.value == 0 and len(c0) == 1 and isinstance(c0[0].value, (ast.List,)) and not c0[0].value.elts
            ck.ob("R5-flat-set", sq, "offset-starts-at-zero", ok0, f"`{o}` and `{C}` before the loop", "" if ok0 else "the first leaf must start at position 0 of the flat vector and the container must start empty", loc(s._module, lp.ast))
    ck.ob("R5-flat-set", sq, "offset-advance", bool(offs), f"loop-carried {[(v, pe.env[v].canon()[:60]) for v in carried if v != C]}", "" if offs else "the read offset must advance by prod(leaf.shape) per leaf", loc(s._module, lp.ast))
    if offs and not ok_slice:
        if want_any is not None and not same_ingredients(grown, want_any, ("np", "jnp")):
            raise AnalysisError(f"{sq}: appended leaf `{grown.canon()[:120]}` (unrecognised form)")
    if offs:
        ck.ob("R5-flat-set", sq, "slice-and-reshape", ok_slice, f"{grown.canon()[:140]}", "" if ok_slice else "each leaf must take the slice [offset, offset+size) of the flat vector reshaped to its shape", loc(s._module, lp.ast))


def _show(t, depth=0):
    if not isinstance(t, tuple) or depth > 4:
        return str(t)[:30]
    if t[0] in ("param", "global", "const", "phi"):
        return str(t[1]).rsplit(".", 1)[-1]
    if t[0] == "call":
        return f"{str(t[1]).rsplit('.', 1)[-1]}({', '.join(_show(a, depth + 1) for a in t[2])})"
    if t[0] == "proj":
        return f"{_show(t[1], depth + 1)}[{t[2]}]"
    if t[0] == "attr":
        return f"{_show(t[1], depth + 1)}.{t[2]}"
    return t[0]


# ---- R6 ------------------------------------------------------------------------------------------------------------------------------------
def r6_cem(ck, repo, nf):
    q = "rl_blox.blox.cross_entropy_method.cem_update"
    fn = repo.func(q)
    nf6 = NF(repo, inline_depth=3)
    got = nf6.return_poly(q, _env(fn))
    ck.need(got.elems is not None and len(got.elems) == 2, f"{q}: must return (mean, var)")
    P = param_names(fn)
    ck.need(len(P) >= 6, f"{q}: signature changed")
    SM, FI, ME, VA, NE, AL = P[:6]
    sc6 = Scope(None, fn._module, _env(fn), q)
    elite_specs = [f"jnp.take({SM}, jax.lax.top_k({FI}, {NE})[1], axis=0)", f"{SM}[jax.lax.top_k({FI}, {NE})[1]]", f"{SM}[jnp.argsort({FI})[-{NE}:]]", f"{SM}[jnp.argsort(-{FI})[:{NE}]]"]
    okm = any(got.elems[0] == nf6.poly(parse_expr(f"{AL} * {ME} + (1.0 - {AL}) * jnp.mean({e}, axis=0)"), sc6, None) for e in elite_specs)
    okv = any(got.elems[1] == nf6.poly(parse_expr(f"{AL} * {VA} + (1.0 - {AL}) * jnp.var({e}, axis=0)"), sc6, None) for e in elite_specs)
    if okm and okv:
        ck.ob("R6-cem", q, "elites", True, f"mean' = {got.elems[0].canon()[:130]}", "", loc(fn._module, fn))
    else:
        txt = got.elems[0].canon() + " " + got.elems[1].canon()
        thresholded = any(t in txt for t in ("LtE(", "Lt(", "GtE(", "Gt(")) and FI in txt
        if thresholded:
            ck.ob("R6-cem", q, "elites", False, f"mean' = {got.elems[0].canon()[:150]}",
                  "the elite set is defined by a fitness threshold (comparison), not by selecting n_elite candidates: with tied fitness values more than n_elite candidates enter the update", loc(fn._module, fn))
        elif f"top_k(-{FI}" in txt or f"argsort({FI})[:{NE}]" in txt or f"argsort(-{FI})[-{NE}:]" in txt:
            ck.ob("R6-cem", q, "elites", False, f"mean' = {got.elems[0].canon()[:150]}", "the update uses the n_elite candidates with the *smallest* fitness (CEM here is a maximiser)", loc(fn._module, fn))
        elif "top_k" not in txt and "argsort" not in txt and "sort" not in txt and "partition" not in txt:
            ck.ob("R6-cem", q, "elites", False, f"mean' = {got.elems[0].canon()[:150]}", "the update does not select the n_elite best candidates by fitness", loc(fn._module, fn))
        else:
            raise AnalysisError(f"{q}: elite selection `{got.elems[0].canon()[:100]}` is none of the enumerated forms (unrecognised idiom)")
    q = "rl_blox.blox.cross_entropy_method.optimize_cem"
    fn = repo.func(q)
    mi = fn._module
    cfg = nf.cfg_of(fn)
    OP = param_names(fn)
    LO, UP = OP[7], OP[8]
    ck.need(LO == "lower_bound" and UP == "upper_bound", f"{q}: signature changed (anchor vanished)")

    def calls_of(target):
        return [(n, c) for n in cfg.nodes if n.ast is not None and n.kind == "stmt" for c in ast.walk(n.ast)
                if isinstance(c, ast.Call) and isinstance(c.func, (ast.Name, ast.Attribute)) and repo.resolve_expr(mi, c.func) == target]
    smp = calls_of("rl_blox.blox.cross_entropy_method.cem_sample")
    upd = calls_of("rl_blox.blox.cross_entropy_method.cem_update")
    ck.need(len(smp) == 1 and len(upd) == 1, f"{q}: expected one cem_sample and one cem_update call, found {len(smp)} / {len(upd)}")
    (sn, sc_), (un, uc) = smp[0], upd[0]
    sfn, ufn = repo.func("rl_blox.blox.cross_entropy_method.cem_sample"), repo.func("rl_blox.blox.cross_entropy_method.cem_update")
    sb, ub_ = bind_call(sfn, sc_), bind_call(ufn, uc)
    SP = param_names(sfn)
    scp = Scope(cfg, mi, {}, q)
    lo_p = nf.poly(sb[SP[4]], scp, sn.id).canon() if SP[4] in sb else None
    up_p = nf.poly(sb[SP[5]], scp, sn.id).canon() if SP[5] in sb else None
    lo_ok = lo_p in (LO, f"asarray({LO})", f"array({LO})")
    up_ok = up_p in (UP, f"asarray({UP})", f"array({UP})")
    if not (lo_ok and up_ok) and not ({lo_p, up_p} <= {LO, UP, f"asarray({LO})", f"asarray({UP})", f"array({LO})", f"array({UP})"}):
        raise AnalysisError(f"{q}: bounds passed to cem_sample are `{lo_p}`, `{up_p}` (unrecognised form)")
    ck.ob("R6-cem", q, "bounds-order", lo_ok and up_ok, f"cem_sample(.., lb={lo_p}, ub={up_p})", "" if lo_ok and up_ok else "optimize_cem must pass (lower, upper) bounds in this order", loc(mi, sc_))
    # the update ranks the samples that were evaluated
    UPn = param_names(ufn)
    s_arg, f_arg = ub_.get(UPn[0]), ub_.get(UPn[1])
    ck.need(isinstance(s_arg, ast.Name) and isinstance(f_arg, (ast.Name, ast.Call)), f"{q}: cem_update arguments (unrecognised form)")
    if isinstance(f_arg, ast.Name):
        fd = cfg.defs_of(un.id, f_arg.id)
        ck.need(len(fd) == 1 and fd[0].kind == "assign" and isinstance(fd[0].value, ast.Call), f"{q}: fitness values `{f_arg.id}` (unrecognised form)")
        fcall, f_at = fd[0].value, fd[0].node
    else:
        fcall, f_at = f_arg, un.id
    fit_ok = isinstance(fcall.func, ast.Name) and fcall.func.id == OP[0] and len(fcall.args) == 1 and isinstance(fcall.args[0], ast.Name)
    if not fit_ok:
        raise AnalysisError(f"{q}: fitness values come from `{short(fcall, 60)}` (unrecognised form)")
    same = fcall.args[0].id == s_arg.id and [d.node for d in cfg.defs_of(f_at, fcall.args[0].id)] == [d.node for d in cfg.defs_of(un.id, s_arg.id)]
    from_sample = [d.node for d in cfg.defs_of(un.id, s_arg.id)] == [sn.id]
    ok = same and from_sample
    ck.ob("R6-cem", q, "update-from-evaluated-samples", ok, f"`{short(fcall, 50)}`; `{short(uc, 70)}`", "" if ok else "the update must use the fitness of the very samples it ranks (the population drawn in this iteration)", loc(mi, uc))


def run(ck, repo: Repo, tier: str):
    nf = NF(repo, inline_depth=2)
    ck.guard(r1_weights, ck, repo, nf)
    ck.guard(r2_feedback_table, ck, repo, nf)
    ck.guard(r2_train_loop, ck, repo, nf)
    ck.guard(r34_update, ck, repo, nf)
    ck.guard(r7_covariance, ck, repo, nf)
    ck.guard(r5_flat_set, ck, repo, nf)
    ck.guard(r6_cem, ck, repo, nf)


_C, _X = "rl_blox/algorithm/cmaes.py", "rl_blox/blox/cross_entropy_method.py"
MUTANTS = [
    {"id": "c16-neg-update-var-scale", "file": _C, "rule": "R7", "find": "        neg_update /= sigma\n", "replace": "        neg_update /= state.var\n"},
    {"id": "c16-neg-update-centre", "file": _C, "rule": "R7", "find": "        neg_update -= state.last_mean\n", "replace": "        neg_update -= state.mean\n"},
    {"id": "c16-rank-one-asymmetric", "file": _C, "rule": "R7", "find": "    rank_one_update = jnp.outer(state.pc, state.pc)", "replace": "    rank_one_update = jnp.outer(state.pc, state.ps)"},
    {"id": "c16-incumbent-view", "file": _C, "rule": "R2", "edits": [("            population = Population.create(\n                samples=sample_population(config, state)\n            )\n", "            np.copyto(population.samples, sample_population(config, state))\n            population.fitness[:] = [np.inf] * len(population.fitness)\n"),
        ("        return cls(samples=samples, fitness=[np.inf] * len(samples))", "        return cls(samples=np.array(samples), fitness=[np.inf] * len(samples))")]},
    {"id": "c16-next-clipped", "file": _C, "rule": "R2", "find": "    return population.samples[k]", "replace": "    return jnp.clip(population.samples[k], -1.0, 1.0)"},
    {"id": "c16-feedback-steps", "file": _C, "rule": "R2", "find": "        set_evaluation_feedback(config, state, population, ret)", "replace": "        set_evaluation_feedback(config, state, population, step_counter)"},
    {"id": "c16-cem-stale-fitness", "file": _X, "rule": "R6", "edits": [("        f = fitness_function(samples)\n", "        f = fitness_function(mean[jnp.newaxis] + 0.0 * samples)\n")], "accept_error": True},
    {"id": "c16-flat-unfiltered", "file": _C, "rule": "R5", "nth": 0, "find": "    state = nnx.state(net, nnx.Param)", "replace": "    state = nnx.state(net)"},
    {"id": "c16-incumbent-it-after", "file": _C, "rule": "R2", "find": "    if fitness_k <= state.best_fitness:\n        state.best_fitness = fitness_k\n        state.best_fitness_it = state.it\n        state.best_params = population.samples[k]\n\n    state.it += 1",
     "replace": "    state.it += 1\n    if fitness_k <= state.best_fitness:\n        state.best_fitness = fitness_k\n        state.best_fitness_it = state.it\n        state.best_params = population.samples[k]"},
    {"id": "c16-weights-unnormalised", "file": _C, "rule": "R1", "find": "        weights = weights / jnp.sum(weights)\n", "replace": "        weights = weights / jnp.max(weights)\n"},
    {"id": "c16-weights-log", "file": _C, "rule": "R1", "find": "        weights = math.log(mu + 0.5) - jnp.log1p(jnp.arange(int(mu)))", "replace": "        weights = math.log(mu + 0.5) - jnp.log(jnp.arange(int(mu)) + 2)"},
    {"id": "c16-incumbent-ge", "file": _C, "rule": "R2", "find": "    if fitness_k <= state.best_fitness:", "replace": "    if fitness_k >= state.best_fitness:"},
    {"id": "c16-incumbent-params-prev", "file": _C, "rule": "R2", "find": "        state.best_params = population.samples[k]", "replace": "        state.best_params = population.samples[k - 1]"},
    {"id": "c16-incumbent-partial", "file": _C, "rule": "R2", "find": "        state.best_fitness_it = state.it\n        state.best_params = population.samples[k]\n\n    state.it += 1", "replace": "        state.best_fitness_it = state.it\n    state.best_params = population.samples[k]\n\n    state.it += 1"},
    {"id": "c16-no-negation", "file": _C, "rule": "R2", "find": "    if config.maximize:\n        fitness_k = -fitness_k\n", "replace": "    if config.maximize:\n        fitness_k = fitness_k\n"},
    {"id": "c16-k-after-increment", "file": _C, "rule": "R2", "find": "    k = state.it % config.n_samples_per_update\n    fitness_k = float(jnp.sum(feedback))", "replace": "    state.it += 1\n    k = state.it % config.n_samples_per_update\n    state.it -= 1\n    fitness_k = float(jnp.sum(feedback))"},
    {"id": "c16-mean-worst", "file": _C, "rule": "R3", "find": "    update_samples = samples[ranking[: config.mu]]", "replace": "    update_samples = samples[ranking[-config.mu :]]"},
    {"id": "c16-mean-unweighted", "file": _C, "rule": "R3", "find": "        config.weights[:, jnp.newaxis] * update_samples, axis=0\n    )", "replace": "        update_samples / config.mu, axis=0\n    )"},
    {"id": "c16-last-mean-after", "file": _C, "rule": "R3", "find": "    state.last_mean = state.mean\n    ranking = jnp.argsort(fitness, axis=0)\n    update_samples = samples[ranking[: config.mu]]\n    state.mean = jnp.sum(\n        config.weights[:, jnp.newaxis] * update_samples, axis=0\n    )\n",
     "replace": "    ranking = jnp.argsort(fitness, axis=0)\n    update_samples = samples[ranking[: config.mu]]\n    state.mean = jnp.sum(\n        config.weights[:, jnp.newaxis] * update_samples, axis=0\n    )\n    state.last_mean = state.mean\n"},
    {"id": "c16-cap-removed", "file": _C, "rule": "R4", "find": "    state.var = state.var * jnp.exp(min((0.6, log_step_size_update))) ** 2", "replace": "    state.var = state.var * jnp.exp(log_step_size_update) ** 2"},
    {"id": "c16-cap-value", "file": _C, "rule": "R4", "find": "min((0.6, log_step_size_update))", "replace": "min((6.0, log_step_size_update))"},
    {"id": "c16-set-filter", "file": _C, "rule": "R5", "nth": 1, "find": "    state = nnx.state(net, nnx.Param)", "replace": "    state = nnx.state(net)"},
    {"id": "c16-set-offset", "file": _C, "rule": "R5", "find": "        n_params_set += n_params_leaf", "replace": "        n_params_set += leaf.shape[0]"},
    {"id": "c16-reported-sign", "file": _C, "rule": "R2", "find": "    best_fitness = -state.best_fitness", "replace": "    best_fitness = state.best_fitness"},
    {"id": "c16-cem-worst-elites", "file": _X, "rule": "R6", "find": "    _, top_k = jax.lax.top_k(fitness, n_elite)", "replace": "    _, top_k = jax.lax.top_k(-fitness, n_elite)"},
    {"id": "c16-cem-bounds-swapped", "file": _X, "rule": "R6", "find": "        samples = cem_sample(mean, var, step_key, n_population, lb, ub)", "replace": "        samples = cem_sample(mean, var, step_key, n_population, ub, lb)"},
]
BENIGN = [
    {"id": "c16-b-scatter-broadcast", "file": _C, "find": "    rank_mu_update = noise.T.dot(jnp.diag(config.weights)).dot(noise)", "replace": "    rank_mu_update = (config.weights[:, jnp.newaxis] * noise).T.dot(noise)"},
    {"id": "c16-b-incumbent-copied", "file": _C, "edits": [("            population = Population.create(\n                samples=sample_population(config, state)\n            )\n", "            np.copyto(population.samples, sample_population(config, state))\n            population.fitness[:] = [np.inf] * len(population.fitness)\n"),
        ("        return cls(samples=samples, fitness=[np.inf] * len(samples))", "        return cls(samples=np.array(samples), fitness=[np.inf] * len(samples))"), ("        state.best_params = population.samples[k]", "        state.best_params = np.array(population.samples[k])")]},
    {"id": "c16-b-ifexp-cost", "file": _C, "find": "    fitness_k = float(jnp.sum(feedback))\n    if config.maximize:\n        fitness_k = -fitness_k\n", "replace": "    total = float(jnp.sum(feedback))\n    fitness_k = -total if config.maximize else total\n"},
    {"id": "c16-b-flat-comprehension", "file": _C, "find": "    flat_leaves = list(map(lambda x: x.ravel(), leaves))\n    return jnp.concatenate(flat_leaves, axis=0)", "replace": "    return jnp.concatenate([leaf.reshape(-1) for leaf in leaves])"},
    {"id": "c16-b-flatten-call", "file": _C, "nth": 1, "find": "    leaves = jax.tree_util.tree_leaves(state)\n    treedef = jax.tree_util.tree_structure(state)\n", "replace": "    leaves, treedef = jax.tree_util.tree_flatten(state)\n"},
    {"id": "c16-b-cem-kwargs", "file": _X, "find": "        mean, var = cem_update(samples, f, mean, var, n_elite, alpha)", "replace": "        mean, var = cem_update(samples=samples, fitness=fitness_function(samples), mean=mean, var=var, n_elite=n_elite, alpha=alpha)"},
    {"id": "c16-b-early-keep", "file": _C, "find": "    if fitness_k <= state.best_fitness:\n        state.best_fitness = fitness_k\n        state.best_fitness_it = state.it\n        state.best_params = population.samples[k]\n\n    state.it += 1",
     "replace": "    it = state.it\n    state.it = it + 1\n    if fitness_k > state.best_fitness:\n        return\n    state.best_fitness = fitness_k\n    state.best_fitness_it = it\n    state.best_params = population.samples[k]"},
    {"id": "c16-b-lt", "file": _C, "find": "    if fitness_k <= state.best_fitness:", "replace": "    if fitness_k < state.best_fitness:"},
    {"id": "c16-b-var-square", "file": _C, "find": "    state.var = state.var * jnp.exp(min((0.6, log_step_size_update))) ** 2", "replace": "    step = jnp.exp(min((0.6, log_step_size_update)))\n    state.var = state.var * step**2"},
    {"id": "c16-b-incumbent-order", "file": _C, "find": "        state.best_fitness = fitness_k\n        state.best_fitness_it = state.it\n", "replace": "        state.best_fitness_it = state.it\n        state.best_fitness = fitness_k\n"},
]
