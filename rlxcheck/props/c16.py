"""C16 - black-box optimisers keep their distribution and bookkeeping invariants (structural part)."""
from __future__ import annotations

import ast

from ..loops import dotted
from ..nf import NF, Scope, Poly, parse_expr
from ..repo import Repo, loc, short, AnalysisError, positional_params, param_names
from ..sympath import enumerate_paths, PathEval

EXPLANATION = (
    "Formula identities and bookkeeping structure of CMA-ES and CEM. Weights: w / sum(w) with w = log(mu + 1/2) - log1p(arange(floor(mu))) "
    "(normalisation decided; positivity / monotonicity are properties of log and are not decided). Incumbent: the three best_* fields are "
    "written only in set_evaluation_feedback, together, on the path `fitness_k <= best_fitness` (per-path evaluation), with the parameters of "
    "the same index k that was evaluated; maximisation negates the feedback once and train_cmaes un-negates the reported value. Mean "
    "recombination, last_mean and the step-size cap exp(min(0.6, .))^2 are polynomial identities of update_search_distribution. flat_params / "
    "set_params walk nnx.state(net, nnx.Param) leaves in the same order with consecutive slices of prod(leaf.shape). CEM: elites = top-k by "
    "fitness, convex update (shared with C10)."
)
TRUSTED = ["jax.tree_util.tree_leaves / tree_unflatten use one deterministic leaf order", "jnp.argsort ascending; jax.lax.top_k returns the k largest"]
RULES = {
    "R1-weights": "weights == w / sum(w), w == log(mu + 0.5) - log1p(arange(int(mu))), mu == n_samples_per_update / 2; config stores int(mu)",
    "R2-incumbent": "best_fitness / best_fitness_it / best_params are written only in set_evaluation_feedback, together, iff fitness_k <= best_fitness, from population.samples[k] with the k of population.fitness[k]; sign handling for maximisation",
    "R3-mean": "mean' == sum(weights[:,None] * samples[argsort(fitness)[:mu]], axis=0); last_mean' == old mean",
    "R4-step-size": "var' == var * exp(min(0.6, log_step_size_update))^2",
    "R5-flat-set": "flat_params and set_params use nnx.state(net, nnx.Param) leaves in tree_leaves order; consecutive slices of prod(leaf.shape) reshaped to leaf.shape; nnx.update(net, state)",
    "R6-cem": "elites == take(samples, top_k(fitness, n_elite).indices, axis=0); optimize_cem passes bounds (lb, ub) in order and stops on max(var) <= epsilon",
}

CM = "rl_blox.algorithm.cmaes."


def _env(fn):
    return {p: Poly.atom(p, {p}, {p}) for p in param_names(fn)}


def run(ck, repo: Repo, tier: str):
    nf = NF(repo, inline_depth=2)
    # ---- R1 weights ----------------------------------------------------------------------------------------
    m = repo.method(CM + "CMAESConfig", "create", inherited=False)
    ck.need(m is not None, "CMAESConfig.create not found")
    fn = m[1]
    mi = repo.cls(CM + "CMAESConfig")._module
    fn._module = mi
    cfg = nf.cfg_of(fn)
    env = {p: Poly.atom(p, {p}, {p}) for p in positional_params(fn)}
    sc = Scope(cfg, mi, env, CM + "CMAESConfig.create")
    ret = [n for n in cfg.nodes if n.kind == "stmt" and isinstance(n.ast, ast.Return)]
    ck.need(len(ret) == 1 and isinstance(ret[0].ast.value, ast.Call), "CMAESConfig.create: return cls(...) not found")
    kw = {k.arg: k.value for k in ret[0].ast.value.keywords}
    # n_samples_per_update may be defaulted: evaluate on the path where it is given
    paths = enumerate_paths(cfg, cfg.entry, {ret[0].id})
    wseen = set()
    for p in paths:
        pe = PathEval(nf, cfg, mi, CM + "CMAESConfig.create", env).run(p[:-1])
        w = pe.ev(kw["weights"]).canon()
        mu = pe.ev(kw["mu"]).canon()
        wseen.add((w, mu))
    sc0 = Scope(None, mi, env, "spec")
    okw = True
    for w, mu in wseen:
        for nspu in ("n_samples_per_update", "(4 + int(3 * math.log(n_params)))"):
            W = f"(math.log({nspu} / 2.0 + 0.5) - jnp.log1p(jnp.arange(int({nspu} / 2.0))))"
            want = nf.poly(parse_expr(f"{W} / jnp.sum({W})"), sc0, None).canon()
            wantmu = nf.poly(parse_expr(f"int({nspu} / 2.0)"), sc0, None).canon()
            if w == want and mu == wantmu:
                break
        else:
            okw = False
            ck.ob("R1-weights", CM + "CMAESConfig.create", "weights-form", False, f"weights = {w[:150]}; mu = {mu}", "weights must be the log-rank weights normalised by their sum, mu = int(population / 2)", loc(mi, fn))
    if okw:
        ck.ob("R1-weights", CM + "CMAESConfig.create", "weights-form", True, f"{len(wseen)} path form(s) == (log(mu+1/2) - log1p(arange(int(mu)))) / sum(.)", "", loc(mi, fn))

    # ---- R2 incumbent ------------------------------------------------------------------------------------------
    q = CM + "set_evaluation_feedback"
    fn = repo.func(q)
    mi = fn._module
    cfg = nf.cfg_of(fn)
    env = _env(fn)
    bests = ["state.best_fitness", "state.best_fitness_it", "state.best_params"]
    old = {b: Poly.atom("old." + b) for b in bests}
    old["state.it"] = Poly.atom("old.state.it")
    paths = enumerate_paths(cfg, cfg.entry, {cfg.exit})
    kinds = set()
    for p in paths:
        pe = PathEval(nf, cfg, mi, q, env)
        pe.store = dict(old)
        pe.run(p)
        conds = {" ".join(ast.unparse(cfg.nodes[n].ast.test).split()): lab for n, lab in p if cfg.nodes[n].kind == "test"}
        mx = conds.get("config.maximize")
        inc = next((lab for t, lab in conds.items() if "best_fitness" in t), None)
        ck.need(mx is not None and inc is not None, f"{q}: branch structure changed: {conds}")
        cmp_txt = next(t for t in conds if "best_fitness" in t)
        k = "mod(old.state.it, config.n_samples_per_update)"
        fk = ("-" if mx else "") + "sum(feedback)"
        fk = nf.poly(parse_expr(("-" if mx else "") + "float(jnp.sum(feedback))"), Scope(None, mi, env, q), None).canon()
        label = f"{'max' if mx else 'min'}/{'improve' if inc else 'keep'}"
        kinds.add(label)
        where = loc(mi, fn)
        got = {b: pe.store[b].canon() for b in bests}
        if inc:
            want = {bests[0]: fk, bests[1]: "old.state.it", bests[2]: f"population.samples[{k}]"}
        else:
            want = {b: old[b].canon() for b in bests}
        ok = got == want
        ck.ob("R2-incumbent", q, f"path:{label}", ok, f"{got}", "" if ok else f"expected {want}: the incumbent must be replaced as a whole by the evaluated candidate k (fitness, iteration, parameters) or kept as a whole", where)
        pf = pe.store.get(f"population.fitness[{k}]")
        ok = pf is not None and pf.canon() == fk
        ck.ob("R2-incumbent", q, f"path:{label}:records-fitness", ok, f"population.fitness[k] = {pf.canon() if pf is not None else None}", "" if ok else "the (sign-adjusted) fitness must be stored at the evaluated index k = it % population", where)
        it = pe.store.get("state.it")
        ok = it is not None and it == old["state.it"] + Poly.const(1)
        ck.ob("R2-incumbent", q, f"path:{label}:it+1", ok, f"state.it = {it.canon() if it is not None else None}", "" if ok else "the evaluation counter advances by one per feedback", where)
    cmp_node = next(n for n in cfg.nodes if n.kind == "test" and "best_fitness" in ast.unparse(n.ast.test))
    t = cmp_node.ast.test
    ok = isinstance(t, ast.Compare) and isinstance(t.ops[0], (ast.LtE, ast.Lt)) and dotted(t.left) == "fitness_k" and dotted(t.comparators[0]) == "state.best_fitness"
    ck.ob("R2-incumbent", q, "orientation", ok, f"if {ast.unparse(t)}", "" if ok else "the incumbent is replaced when the new (minimised) fitness is not worse: fitness_k <= best_fitness", loc(mi, t))
    ck.ob("R2-incumbent", q, "paths", kinds == {"max/improve", "max/keep", "min/improve", "min/keep"}, f"{sorted(kinds)}", "" if len(kinds) == 4 else "expected the four maximise x improve paths", loc(mi, fn))
    # writers of best_* elsewhere
    for qual, f2, mi2 in repo.all_functions():
        if not qual.startswith(CM) or qual == q or qual.endswith("CMAESState.create"):
            continue
        for n in ast.walk(f2):
            if isinstance(n, (ast.Assign, ast.AugAssign)):
                tg = n.targets[0] if isinstance(n, ast.Assign) else n.target
                if isinstance(tg, ast.Attribute) and tg.attr in ("best_fitness", "best_fitness_it", "best_params") and dotted(tg).startswith("state."):
                    ck.ob("R2-incumbent", qual, f"foreign-writer:{tg.attr}", False, short(n), "the incumbent may only be written by set_evaluation_feedback", loc(mi2, n))
    # train_cmaes un-negates and maximises
    q = CM + "train_cmaes"
    fn = repo.func(q)
    txt = "\n".join(ast.unparse(s) for s in fn.body)
    ok = "best_fitness = -state.best_fitness" in txt and "maximize=True" in txt
    ck.ob("R2-incumbent", q, "reported-sign", ok, "maximize=True and best_fitness = -state.best_fitness", "" if ok else "returns are maximised through negation; the reported best fitness must be un-negated", loc(fn._module, fn))
    ok = "set_evaluation_feedback(config, state, population, ret)" in txt and "set_params(policy, get_next_parameters(config, state, population))" in txt
    ck.ob("R2-incumbent", q, "evaluates-what-it-sets", ok, "set_params(policy, next candidate) ... set_evaluation_feedback(.., ret)", "" if ok else "each episode must evaluate the candidate that was written into the policy", loc(fn._module, fn))
    gq = CM + "get_next_parameters"
    g = nf.return_poly(gq, _env(repo.func(gq))).canon()
    ok = g == "population.samples[mod(state.it, config.n_samples_per_update)]"
    ck.ob("R2-incumbent", gq, "same-index-as-feedback", ok, f"return {g}", "" if ok else "the candidate handed out must be the one whose feedback index is it % population", loc(repo.func(gq)._module, repo.func(gq)))

    # ---- R3 / R4 update_search_distribution ------------------------------------------------------------------------
    q = CM + "update_search_distribution"
    fn = repo.func(q)
    mi = fn._module
    cfg = nf.cfg_of(fn)
    env = _env(fn)
    olds = {k: Poly.atom("old." + k) for k in ("state.mean", "state.last_mean", "state.var", "state.ps", "state.pc", "state.cov", "state.invsqrtC", "state.it", "state.eigen_decomp_updated")}
    paths = enumerate_paths(cfg, cfg.entry, {cfg.exit})
    ck.count("update-paths", len(paths))
    sc0 = Scope(None, mi, {**env, **{k.replace(".", "_"): v for k, v in olds.items()}}, q)
    want_mean = nf.poly(parse_expr("jnp.sum(config.weights[:, jnp.newaxis] * population.samples[jnp.argsort(jnp.asarray(population.fitness), axis=0)[:config.mu]], axis=0)"), sc0, None)
    done = set()
    for p in paths:
        pe = PathEval(nf, cfg, mi, q, env)
        pe.store = dict(olds)
        pe.run(p)
        mean, last, var = pe.store["state.mean"], pe.store["state.last_mean"], pe.store["state.var"]
        key = (mean.canon(), last.canon(), var.canon())
        if key in done:
            continue
        done.add(key)
        ok = mean == want_mean
        ck.ob("R3-mean", q, "recombination", ok, f"mean' = {mean.canon()[:150]}", "" if ok else f"must be the weight-averaged best mu candidates: {want_mean.canon()[:120]}", loc(mi, fn))
        ok = last == olds["state.mean"]
        ck.ob("R3-mean", q, "last-mean", ok, f"last_mean' = {last.canon()}", "" if ok else "last_mean must hold the mean before this update", loc(mi, fn))
        v = var.canon()
        ok = False
        if len(var.terms) == 1:
            (mono, c), = var.terms.items()
            d = dict(mono)
            others = [a for a in d if a != "old.state.var"]
            ok = c == 1 and d.get("old.state.var") == 1 and len(others) == 1 and d[others[0]] == 2 and others[0].startswith("exp(min((3/5, ") and "log_step" not in others[0]
            if ok:
                inner = nf.meta.get(others[0], {}).get("args", [None])[0]
                ok = inner is not None and (inner.single_atom() or "").startswith("min((3/5, ")
        ck.ob("R4-step-size", q, "capped-growth", ok, f"var' = {v[:150]}", "" if ok else "must be var * exp(min(0.6, log_step_size_update))**2: the step size grows by at most exp(0.6) per update", loc(mi, fn))

    # ---- R5 flat / set ------------------------------------------------------------------------------------------------
    fq, sq = CM + "flat_params", CM + "set_params"
    f, s = repo.func(fq), repo.func(sq)
    ft = "\n".join(ast.unparse(x) for x in f.body if not (isinstance(x, ast.Expr) and isinstance(x.value, ast.Constant)))
    st = "\n".join(ast.unparse(x) for x in s.body if not (isinstance(x, ast.Expr) and isinstance(x.value, ast.Constant)))
    ok = "state = nnx.state(net, nnx.Param)" in ft and "leaves = jax.tree_util.tree_leaves(state)" in ft and "x.ravel()" in ft and "jnp.concatenate(flat_leaves, axis=0)" in ft
    ck.ob("R5-flat-set", fq, "leaf-order-and-ravel", ok, "nnx.state(net, nnx.Param) -> tree_leaves -> ravel -> concatenate", "" if ok else "flat_params must concatenate the raveled Param leaves in tree_leaves order", loc(f._module, f))
    ok = "state = nnx.state(net, nnx.Param)" in st and "leaves = jax.tree_util.tree_leaves(state)" in st and "treedef = jax.tree_util.tree_structure(state)" in st and \
        "jax.tree_util.tree_unflatten(treedef, new_leaves)" in st and "nnx.update(net, state)" in st
    ck.ob("R5-flat-set", sq, "same-filter-and-order", ok, "nnx.state(net, nnx.Param) -> tree_leaves / tree_structure -> tree_unflatten -> nnx.update", "" if ok else "set_params must use the same Param filter and leaf order as flat_params and write back with nnx.update", loc(s._module, s))
    # slicing loop: consecutive slices
    lp = next((n for n in s.body if isinstance(n, ast.For)), None)
    ck.need(lp is not None, f"{sq}: leaf loop not found")
    cfg = nf.cfg_of(s)
    hdr = cfg.stmt_node[id(lp)]
    env0 = {**_env(s), "n_params_set": Poly.atom("OFF"), "new_leaves": Poly.atom("L")}
    paths = enumerate_paths(cfg, hdr, {hdr}, first_label=True)
    ck.need(len(paths) == 1, f"{sq}: loop body not straight-line")
    pe = PathEval(nf, cfg, s._module, sq, env0).run(paths[0][:-1])
    leaf = lp.target.id
    off = pe.env["n_params_set"].canon()
    ok = off == f"OFF + prod({pe.env[leaf].canon()}.shape)"
    ck.ob("R5-flat-set", sq, "offset-advance", ok, f"offset' = {off}", "" if ok else "the read offset must advance by prod(leaf.shape) per leaf", loc(s._module, lp))
    app = [v for (nid, t, v) in pe.log if t == "<expr>" and ".append(" in v.canon()]
    a = app[0].canon() if app else ""
    want = f"L.append(reshape(params[OFF:OFF + prod({pe.env[leaf].canon()}.shape)], {pe.env[leaf].canon()}.shape))"
    ok = a == want
    ck.ob("R5-flat-set", sq, "slice-and-reshape", ok, f"{a[:140]}", "" if ok else f"each leaf must take the slice [offset, offset+size) reshaped to its shape: {want}", loc(s._module, lp))

    # ---- R6 CEM ------------------------------------------------------------------------------------------------------------
    q = "rl_blox.blox.cross_entropy_method.cem_update"
    fn = repo.func(q)
    nf6 = NF(repo, inline_depth=3)
    got = nf6.return_poly(q, _env(fn))
    ck.need(got.elems is not None and len(got.elems) == 2, f"{q}: must return (mean, var)")
    sc6 = Scope(None, fn._module, _env(fn), q)
    elite_specs = ["jnp.take(samples, jax.lax.top_k(fitness, n_elite)[1], axis=0)", "samples[jax.lax.top_k(fitness, n_elite)[1]]", "samples[jnp.argsort(fitness)[-n_elite:]]", "samples[jnp.argsort(-fitness)[:n_elite]]"]
    okm = any(got.elems[0] == nf6.poly(parse_expr(f"alpha * mean + (1.0 - alpha) * jnp.mean({e}, axis=0)"), sc6, None) for e in elite_specs)
    okv = any(got.elems[1] == nf6.poly(parse_expr(f"alpha * var + (1.0 - alpha) * jnp.var({e}, axis=0)"), sc6, None) for e in elite_specs)
    if okm and okv:
        ck.ob("R6-cem", q, "elites", True, f"mean' = {got.elems[0].canon()[:130]}", "", loc(fn._module, fn))
    else:
        txt = got.elems[0].canon() + " " + got.elems[1].canon()
        thresholded = any(t in txt for t in ("LtE(", "Lt(", "GtE(", "Gt(")) and "fitness" in txt
        if thresholded:
            ck.ob("R6-cem", q, "elites", False, f"mean' = {got.elems[0].canon()[:150]}",
                  "the elite set is defined by a fitness threshold (comparison), not by selecting n_elite candidates: with tied fitness values more than n_elite candidates enter the update", loc(fn._module, fn))
        elif "top_k(-fitness" in txt or "argsort(fitness)[:n_elite]" in txt or "argsort(-fitness)[-n_elite:]" in txt:
            ck.ob("R6-cem", q, "elites", False, f"mean' = {got.elems[0].canon()[:150]}", "the update uses the n_elite candidates with the *smallest* fitness (CEM here is a maximiser)", loc(fn._module, fn))
        elif "top_k" not in txt and "argsort" not in txt:
            ck.ob("R6-cem", q, "elites", False, f"mean' = {got.elems[0].canon()[:150]}", "the update does not select the n_elite best candidates by fitness", loc(fn._module, fn))
        else:
            raise AnalysisError(f"{q}: elite selection `{got.elems[0].canon()[:100]}` is none of the enumerated forms (unrecognised idiom)")
    q = "rl_blox.blox.cross_entropy_method.optimize_cem"
    fn = repo.func(q)
    txt = "\n".join(ast.unparse(x) for x in fn.body)
    ok = "samples = cem_sample(mean, var, step_key, n_population, lb, ub)" in txt and "lb = jnp.asarray(lower_bound)" in txt and "ub = jnp.asarray(upper_bound)" in txt
    ck.ob("R6-cem", q, "bounds-order", ok, "cem_sample(mean, var, key, n_population, lb, ub)", "" if ok else "optimize_cem must pass (lower, upper) bounds in this order", loc(fn._module, fn))
    ok = "mean, var = cem_update(samples, f, mean, var, n_elite, alpha)" in txt and "f = fitness_function(samples)" in txt
    ck.ob("R6-cem", q, "update-from-evaluated-samples", ok, "f = fitness(samples); mean, var = cem_update(samples, f, mean, var, n_elite, alpha)", "" if ok else "the update must use the fitness of the very samples it ranks", loc(fn._module, fn))


_C, _X = "rl_blox/algorithm/cmaes.py", "rl_blox/blox/cross_entropy_method.py"
MUTANTS = [
    {"id": "c16-weights-unnormalised", "file": _C, "rule": "R1", "find": "        weights = weights / jnp.sum(weights)\n", "replace": "        weights = weights / jnp.max(weights)\n"},
    {"id": "c16-weights-log", "file": _C, "rule": "R1", "find": "        weights = math.log(mu + 0.5) - jnp.log1p(jnp.arange(int(mu)))", "replace": "        weights = math.log(mu + 0.5) - jnp.log(jnp.arange(int(mu)) + 2)"},
    {"id": "c16-incumbent-ge", "file": _C, "rule": "R2", "find": "    if fitness_k <= state.best_fitness:", "replace": "    if fitness_k >= state.best_fitness:"},
    {"id": "c16-incumbent-params-prev", "file": _C, "rule": "R2", "find": "        state.best_params = population.samples[k]", "replace": "        state.best_params = population.samples[k - 1]"},
    {"id": "c16-incumbent-partial", "file": _C, "rule": "R2", "find": "        state.best_fitness_it = state.it\n        state.best_params = population.samples[k]\n\n    state.it += 1", "replace": "        state.best_fitness_it = state.it\n    state.best_params = population.samples[k]\n\n    state.it += 1"},
    {"id": "c16-no-negation", "file": _C, "rule": "R2", "find": "    if config.maximize:\n        fitness_k = -fitness_k\n", "replace": "    if config.maximize:\n        fitness_k = fitness_k\n"},
    {"id": "c16-k-after-increment", "file": _C, "rule": "R2", "find": "    k = state.it % config.n_samples_per_update\n    fitness_k = float(jnp.sum(feedback))", "replace": "    state.it += 1\n    k = state.it % config.n_samples_per_update\n    state.it -= 1\n    fitness_k = float(jnp.sum(feedback))"},
    {"id": "c16-mean-worst", "file": _C, "rule": "R3", "find": "    update_samples = samples[ranking[: config.mu]]", "replace": "    update_samples = samples[ranking[-config.mu :]]"},
    {"id": "c16-mean-unweighted", "file": _C, "rule": "R3", "find": "        config.weights[:, jnp.newaxis] * update_samples, axis=0\n    )", "replace": "        update_samples / config.mu, axis=0\n    )"},
    {"id": "c16-last-mean-after", "file": _C, "rule": "R3", "find": "    state.last_mean = state.mean\n    ranking = jnp.argsort(fitness, axis=0)\n    update_samples = samples[ranking[: config.mu]]\n    state.mean = jnp.sum(\n        config.weights[:, jnp.newaxis] * update_samples, axis=0\n    )\n",
     "replace": "    ranking = jnp.argsort(fitness, axis=0)\n    update_samples = samples[ranking[: config.mu]]\n    state.mean = jnp.sum(\n        config.weights[:, jnp.newaxis] * update_samples, axis=0\n    )\n    state.last_mean = state.mean\n"},
    {"id": "c16-cap-removed", "file": _C, "rule": "R4", "find": "    state.var = state.var * jnp.exp(min((0.6, log_step_size_update))) ** 2", "replace": "    state.var = state.var * jnp.exp(log_step_size_update) ** 2"},
    {"id": "c16-cap-value", "file": _C, "rule": "R4", "find": "min((0.6, log_step_size_update))", "replace": "min((6.0, log_step_size_update))"},
    {"id": "c16-set-filter", "file": _C, "rule": "R5", "nth": 1, "find": "    state = nnx.state(net, nnx.Param)", "replace": "    state = nnx.state(net)"},
    {"id": "c16-set-offset", "file": _C, "rule": "R5", "find": "        n_params_set += n_params_leaf", "replace": "        n_params_set += leaf.shape[0]"},
    {"id": "c16-reported-sign", "file": _C, "rule": "R2", "find": "    best_fitness = -state.best_fitness", "replace": "    best_fitness = state.best_fitness"},
    {"id": "c16-cem-worst-elites", "file": _X, "rule": "R6", "find": "    _, top_k = jax.lax.top_k(fitness, n_elite)", "replace": "    _, top_k = jax.lax.top_k(-fitness, n_elite)"},
    {"id": "c16-cem-bounds-swapped", "file": _X, "rule": "R6", "find": "        samples = cem_sample(mean, var, step_key, n_population, lb, ub)", "replace": "        samples = cem_sample(mean, var, step_key, n_population, ub, lb)"},
]
BENIGN = [
    {"id": "c16-b-lt", "file": _C, "find": "    if fitness_k <= state.best_fitness:", "replace": "    if fitness_k < state.best_fitness:"},
    {"id": "c16-b-var-square", "file": _C, "find": "    state.var = state.var * jnp.exp(min((0.6, log_step_size_update))) ** 2", "replace": "    step = jnp.exp(min((0.6, log_step_size_update)))\n    state.var = state.var * step**2"},
    {"id": "c16-b-incumbent-order", "file": _C, "find": "        state.best_fitness = fitness_k\n        state.best_fitness_it = state.it\n", "replace": "        state.best_fitness_it = state.it\n        state.best_fitness = fitness_k\n"},
]
