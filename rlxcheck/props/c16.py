"""C16 - black-box optimisers keep their distribution and bookkeeping invariants (structural part)."""
from __future__ import annotations

import ast
import re

from ..expand import load_known
from ..loops import dotted, find_env_loop
from ..nf import NF, Scope, Poly, parse_expr
from ..repo import Repo, loc, short, AnalysisError, param_names, bind_call
from ..sem import OrderModel, Unknown, eval_order_formula, summarise_paths, active_summaries, same_ingredients, ingredient_tokens, result_position, split_conditional_assignments, with_callees_inlined
from ..sympath import enumerate_paths, PathEval

EXPLANATION = (
    "Formula identities and bookkeeping structure of CMA-ES and CEM. Weights: w / sum(w) with w = log(mu + 1/2) - log1p(arange(floor(mu))) "
    "(normalisation decided; positivity / monotonicity are properties of log and are not decided). Incumbent: set_evaluation_feedback only "
    "compares its quantities, so it is compared with the documented table in a finite order model (worlds over {sum(feedback), best} and the "
    "maximise flag): in every world the enabled path stores the sign-adjusted fitness at index it % population, advances it by one and "
    "replaces the incumbent as a whole (fitness, iteration, parameters of that same index) when the candidate is better, keeps it as a whole "
    "when it is worse. train_cmaes evaluates the candidate it wrote into the policy and reports the un-negated best fitness. The evaluated "
    "point and the point that enters the mean are one value: get_next_parameters (and the training loop) hand out the stored row; a projection "
    "applied at hand-out is compared, as a normal form and path by path (`bounds is None` guards correlated), with what sample_population stores. Mean "
    "recombination, last_mean and the step-size cap are normal-form identities of update_search_distribution evaluated per path. flat_params / "
    "set_params are read as dataflow terms: both walk the leaves of nnx.state(net, nnx.Param) in pytree order, one concatenating the raveled "
    "leaves, the other cutting consecutive slices of prod(leaf.shape) (loop-carried offset evaluated symbolically). CEM: elites = top-k by "
    "fitness, convex update (shared with C10); optimize_cem binds bounds and evaluated samples by signature and reaching definitions."
)
TRUSTED = ["jax.tree_util.tree_leaves / tree_flatten / tree_unflatten use one deterministic leaf order", "jnp.argsort ascending; jax.lax.top_k returns the k largest",
           "entries of the population are distinct objects (samples[i] and samples[j] differ for i != j)"]
RULES = {
    "R1-weights": "weights == w / sum(w), w == log(mu + 0.5) - log1p(arange(int(mu))), mu == n_samples_per_update / 2; config stores int(mu)",
    "R2-incumbent": "order-world table of set_evaluation_feedback: fitness[k] := +-sum(feedback), it += 1, incumbent (fitness, iteration, samples[k]) replaced as a whole iff the candidate is better (ties free), k = it % population; "
                    "best_* written nowhere else; train_cmaes sets the candidate it evaluates and un-negates the reported value; the evaluated point is the stored sample: get_next_parameters / the training loop hand out "
                    "samples[k] as it is (a projection around it is accepted only when sample_population already stores rows projected in the same way, and is a violation when the stored rows are the raw draw that the mean recombines); "
                    "best_params is the stored row or the value handed out for it; `config.<field> is None` guards are free booleans of the table",
    "R3-mean": "mean' == sum(weights[:,None] * samples[argsort(fitness)[:mu]], axis=0); last_mean' == old mean",
    "R4-step-size": "var' == var * exp(min(0.6, log_step_size_update))^2",
    "R7-covariance-form": "cov' == scalar * cov + c * outer(p, p) + c' * X^T diag(w) X [- c'' * Y^T diag(w) Y]: every added term is symmetric by construction, and the negative (active) quadratic form is the positive one with the worst mu candidates in place of the best (same centre, same step-size scaling, same weights)",
    "R5-flat-set": "flat_params and set_params use nnx.state(net, nnx.Param) leaves in tree_leaves order; consecutive slices of prod(leaf.shape) reshaped to leaf.shape; nnx.update(net, state)",
    "R6-cem": "elites == take(samples, top_k(fitness, n_elite).indices, axis=0); optimize_cem passes bounds (lb, ub) in order and updates from the fitness of the very samples it ranks; "
              "cem_sample proposes Z * S + mean with |Z| <= T and T * S <= distance to either bound (or clips to (lb, ub)): a floor under S / a missing cap is a violation with a numeric witness (reading shared with C10)",
}

CM = "rl_blox.algorithm.cmaes."
BEST_FIELDS = ("best_fitness", "best_fitness_it", "best_params")


def _env(fn):
    return {p: Poly.atom(p, {p}, {p}) for p in param_names(fn)}


_UNREAD = re.compile(r"φ\(|⟦|__i\d+")


def _unread(*values) -> bool:
    """Does one of the values contain something the engine could not read (a merge of definitions, an opaque comprehension / lambda, a
    temporary of the helper expander that was never bound)?  A comparison that fails on such a value is not evidence of a difference."""
    return any(v is not None and _UNREAD.search(v.canon() if isinstance(v, Poly) else str(v)) for v in values)


def _evident(site, what, *values):
    if _unread(*values):
        raise AnalysisError(f"{site}: {what} contains a part that was not read (unrecognised form)")


def _undecided(ck, msg):
    """Record an undecided detail without abandoning the rest of the rule group (same channel as ck.guard)."""
    ck.incomplete.append(msg)


def _is_tuple_record(repo, qual) -> bool:
    """Is ``qual`` a record whose instances are tuples (typing.NamedTuple class / namedtuple(...) assignment)?  A dataclass is not:
    it can be neither unpacked nor indexed by position."""
    try:
        node = repo.lookup(qual)[1]
    except Exception:
        return False
    if isinstance(node, ast.ClassDef):
        if any(isinstance(m, ast.FunctionDef) and m.name in ("__getitem__", "__iter__", "__len__") for m in node.body):
            return False        # positional reads are redefined
        return any((isinstance(b, ast.Name) and b.id == "NamedTuple") or (isinstance(b, ast.Attribute) and b.attr == "NamedTuple") for b in node.bases) and NF._record_fields(node) is not None
    return isinstance(node, ast.Assign) and NF._record_fields(node) is not None


class _NF16(NF):
    """Normal forms in which a positional read of a tuple record that was built in reach is the constructor argument of that position:
    `Rec(a, b)[1] == b`, `x, y = Rec(a, b)` binds x to a and y to b (the record is a value carrier between a helper and its caller,
    exactly as its field reads `Rec(a, b).second` already are)."""

    def _project(self, p, path):
        for i in path:
            m_ = self.meta.get(p.single_atom() or "", {}) if p.elems is None else {}
            args = m_.get("args") or []
            if isinstance(i, int) and not isinstance(i, bool) and m_.get("record") and len(args) == len(m_["record"]) and not m_.get("kws") \
                    and -len(args) <= i < len(args) and _is_tuple_record(self.repo, m_.get("fn", "")):
                p = args[i]
            else:
                p = super()._project(p, (i,))
        return p

    def _e_Subscript(self, e, sc, at, depth):
        # rec[-1] of a tuple record built in reach: the position counted from the end
        sl = e.slice
        if isinstance(sl, ast.UnaryOp) and isinstance(sl.op, ast.USub) and isinstance(sl.operand, ast.Constant) and type(sl.operand.value) is int:
            base = self.poly(e.value, sc, at, depth)
            m_ = self.meta.get(base.single_atom() or "", {}) if base.elems is None else {}
            if m_.get("record") and _is_tuple_record(self.repo, m_.get("fn", "")):
                return self._project(base, (-sl.operand.value,))
        return super()._e_Subscript(e, sc, at, depth)


# ---- R1 ------------------------------------------------------------------------------------------------------------------------------------
NOT_A_SUM = ("max", "min", "amax", "amin", "mean", "median", "prod", "len", "size", "std", "var", "norm")


def _constructor_fields(repo, owner):
    """Field names of a (data)class in constructor order, base classes first."""
    out = []
    for cq in reversed(repo.mro(owner)):
        for ch in repo.cls(cq).body:
            if isinstance(ch, ast.AnnAssign) and isinstance(ch.target, ast.Name) and ch.target.id not in out:
                out.append(ch.target.id)
    return out


def r1_weights(ck, repo, nf):
    m = repo.method(CM + "CMAESConfig", "create")
    ck.need(m is not None, "CMAESConfig.create not found")
    owner, fn = m
    mi = repo.cls(owner)._module
    fn._module = mi
    cfg = nf.cfg_of(fn)
    env = _env(fn)
    P = param_names(fn)
    if P and P[0] in ("cls", "self"):
        P = P[1:]
    ck.need(len(P) >= 8, "CMAESConfig.create: signature changed (anchor vanished)")
    NPAR, NSPU = P[6], P[7]           # n_params, n_samples_per_update by their position in the recorded signature
    ret = [n for n in cfg.nodes if n.kind == "stmt" and isinstance(n.ast, ast.Return)]
    ck.need(len(ret) == 1 and isinstance(ret[0].ast.value, ast.Call), "CMAESConfig.create: return cls(...) not found")
    rc = ret[0].ast.value
    kw = {k.arg: k.value for k in rc.keywords if k.arg}
    if rc.args and not any(isinstance(a_, ast.Starred) for a_ in rc.args):
        kw = {**dict(zip(_constructor_fields(repo, CM + "CMAESConfig"), rc.args)), **kw}
    # fields handed over as `**record._asdict()`: the record's class gives the names, the path evaluation the values
    spread = {}
    for k in rc.keywords:
        v = k.value
        if k.arg is None and isinstance(v, ast.Call) and isinstance(v.func, ast.Attribute) and v.func.attr == "_asdict" and not v.args and not v.keywords and isinstance(v.func.value, ast.Name):
            ds = cfg.defs_of(ret[0].id, v.func.value.id)
            c_ = ds[0].value if len(ds) == 1 and ds[0].kind == "assign" else None
            r_ = repo.resolve_expr(mi, c_.func) if isinstance(c_, ast.Call) and isinstance(c_.func, (ast.Name, ast.Attribute)) else None
            fields = NF._record_fields(repo.lookup(r_)[1]) if r_ and repo.has(r_) else None
            for i, f_ in enumerate(fields or []):
                spread[f_] = (v.func.value, i, len(fields), r_)
    ck.need(all(f_ in kw or f_ in spread for f_ in ("weights", "mu")), "CMAESConfig.create: the weights / mu fields of the returned configuration were not found (unrecognised form)")
    # n_samples_per_update may be defaulted: evaluate on the path where it is given
    paths = enumerate_paths(cfg, cfg.entry, {ret[0].id})
    wseen = set()
    for p in paths:
        pe = PathEval(nf, cfg, mi, CM + "CMAESConfig.create", env).run(p[:-1])

        def field(f_):
            if f_ in kw:
                return pe.ev(kw[f_])
            rec, i, n_, cls_ = spread[f_]
            rm_ = nf.meta.get(pe.ev(rec).single_atom() or "", {})       # the constructor call of the record: field -> value
            ck.need(rm_.get("fn") == cls_ and f_ in (rm_.get("record") or {}), f"CMAESConfig.create: the record `{rec.id}` that carries `{f_}` is not read (unrecognised form)")
            return rm_["record"][f_]
        wseen.add((field("weights"), field("mu")))
    sc0 = Scope(None, mi, env, "spec")
    where = loc(mi, fn)
    site = CM + "CMAESConfig.create"
    for w, mu in wseen:
        nums, mus = [], []
        for nspu in (NSPU, f"(4 + int(3 * math.log({NPAR})))"):
            # log1p(r) == log(1 + r): both spellings of the log-rank numerator
            for ranks in ("jnp.log1p(jnp.arange(int({n} / 2.0)))", "jnp.log(jnp.arange(int({n} / 2.0)) + 1.0)"):
                nums.append(nf.poly(parse_expr(f"(math.log({nspu} / 2.0 + 0.5) - {ranks.format(n=nspu)})"), sc0, None))
                mus.append(nf.poly(parse_expr(f"int({nspu} / 2.0)"), sc0, None))
        # w == N / g: the atom that divides every monomial
        common = None
        for mono in w.terms:
            neg = {a for a, k in mono if k == -1}
            common = neg if common is None else common & neg
        common = sorted(common or [])
        if len(common) == 1:
            g = common[0]
            N = w * Poly.atom(g)
            wg = nf.poly(parse_expr("jnp.sum(NUM)"), Scope(None, mi, {"NUM": N}, "spec"), None)
            want_g = wg.single_atom() or f"({wg.canon()})"
            gm = nf.meta.get(g, {})
            if g == want_g:
                ck.ob("R1-weights", site, "sum-to-one", True, "weights = N / sum(N)", "", where)
            elif not _unread(w) and ((gm.get("fn", "").split(".")[-1] in NOT_A_SUM and gm.get("args") and gm["args"][0] == N) or same_ingredients(Poly.atom(g), wg, NOT_A_SUM)):
                # positive evidence: the divisor is another reduction of the same numerator / is built from the numerator's ingredients only
                ck.ob("R1-weights", site, "sum-to-one", False, f"weights = N / {g[:60]}", "the weights must be normalised by their own sum (they do not sum to one)", where)
            else:
                raise AnalysisError(f"{site}: weights `{w.canon()[:100]}` are divided by `{g[:60]}` (unrecognised form)")
        elif len(common) == 0 and not _unread(w) and any(same_ingredients(w, n_) for n_ in nums):
            N = w
            ck.ob("R1-weights", site, "sum-to-one", False, f"weights = {w.canon()[:100]}", "the weights are not normalised by their sum", where)
        else:
            raise AnalysisError(f"{site}: weights `{w.canon()[:100]}` (unrecognised form)")
        okn = any(N == n_ and mu == m_ for n_, m_ in zip(nums, mus))
        if not okn and (_unread(N, mu) or not (any(same_ingredients(N, n_) for n_ in nums) and any(same_ingredients(mu, m_) for m_ in mus))):
            raise AnalysisError(f"{site}: unnormalised weights `{N.canon()[:100]}`, mu `{mu.canon()[:40]}` (unrecognised form)")
        ck.ob("R1-weights", site, "log-rank-form", okn, f"N = {N.canon()[:120]}; mu = {mu.canon()}", "" if okn else "the unnormalised weights must be log(mu + 1/2) - log1p(arange(int(mu))) with mu = population / 2 (positive, decreasing), mu stored as int", where)


# ---- R2 ------------------------------------------------------------------------------------------------------------------------------------
def r2_feedback_table(ck, repo, nf):
    q = CM + "set_evaluation_feedback"
    fn0 = repo.func(q)
    # a sibling routine of the module that the feedback calls (e.g. get_next_parameters for the evaluated point) is read like its body
    fn = split_conditional_assignments(with_callees_inlined(repo, fn0, q) or fn0)
    mi = fn0._module
    fn._module = mi
    cfg = nf.cfg_of(fn)
    ck._keep = getattr(ck, "_keep", []) + [fn]      # the CFG cache is keyed by id(fn)
    params = param_names(fn)
    ck.need(len(params) >= 4, f"{q}: signature changed (anchor vanished)")
    CONF, ST, POP, FB = params[:4]
    env = _env(fn)
    old = {f"{ST}.{b}": Poly.atom(f"old.{ST}.{b}") for b in BEST_FIELDS + ("it",)}
    spec = PathEval(nf, cfg, mi, q, env)
    spec.store = dict(old)
    F = spec.ev(parse_expr(f"float(jnp.sum({FB}))"))
    MX = spec.ev(parse_expr(f"{CONF}.maximize"))
    K = spec.ev(parse_expr(f"{ST}.it % {CONF}.n_samples_per_update"))
    CAND = spec.ev(parse_expr(f"{POP}.samples[{ST}.it % {CONF}.n_samples_per_update]"))
    # row k of the (population, parameters) matrix: samples[k] == samples[k, :] == samples[k, ...]
    CAND_ROWS = [spec.ev(parse_expr(f"{POP}.samples[{ST}.it % {CONF}.n_samples_per_update, {rest}]")) for rest in (":", "...")]
    BEST, IT = old[f"{ST}.best_fitness"], old[f"{ST}.it"]
    model = OrderModel()
    model.cluster([F, BEST])
    model.cluster([-F, BEST])
    model.cluster([MX, Poly.const(0)])
    for sign_, ci in ((F, 0), (-F, 1)):
        mn = spec.nf.poly(parse_expr("min(A, B)"), Scope(None, mi, {"A": sign_, "B": BEST}, q), None)
        if mn.single_atom():
            model.derive(mn.single_atom(), "min", ci, 0, 1)
    sums = summarise_paths(nf, cfg, mi, q, env, old)
    ck.floor("feedback-paths", len(sums), 2)
    # the evaluated point: what get_next_parameters hands out for this very state (its paths, over the objects of this function)
    gq_ = CM + "get_next_parameters"
    gfn_ = split_conditional_assignments(repo.func(gq_))
    ck._keep.append(gfn_)
    gpar_ = param_names(gfn_)
    try:
        gsums = summarise_paths(nf, nf.cfg_of(gfn_), gfn_._module, gq_, _mapped_env(gfn_, [CONF, ST, POP]), {f"{gpar_[1]}.{b}": v_ for b in BEST_FIELDS + ("it",) for v_ in [old[f"{ST}.{b}"]]}) if len(gpar_) >= 3 else []
    except AnalysisError:
        gsums = []
    # guard clauses on optional fields of the configuration (`config.bounds is None`): the field is an input that the routine does not
    # write, so the outcome of the test is a free boolean of the model
    written = {dotted(t_) for n_ in ast.walk(fn) if isinstance(n_, (ast.Assign, ast.AugAssign, ast.AnnAssign)) for t_ in (n_.targets if isinstance(n_, ast.Assign) else [n_.target]) if isinstance(t_, ast.Attribute)}
    flags = {}

    def config_field(subject):
        return re.fullmatch(rf"{re.escape(CONF)}(\.[A-Za-z_][A-Za-z_0-9]*)+", subject) is not None and subject not in written
    for sm_ in sums + gsums:
        sm_.conds = [_flag_none_tests(f_, flags, config_field) for f_ in sm_.conds]
    for a_ in flags.values():
        model.cluster([a_, Poly.const(0)])
    where = loc(mi, fn)
    viol, checked, kinds = {}, set(), set()
    n_worlds = 0
    proj_cache = {}
    for w in model.worlds():
        n_worlds += 1
        try:
            act = active_summaries(model, w, sums)
            mx = model.sign(w, MX) != 0
        except Unknown as u:
            raise AnalysisError(f"{q}: a branch compares `{str(u)[:100]}`, which is outside the order model of the documented table (unrecognised form)")
        if len(act) != 1:
            raise AnalysisError(f"{q}: {len(act)} paths enabled in the world [{model.describe(w)}] (unrecognised form)")
        sm = act[0]
        fk = -F if mx else F
        rel = model.sign(w, fk - BEST)
        kinds.add(("max" if mx else "min", rel))
        st = sm.pe.store
        got = {b: st.get(f"{ST}.{b}") for b in BEST_FIELDS}
        improved = {"best_fitness": fk, "best_fitness_it": IT, "best_params": CAND}
        kept = {b: old[f"{ST}.{b}"] for b in BEST_FIELDS}
        # the parameters of the candidate: the stored row k, or the value that get_next_parameters hands out for it in this world
        # (whether the two are one value is the obligation `same-index-as-feedback`)
        variants = [improved] + [{**improved, "best_params": c_} for c_ in CAND_ROWS]
        for gs in gsums:
            try:
                if gs.ret is not None and all(eval_order_formula(model, w, f_) for f_ in gs.conds):
                    h_ = _strip_value_preserving(nf, gs.ret)
                    if all(h_ != v_["best_params"] for v_ in variants) and not _unread(h_):
                        variants.append({**improved, "best_params": h_})
            except Unknown:
                pass

        def agrees(tbl):
            return all(got[b] is not None and model.resolve(w, _strip_value_preserving(nf, got[b]) if b == "best_params" else got[b]) == model.resolve(w, tbl[b]) for b in BEST_FIELDS)

        def replaced():
            return any(agrees(v_) for v_ in variants)
        ok = (replaced() if rel < 0 else agrees(kept) if rel > 0 else (replaced() or agrees(kept)))
        if not ok and rel <= 0 and got["best_params"] is not None and len(gpar_) >= 3:
            # a projection of the stored row that sample_population has already applied (idempotent re-projection, judged in this world's
            # `is None` outcomes) stores the row itself
            lits = [f_ if model.sign(w, a_) != 0 else ("not", f_) for s_, a_ in flags.items() for f_ in [("opaque", f"Is({s_}, None)")]]
            pr = _projection_of_stored_row(repo, nf, gfn_, _strip_value_preserving(nf, got["best_params"]), [CAND] + CAND_ROWS, lits, proj_cache, onto=[CONF, ST])
            if pr is not None and pr[0] == "fixed":
                got["best_params"] = CAND
                ok = replaced() or (rel == 0 and agrees(kept))
        checked.add("incumbent")
        if not ok:
            for b in BEST_FIELDS:
                if got[b] is None or _unread(got[b]) or not (any(same_ingredients(got[b], v_[b], ("old",)) for v_ in variants) or same_ingredients(got[b], kept[b])):
                    raise AnalysisError(f"{q}: {b} := `{got[b].canon()[:80] if got[b] is not None else None}` (unrecognised form)")
            want_txt = "replaced as a whole by the evaluated candidate (fitness, iteration, parameters of index it % population)" if rel < 0 else "kept as a whole" if rel > 0 else "replaced or kept as a whole"
            viol.setdefault("incumbent", (f"{ {b: got[b].canon()[:50] for b in BEST_FIELDS} } in the world [{model.describe(w)}]",
                                          f"the candidate is {'better than' if rel < 0 else 'worse than' if rel > 0 else 'as good as'} the incumbent: it must be {want_txt}"))
        # fitness slot and counter
        slots = [(b_, i_, v_) for (_n, b_, i_, v_) in sm.pe.effects if b_ == f"{POP}.fitness"]
        checked.add("records-fitness")
        if len(slots) != 1:
            # no / several subscript stores into population.fitness on this path: how the value is recorded was not read (a method call, a rebuilt list, ...)
            raise AnalysisError(f"{q}: {len(slots)} indexed stores into {POP}.fitness on a path - how the fitness is recorded is not read (unrecognised form)")
        ok = slots[0][1] == K.canon() and slots[0][2] == fk
        if not ok:
            if _unread(slots[0][1], slots[0][2]) or not same_ingredients(slots[0][2], fk):
                raise AnalysisError(f"{q}: fitness slot := `{slots[0][2].canon()[:80]}` (unrecognised form)")
            if slots[0][1] is None or not set(re.findall(r"[A-Za-z_][A-Za-z_0-9]*", str(slots[0][1]))) <= ingredient_tokens(K):
                raise AnalysisError(f"{q}: fitness slot index `{str(slots[0][1])[:80]}` (unrecognised form)")
            viol.setdefault("records-fitness", (f"population.fitness writes: {[(i_, v_.canon()[:40]) for _b, i_, v_ in slots]} ({'maximise' if mx else 'minimise'})",
                                                "the sign-adjusted fitness (negated exactly when maximising) must be stored at the evaluated index k = it % population"))
        it = st.get(f"{ST}.it")
        checked.add("it+1")
        if not (it is not None and it == IT + Poly.const(1)):
            if it is None or _unread(it) or not same_ingredients(it, IT):
                raise AnalysisError(f"{q}: evaluation counter := `{it.canon()[:60] if it is not None else None}` (unrecognised form)")
            viol.setdefault("it+1", (f"{ST}.it = {it.canon()}", "the evaluation counter advances by one per feedback"))
    if viol:
        # the table only sees what the path evaluation sees: a call that hands the state / population to a routine of the repository that
        # was not expanded into this function (or a method of these objects) may do the bookkeeping the table misses
        hidden = _hidden_effect_calls(repo, fn, mi, {ST, POP})
        if hidden:
            raise AnalysisError(f"{q}: `{short(hidden[0], 60)}` receives the optimiser state and is not read; the bookkeeping table is incomplete (unrecognised form)")
    for key in sorted(checked):
        v = viol.get(key)
        ck.ob("R2-incumbent", q, f"table:{key}", v is None, f"{n_worlds} order worlds, {len(sums)} paths" if v is None else v[0], "" if v is None else v[1], where)
    ck.floor("feedback-worlds", n_worlds, 20)
    # writers of best_* elsewhere
    transparent = repo.transparent_helpers()
    frozen_api = load_known()
    for qual, f2, mi2 in repo.all_functions():
        if not qual.startswith(CM) or qual == q or qual in transparent:
            continue
        owner_, _, meth_ = qual.rpartition(".")
        if meth_ in ("create", "__init__", "__post_init__") and repo.has(owner_) and _is_state_class(repo, owner_):
            continue        # initial values of a new state
        for n in ast.walk(f2):
            if isinstance(n, (ast.Assign, ast.AugAssign, ast.AnnAssign)):
                for tg in (n.targets if isinstance(n, ast.Assign) else [n.target]):
                    if isinstance(tg, ast.Attribute) and tg.attr in BEST_FIELDS:
                        is_state = _denotes_state(repo, mi2, f2, qual, tg.value)
                        if is_state is False:
                            continue        # a field of the same name of another kind of object (a result record, ...)
                        if is_state is None:
                            _undecided(ck, f"{qual}: `{short(n, 60)}` - whether `{short(tg.value, 30)}` is the optimiser state is not known (unrecognised form)")
                        elif qual not in frozen_api:
                            # a routine written after the reference tree whose calls were not all expanded: it may be part of set_evaluation_feedback
                            _undecided(ck, f"{qual}: `{short(n, 60)}` writes the incumbent in a helper that was not expanded into its callers (unrecognised form)")
                        else:
                            ck.ob("R2-incumbent", qual, f"foreign-writer:{tg.attr}", False, short(n), "the incumbent may only be written by set_evaluation_feedback", loc(mi2, n))
    _incumbent_is_a_value(ck, repo, q, fn, mi, POP)


# ---- R2: the candidate handed out is the stored sample ------------------------------------------------------------------------------------------
NON_IDENTITY = ("clip", "minimum", "maximum", "tanh", "round", "floor", "abs", "where")
IDEMPOTENT = ("clip", "minimum", "maximum", "abs", "round", "floor")      # f(f(x, *rest), *rest) == f(x, *rest)
RAW_DRAWS = ("multivariate_normal", "normal")                              # draws with unbounded support: no projection fixes them
VALUE_PRESERVING = ("asarray", "array", "copy")
_NONE_TEST = re.compile(r"^(Is|IsNot)\((.+), None\)$")


def _none_literal(f):
    """(subject, is_none) when a path condition is `subject is None` / `subject is not None` (possibly negated), else None."""
    pol = True
    while f[0] == "not":
        f, pol = f[1], not pol
    if f[0] == "opaque":
        m = _NONE_TEST.match(f[1])
        if m:
            return m.group(2), pol == (m.group(1) == "Is")
    return None


def _flag_none_tests(f, flags, accept):
    """The path condition with every `subject is None` / `is not None` test on an accepted subject replaced by the truth of a flag atom
    (one per subject, collected in ``flags``): a boolean that an order model can enumerate."""
    k = f[0]
    if k == "opaque":
        m = _NONE_TEST.match(f[1])
        if m and accept(m.group(2)):
            t = ("truth", flags.setdefault(m.group(2), Poly.atom(f"⟨{m.group(2)} is None⟩")))
            return t if m.group(1) == "Is" else ("not", t)
        return f
    if k == "not":
        return ("not", _flag_none_tests(f[1], flags, accept))
    if k in ("and", "or"):
        return (k, tuple(_flag_none_tests(g, flags, accept) for g in f[1]))
    return f


def _compatible(conds_a, conds_b):
    """Can the two paths (of two functions that receive the same objects) be taken with one configuration?  Only `x is None` tests are
    read: two paths are incompatible when they test the same subject with opposite outcomes; every other condition is left free."""
    lits = {}
    for f in list(conds_a) + list(conds_b):
        l_ = _none_literal(f)
        if l_ is None:
            continue
        if lits.setdefault(l_[0], l_[1]) != l_[1]:
            return False
    return True


def _strip_value_preserving(nf, p):
    """asarray(x) / array(x) / x.copy() hold the value of x."""
    for _ in range(4):
        m_ = nf.meta.get(p.single_atom() or "", {})
        if m_.get("fn", "").split(".")[-1] in VALUE_PRESERVING and len(m_.get("args") or []) == 1 and not m_.get("kws"):
            p = m_["args"][0]
        else:
            break
    return p


def _mapped_env(fn, onto):
    """Environment in which the leading parameters of ``fn`` denote the objects named ``onto`` (parameters of another function that
    receives the same objects)."""
    env = _env(fn)
    for p_, o_ in zip(param_names(fn), onto):
        env[p_] = Poly.atom(o_, {o_}, {o_})
    return env


def _stored_sample_values(repo, nf, gfn, onto=None):
    """What `population.samples` holds when get_next_parameters reads it, as (path conditions, value) per path of the routine that fills
    it, written over the parameters (config, state) of get_next_parameters (or the names ``onto`` of the same objects).  Read from train_cmaes: every definition of the population
    that reaches the get_next_parameters call is Population.create(samples=sample_population(config, state)) / Population(samples=...)
    with the same config object.  AnalysisError (undecided) when the flow is written in another way."""
    q = CM + "train_cmaes"
    fn = repo.func(q)
    mi = fn._module
    cfg = nf.cfg_of(fn)
    gp = param_names(gfn)
    sq = CM + "sample_population"
    sfn0 = repo.func(sq)
    sp = param_names(sfn0)
    if len(sp) < 2:
        raise AnalysisError(f"{sq}: signature changed (anchor vanished)")

    def resolves(c, *targets):
        return isinstance(c, ast.Call) and isinstance(c.func, (ast.Name, ast.Attribute)) and repo.resolve_expr(mi, c.func) in targets
    gcalls = [(n, c) for n in cfg.nodes if n.ast is not None and n.kind == "stmt" for c in ast.walk(n.ast) if resolves(c, CM + "get_next_parameters")]
    if not gcalls:
        raise AnalysisError(f"{q}: no call of get_next_parameters - where the handed-out population comes from is not read (unrecognised form)")
    create = repo.method(CM + "Population", "create")
    for gn, gc in gcalls:
        gb = bind_call(gfn, gc)
        pop_e, conf_e = gb.get(gp[2]), gb.get(gp[0])
        if not isinstance(pop_e, ast.Name) or conf_e is None:
            raise AnalysisError(f"{q}: `{short(gc, 60)}` - the population handed to get_next_parameters is not a variable (unrecognised form)")
        conf_o = _object_of(cfg, conf_e, gn.id)
        for d in cfg.defs_of(gn.id, pop_e.id):
            v = d.value if d.kind == "assign" else None
            smp = None
            if resolves(v, CM + "Population.create") and create is not None:
                cb = bind_call(create[1], v, skip_self=True)
                cpar = [p_ for p_ in param_names(create[1]) if p_ not in ("cls", "self")]
                smp = cb.get(cpar[0]) if cpar else None
            elif resolves(v, CM + "Population"):
                smp = _record_position(repo, mi, v, 0)
            at = d.node
            for _hop in range(4):
                if isinstance(smp, ast.Name):
                    ds = cfg.defs_of(at, smp.id)
                    if len(ds) != 1 or ds[0].kind != "assign":
                        break
                    smp, at = ds[0].value, ds[0].node
            if not resolves(smp, sq):
                raise AnalysisError(f"{q}: the samples of the population handed to get_next_parameters `{short(v, 60) if v is not None else pop_e.id}` are not read as sample_population(...) (unrecognised form)")
            sb = bind_call(sfn0, smp)
            so = _object_of(cfg, sb[sp[0]], at) if sb.get(sp[0]) is not None else None
            if conf_o is None or so is None or so != conf_o:
                raise AnalysisError(f"{q}: whether sample_population and get_next_parameters receive the same configuration is not known (unrecognised form)")
    sfn = split_conditional_assignments(sfn0)
    scfg = nf.cfg_of(sfn)
    out = []
    for sm in summarise_paths(nf, scfg, sfn._module, sq, _mapped_env(sfn, list(onto or gp[:2])), {}):
        if sm.ret is None:
            raise AnalysisError(f"{sq}: path without return value (unrecognised form)")
        out.append((sm.conds, _strip_value_preserving(nf, sm.ret)))
    return out, sfn


def _mean_averages_stored_samples(repo, nf):
    """Does update_search_distribution build the new mean, on every path, from the rows of `population.samples` as they are stored
    (the documented recombination)?  None when a mean is written in a form that is not read."""
    q = CM + "update_search_distribution"
    fn = repo.func(q)
    mi = fn._module
    cfg = nf.cfg_of(fn)
    env = _env(fn)
    CONF, ST, POP = param_names(fn)[:3]
    olds = {f"{ST}.{k}": Poly.atom(f"old.{ST}.{k}") for k in ("mean", "last_mean", "var", "ps", "pc", "cov", "invsqrtC", "it", "eigen_decomp_updated")}
    want_means = _recombinations(nf, Scope(None, mi, env, q), CONF, _selection_specs(CONF, POP, "best"))
    seen = set()
    for p in enumerate_paths(cfg, cfg.entry, {cfg.exit}):
        pe = PathEval(nf, cfg, mi, q, env)
        pe.store = dict(olds)
        pe.run(p)
        mean = pe.store[f"{ST}.mean"]
        if mean.canon() in seen:
            continue
        seen.add(mean.canon())
        if not any(mean == w_ for w_ in want_means):
            return None
    return bool(seen)


def _projection_of_stored_row(repo, nf, gfn, g, wants, conds, cache, onto=None):
    """Is ``g`` a projection f(stored row k, *rest) of the candidate (clip / minimum / abs / ...)?  None when it is not of that form.
    Otherwise ("fixed", f): the rows that the sampling routine stores are already f(., *rest) on every compatible path, so f is the
    identity on them (idempotent re-projection); ("raw", f): on a compatible path the stored rows are the raw draw of the search
    distribution *and* update_search_distribution recombines the stored rows - positive evidence that the evaluated points are not the
    recombined ones.  AnalysisError when neither is established."""
    gq = CM + "get_next_parameters"
    m_ = nf.meta.get(g.single_atom() or "", {})
    wf = m_.get("fn", "").split(".")[-1]
    at_ = [i for i, a_ in enumerate(m_.get("args") or []) if any(a_ == w_ for w_ in wants)]
    if not (wf in NON_IDENTITY and len(at_) == 1 and not m_.get("kws") and not _unread(g)):
        return None
    rest = [a_ for i, a_ in enumerate(m_["args"]) if i != at_[0]]
    ck_ = ("stored", tuple(onto or ()))
    if ck_ not in cache:
        cache[ck_] = _stored_sample_values(repo, nf, gfn, onto)[0]
    feasible = [(c_, v_) for c_, v_ in cache[ck_] if _compatible(conds, c_)]
    if not feasible:
        raise AnalysisError(f"{gq}: no path of sample_population is compatible with the path that hands out `{g.canon()[:60]}` (unrecognised form)")

    def kind(v_):
        vm = nf.meta.get(v_.single_atom() or "", {})
        vf = vm.get("fn", "").split(".")[-1]
        if vf == wf and wf in IDEMPOTENT and not vm.get("kws") and len(vm.get("args") or []) == len(rest) + 1 and not _unread(v_):
            if any([a_ for j, a_ in enumerate(vm["args"]) if j != i] == rest for i in range(len(vm["args"]))):
                return "fixed"        # the stored rows are already f(., *rest): applying f again changes nothing
        if vf in RAW_DRAWS and not _unread(v_):
            return "raw"
        return None
    kinds = [kind(v_) for _c, v_ in feasible]
    if all(k_ == "fixed" for k_ in kinds):
        return "fixed", wf
    if "raw" in kinds:
        if _mean_averages_stored_samples(repo, nf) is not True:
            raise AnalysisError(f"{gq}: `{g.canon()[:80]}` is handed out while the mean of update_search_distribution is not read as the recombination of the stored samples (unrecognised form)")
        return "raw", wf
    raise AnalysisError(f"{gq}: `{g.canon()[:80]}` is handed out - whether the stored samples are fixed points of this projection is not known (unrecognised form)")


_WHY_PROJECTED = ("the candidate that is evaluated is {f}(population.samples[k], ...) while population.samples holds the raw draw of the search distribution and "
                  "update_search_distribution averages the stored rows: the mean (and every stored quantity read from population.samples) is built from points that were never evaluated")


def r2_handed_out(ck, repo, nf):
    """The point that is evaluated and the point that enters the distribution update are one value: get_next_parameters hands out row
    k = it % population of the stored samples as it is.  A projection around it (clip / minimum / ...) is the identity exactly when the
    stored samples were already projected in the same way (idempotent re-projection, compared as normal forms with the sampling routine,
    paths correlated by their `bounds is None` guards); it is a violation when the stored samples are the raw draw of the search
    distribution and the mean is averaged from the stored rows: the evaluated points are then not the ones that are recombined."""
    gq = CM + "get_next_parameters"
    gfn = split_conditional_assignments(repo.func(gq))
    ck._keep = getattr(ck, "_keep", []) + [gfn]      # the CFG cache is keyed by id(fn)
    gp = param_names(gfn)
    ck.need(len(gp) >= 3, f"{gq}: signature changed (anchor vanished)")
    gcfg = nf.cfg_of(gfn)
    genv = _env(gfn)
    # row k of the (population, parameters) matrix: samples[k] == samples[k, :] == samples[k, ...]
    wants = [nf.poly(parse_expr(f"{gp[2]}.samples[{gp[1]}.it % {gp[0]}.n_samples_per_update{rest}]"), Scope(None, gfn._module, genv, gq), None) for rest in ("", ", :", ", ...")]
    want = wants[0]
    cache = {}
    for sm in summarise_paths(nf, gcfg, gfn._module, gq, genv, {}):
        ck.need(sm.ret is not None, f"{gq}: path without return value")
        g = _strip_value_preserving(nf, sm.ret)
        ok = any(g == w_ for w_ in wants)
        why = "the candidate handed out must be the one whose feedback index is it % population"
        construct = f"return {g.canon()[:100]}"
        if not ok:
            pr = _projection_of_stored_row(repo, nf, gfn, g, wants, sm.conds, cache)
            if pr is not None and pr[0] == "fixed":
                ok = True
                construct += "  (idempotent: sample_population stores rows that are already projected in the same way)"
            elif pr is not None:
                why = _WHY_PROJECTED.format(f=pr[1])
            elif _unread(g) or not same_ingredients(g, want):
                raise AnalysisError(f"{gq}: returns `{g.canon()[:80]}` (unrecognised form)")
        ck.ob("R2-incumbent", gq, "same-index-as-feedback", ok, construct, "" if ok else why, loc(gfn._module, gfn))


def _is_state_class(repo, cq):
    try:
        return CM + "CMAESState" in repo.mro(cq)
    except AnalysisError:
        return False


def _denotes_state(repo, mi2, f2, qual, e):
    """Is the expression (receiver of an attribute store) a CMAESState?  True / False when its declaration says so, None when not known."""
    if not isinstance(e, ast.Name):
        return None
    a = f2.args
    for i, arg in enumerate(a.posonlyargs + a.args + a.kwonlyargs):
        if arg.arg != e.id:
            continue
        if i == 0 and arg.arg in ("self", "cls") and "." in qual and repo.has(qual.rpartition(".")[0]):
            try:
                repo.cls(qual.rpartition(".")[0])
            except AnalysisError:
                return None
            return _is_state_class(repo, qual.rpartition(".")[0])
        ann = arg.annotation
        if isinstance(ann, ast.Constant) and isinstance(ann.value, str):
            try:
                ann = parse_expr(ann.value)
            except SyntaxError:
                return None
        if not isinstance(ann, (ast.Name, ast.Attribute)):
            return None
        r = repo.resolve_expr(mi2, ann)
        if not r or not repo.has(r):
            return None
        try:
            repo.cls(r)
        except AnalysisError:
            return None
        return _is_state_class(repo, r)
    ds = [n for n in ast.walk(f2) if isinstance(n, (ast.Assign, ast.AnnAssign)) and any(isinstance(t, ast.Name) and t.id == e.id for t in (n.targets if isinstance(n, ast.Assign) else [n.target]))]
    kinds = set()
    for d in ds:
        v = d.value
        r = repo.resolve_expr(mi2, v.func) if isinstance(v, ast.Call) and isinstance(v.func, (ast.Name, ast.Attribute)) else None
        if r and r.endswith(".create"):
            r = r.rpartition(".")[0]
        try:
            kinds.add(_is_state_class(repo, r) if r and repo.has(r) and isinstance(repo.lookup(r)[1], ast.ClassDef) else None)
        except AnalysisError:
            kinds.add(None)
    return kinds.pop() if len(kinds) == 1 else None


def _hidden_effect_calls(repo, fn, mi, names):
    """Calls in ``fn`` whose effect on the objects ``names`` the path evaluation cannot see: the object is handed to a routine of the
    repository (its call was not expanded) or one of its own methods is called."""
    out = []
    for c in ast.walk(fn):
        if not isinstance(c, ast.Call):
            continue
        if isinstance(c.func, ast.Attribute) and isinstance(c.func.value, ast.Name) and c.func.value.id in names:
            out.append(c)
            continue
        r = repo.resolve_expr(mi, c.func) if isinstance(c.func, (ast.Name, ast.Attribute)) else None
        if (r and repo.has(r)) and any(isinstance(a_, ast.Name) and a_.id in names for a_ in list(c.args) + [k.value for k in c.keywords]):
            out.append(c)
    return out


INPLACE_METHODS = ("fill", "sort", "put", "partition", "itemset", "resize", "setfield", "__setitem__")
INPLACE_FUNCS = ("numpy.copyto", "numpy.put", "numpy.place", "numpy.putmask", "numpy.put_along_axis")
COPIES = ("copy", "array", "asarray", "deepcopy", "tolist", "tuple", "list", "device_put")
COMPUTED = ("clip", "minimum", "maximum", "tanh", "round", "floor", "abs", "where", "add", "subtract", "multiply", "negative")


def _host_array_field(repo, mi, fields):
    """Is one of ``fields`` declared / built as a numpy array in a class of the module?"""
    for n in ast.walk(mi.tree):
        if isinstance(n, ast.AnnAssign) and isinstance(n.target, ast.Name) and n.target.id in fields and repo.resolve_expr(mi, n.annotation) == "numpy.ndarray":
            return True
        if isinstance(n, ast.Assign) and any(isinstance(t, ast.Attribute) and t.attr in fields for t in n.targets) and isinstance(n.value, ast.Call):
            d_ = repo.resolve_expr(mi, n.value.func) if isinstance(n.value.func, (ast.Name, ast.Attribute)) else None
            if d_ in ("numpy.array", "numpy.empty", "numpy.zeros", "numpy.asarray", "numpy.ones", "numpy.empty_like", "numpy.zeros_like"):
                return True
    return False


def _incumbent_is_a_value(ck, repo, q, fn, mi, POP):
    """The recorded best parameters are a value: if the storage the candidate is read from is ever overwritten in place, the stored
    incumbent must be a copy - an index into a host array is a view that changes with the storage."""
    # where do the candidate parameters come from (field of the population object)?
    stores = []      # (statement, stored expression); `a.x, a.best_params = u, v` stores v
    for n in ast.walk(fn):
        for t in (n.targets if isinstance(n, ast.Assign) else []):
            if isinstance(t, ast.Attribute) and t.attr == "best_params":
                stores.append((n, n.value))
            elif isinstance(t, (ast.Tuple, ast.List)) and isinstance(n.value, (ast.Tuple, ast.List)) and len(t.elts) == len(n.value.elts) and not any(isinstance(x, ast.Starred) for x in t.elts + n.value.elts):
                stores += [(n, v_) for t_, v_ in zip(t.elts, n.value.elts) if isinstance(t_, ast.Attribute) and t_.attr == "best_params"]
    if not stores:
        raise AnalysisError(f"{q}: no assignment to best_params (anchor vanished)")

    def definitions(e):
        """Expressions a local may hold (every plain assignment to it in the routine); the expression itself when it is not a local."""
        if isinstance(e, ast.Name):
            ds = [n.value for n in ast.walk(fn) if isinstance(n, ast.Assign) and any(isinstance(t, ast.Name) and t.id == e.id for t in n.targets)]
            if ds and not any(isinstance(n, (ast.AugAssign, ast.AnnAssign, ast.For, ast.With, ast.NamedExpr)) and any(isinstance(t, ast.Name) and t.id == e.id and isinstance(t.ctx, ast.Store) for t in ast.walk(n)) for n in ast.walk(fn)):
                return ds
        return [e]

    def origins(e, copied=False, depth=0):
        """(copied?, root expression) alternatives of a stored value: locals followed through all their definitions, copies / element-wise
        results peeled (their result is a new array), subscripts peeled (an index into an array is a view of it)."""
        if depth > 8:
            return [(copied, e)]
        if isinstance(e, ast.Name):
            ds = definitions(e)
            if ds != [e]:
                return [o for d in ds for o in origins(d, copied, depth + 1)]
            return [(copied, e)]
        if isinstance(e, ast.Call):
            d_ = dotted(e.func) or ""
            if d_.split(".")[-1] in COPIES and (e.args or isinstance(e.func, ast.Attribute)):
                return origins(e.args[0] if e.args else e.func.value, True, depth + 1)
            if d_.split(".")[-1] in COMPUTED and e.args and not any(k_.arg == "out" for k_ in e.keywords):
                return origins(e.args[0], True, depth + 1)       # an element-wise result is a new array, not a view of its operand
            return [(copied, e)]
        if isinstance(e, ast.Subscript):
            return origins(e.value, copied, depth + 1)
        return [(copied, e)]
    fields, views = set(), []
    for st_, stored in stores:
        for copied, base in origins(stored):
            if isinstance(base, ast.Attribute) and isinstance(base.value, ast.Name) and base.value.id == POP:
                fields.add(base.attr)
                if not copied:
                    views.append((st_, base.attr))
            elif not copied:
                raise AnalysisError(f"{q}: best_params := `{short(stored, 60)}` - where the stored parameters come from is not recognised")
    # in-place writers of that field anywhere in the module
    writers, maybe = [], []
    for qual, f2, mi2 in repo.all_functions():
        if mi2 is not mi or "<locals>" in qual:
            continue
        alias = {}
        for n in ast.walk(f2):
            if isinstance(n, ast.Assign) and len(n.targets) == 1 and isinstance(n.targets[0], ast.Name) and isinstance(n.value, ast.Attribute) and n.value.attr in fields:
                alias[n.targets[0].id] = n.value.attr

        def is_field(e):
            return (isinstance(e, ast.Attribute) and e.attr in fields) or (isinstance(e, ast.Name) and e.id in alias)
        for n in ast.walk(f2):
            if isinstance(n, (ast.Assign, ast.AugAssign)):
                for tg in (n.targets if isinstance(n, ast.Assign) else [n.target]):
                    if isinstance(tg, ast.Subscript) and is_field(tg.value):
                        (writers if _host_array_field(repo, mi2, fields) else maybe).append((qual, mi2, n))
            elif isinstance(n, ast.Call):
                d_ = repo.resolve_expr(mi2, n.func) if isinstance(n.func, (ast.Name, ast.Attribute)) else None
                if d_ in INPLACE_FUNCS and n.args and is_field(n.args[0]):
                    writers.append((qual, mi2, n))
                elif isinstance(n.func, ast.Attribute) and n.func.attr in INPLACE_METHODS and is_field(n.func.value):
                    writers.append((qual, mi2, n))
                elif any(k.arg == "out" and is_field(k.value) for k in n.keywords):
                    writers.append((qual, mi2, n))
    if views and maybe and not writers:
        raise AnalysisError(f"{q}: `{short(maybe[0][2], 60)}` stores into population.{views[0][1]} by index while best_params keeps an uncopied element of it - whether that storage is a host array (view) or a list of values is not known")
    ok = not (views and writers)
    ck.ob("R2-incumbent", q, "incumbent-is-a-value", ok,
          f"best_params is read from population.{'/'.join(sorted(fields))}; in-place writers of that storage in the module: {len(writers)}; stored without a copy at {len(views)} site(s)" if ok else
          f"`{short(views[0][0], 60)}` and `{short(writers[0][2], 60)}` in {writers[0][0].split('.')[-1]}",
          "" if ok else f"the incumbent is stored as an index into population.{views[0][1]} without a copy while that storage is overwritten in place: with a host array the recorded best parameters change to another candidate at the next overwrite, while best_fitness keeps the old value",
          loc(mi, views[0][0]) if views else loc(mi, fn))


def _object_of(cfg, e, at, depth=0):
    """Which object an argument expression denotes: (defining nodes of the root variable, attribute path), following plain copies
    `a = b` / `a = b.c`; None when the expression is not a variable or an attribute chain of one."""
    path = []
    while isinstance(e, ast.Attribute):
        path.append(e.attr)
        e = e.value
    if not isinstance(e, ast.Name) or depth > 6:
        return None
    path = tuple(reversed(path))
    ds = cfg.defs_of(at, e.id)
    if not ds:
        return None
    if len(ds) == 1 and ds[0].kind == "assign" and isinstance(ds[0].value, (ast.Name, ast.Attribute)):
        inner = _object_of(cfg, ds[0].value, ds[0].node, depth + 1)
        return None if inner is None else (inner[0], inner[1] + path)
    return frozenset(d.node for d in ds), path


def _record_position(repo, mi, call: ast.Call, pos: int):
    """Argument that fills position ``pos`` of a record constructed by ``call`` (tuple-like: NamedTuple / namedtuple / dataclass), by
    position or by the name of the field at that position; None when not readable."""
    if any(isinstance(a_, ast.Starred) for a_ in call.args) or any(k.arg is None for k in call.keywords):
        return None
    fields = None
    f = call.func
    if isinstance(f, ast.Call):
        fields = NF._record_fields(ast.Assign(targets=[], value=f))
    elif isinstance(f, (ast.Name, ast.Attribute)):
        r = repo.resolve_expr(mi, f)
        if r and repo.has(r):
            fields = NF._record_fields(repo.lookup(r)[1])
        elif isinstance(f, ast.Name):
            for n in mi.tree.body:
                if isinstance(n, ast.Assign) and len(n.targets) == 1 and isinstance(n.targets[0], ast.Name) and n.targets[0].id == f.id:
                    fields = NF._record_fields(n)
    if not fields or pos >= len(fields):
        return None          # not the constructor of a record whose fields are known: what the call does with its arguments is not read
    if len(call.args) > pos:
        return call.args[pos]
    return next((k.value for k in call.keywords if k.arg == fields[pos]), None)


def _written_candidate(ck, repo, nf, q, cfg, mi, gn_fn, gb, wrappers, fbn, spc):
    """The value written into the policy is the handed-out candidate: a projection applied to it in the training loop (same reading as
    inside get_next_parameters: written over the parameters of get_next_parameters through the argument binding of its call)."""
    if not wrappers:
        return
    gq = CM + "get_next_parameters"
    gfn = split_conditional_assignments(gn_fn)
    ck._keep = getattr(ck, "_keep", []) + [gfn]
    gp = param_names(gfn)
    genv = _env(gfn)
    back = {a_.id: p_ for p_, a_ in gb.items() if p_ in gp[:3] and isinstance(a_, ast.Name)}      # local of the loop -> parameter it is passed as
    if len(back) != 3:
        raise AnalysisError(f"{q}: the arguments of get_next_parameters are not three distinct variables (unrecognised form)")
    text = f"{gp[2]}.samples[{gp[1]}.it % {gp[0]}.n_samples_per_update]"
    wants = [nf.poly(parse_expr(text), Scope(None, gfn._module, genv, gq), None)]

    class _Ren(ast.NodeTransformer):
        def visit_Name(self, n_):
            if n_.id in back:
                return ast.copy_location(ast.Name(id=back[n_.id], ctx=n_.ctx), n_)
            return n_
    for name, call, at in reversed(wrappers):
        if not cfg.dominates(at, fbn.id):
            raise AnalysisError(f"{q}: `{short(call, 60)}` is applied to the candidate on some paths only (unrecognised form)")
        for x in [y for a_ in call.args[1:] + [k_.value for k_ in call.keywords] for y in ast.walk(a_) if isinstance(y, ast.Name)]:
            if x.id not in back and cfg.defs_of(at, x.id):
                raise AnalysisError(f"{q}: `{short(call, 60)}` uses the local `{x.id}` (unrecognised form)")
        rest = [ast.unparse(_Ren().visit(parse_expr(ast.unparse(a_)))) for a_ in call.args[1:]] + [f"{k_.arg}={ast.unparse(_Ren().visit(parse_expr(ast.unparse(k_.value))))}" for k_ in call.keywords]
        text = f"{ast.unparse(call.func)}({', '.join([text] + rest)})"
    g = _strip_value_preserving(nf, nf.poly(parse_expr(text), Scope(None, gfn._module, genv, gq), None))
    if any(g == w_ for w_ in wants):
        return      # conversions only
    pr = _projection_of_stored_row(repo, nf, gfn, g, wants, [], {})
    if pr is None:
        raise AnalysisError(f"{q}: the candidate is written into the policy as `{g.canon()[:80]}` (unrecognised form)")
    ok = pr[0] == "fixed"
    ck.ob("R2-incumbent", q, "sets-the-handed-out-candidate", ok, f"`{short(spc, 90)}` writes {g.canon()[:100]}", "" if ok else _WHY_PROJECTED.format(f=pr[1]), loc(mi, spc))


def r2_train_loop(ck, repo, nf):
    from .c15 import _role_of_counter
    q = CM + "train_cmaes"
    L = find_env_loop(repo, q)
    cfg, mi, fn = L.cfg, L.mi, L.fn

    def calls_of(target):
        return [(n, c) for n in cfg.nodes if n.ast is not None and n.kind == "stmt" for c in ast.walk(n.ast)
                if isinstance(c, ast.Call) and isinstance(c.func, (ast.Name, ast.Attribute)) and repo.resolve_expr(mi, c.func) == target]
    body = cfg.loop_body_nodes(L.outer_header)
    fbs = [(n, c) for n, c in calls_of(CM + "set_evaluation_feedback") if n.id in body]
    sps = [(n, c) for n, c in calls_of(CM + "set_params") if n.id in body]
    ck.need(len(fbs) == 1 and len(sps) == 1, f"{q}: expected one set_params and one set_evaluation_feedback call per episode, found {len(sps)} / {len(fbs)}")
    (fbn, fbc), (spn, spc) = fbs[0], sps[0]
    fb_fn, sp_fn, gn_fn = repo.func(CM + "set_evaluation_feedback"), repo.func(CM + "set_params"), repo.func(CM + "get_next_parameters")
    # a candidate that is also requested outside the episode loop (rotated loop: first candidate before the loop, the next one at the end of
    # each episode) is not the shape this rule reads
    ck.need(all(n.id in body for n, _c in calls_of(CM + "get_next_parameters")), f"{q}: get_next_parameters is also called outside the episode loop (unrecognised form)")
    fbb = bind_call(fb_fn, fbc)
    fparams = param_names(fb_fn)
    ck.need(len(fparams) >= 4 and len(param_names(sp_fn)) >= 2 and len(param_names(gn_fn)) >= 3, f"{q}: signatures changed (anchor vanished)")
    spb = bind_call(sp_fn, spc)
    cand = spb.get(param_names(sp_fn)[1])
    cand_e, cand_at = cand, spn.id
    hops = 0
    wrappers = []       # projections / conversions applied to the handed-out candidate on its way into the policy: (name, call, node)
    while hops < 8:
        hops += 1
        if isinstance(cand_e, ast.Name):
            ds = cfg.defs_of(cand_at, cand_e.id)
            if len(ds) != 1 or ds[0].kind != "assign":
                break
            cand_e, cand_at = ds[0].value, ds[0].node
        elif isinstance(cand_e, ast.Call) and isinstance(cand_e.func, (ast.Name, ast.Attribute)) and repo.resolve_expr(mi, cand_e.func) != CM + "get_next_parameters" and cand_e.args \
                and not any(isinstance(a_, ast.Starred) for a_ in cand_e.args) and not any(k_.arg is None for k_ in cand_e.keywords) \
                and (repo.resolve_expr(mi, cand_e.func) or "").rpartition(".")[0] in ("jax.numpy", "numpy") \
                and (repo.resolve_expr(mi, cand_e.func) or "").split(".")[-1] in tuple(x for x in NON_IDENTITY if x != "where") + VALUE_PRESERVING:
            wrappers.append(((repo.resolve_expr(mi, cand_e.func) or "").split(".")[-1], cand_e, cand_at))
            cand_e = cand_e.args[0]
        else:
            break
    ck.need(isinstance(cand_e, ast.Call) and isinstance(cand_e.func, (ast.Name, ast.Attribute)) and repo.resolve_expr(mi, cand_e.func) == CM + "get_next_parameters",
            f"{q}: the parameters written into the policy `{short(cand_e, 60) if cand_e is not None else None}` are not the result of get_next_parameters (unrecognised form)")
    gb = bind_call(gn_fn, cand_e)
    # the same config / state / population objects: compared by what the argument expressions denote (reaching definitions through copies)
    same_objs = True
    for a, b in zip(param_names(gn_fn)[:3], fparams[:3]):
        oa = _object_of(cfg, gb.get(a), cand_at) if gb.get(a) is not None else None
        ob_ = _object_of(cfg, fbb.get(b), fbn.id) if fbb.get(b) is not None else None
        if oa is None or ob_ is None:
            raise AnalysisError(f"{q}: the `{b}` arguments `{short(gb.get(a), 40) if gb.get(a) is not None else None}` / `{short(fbb.get(b), 40) if fbb.get(b) is not None else None}` are not variables (unrecognised form)")
        if oa != ob_:
            if oa[1] or ob_[1]:
                # reached through attributes of carriers: different expressions may still denote one object
                raise AnalysisError(f"{q}: whether `{short(gb.get(a), 40)}` and `{short(fbb.get(b), 40)}` are the same object is not known (unrecognised form)")
            same_objs = False       # two variables with different definitions
    order = cfg.dominates(spn.id, fbn.id) and cfg.dominates(cand_at, fbn.id)
    ok = same_objs and order
    ck.ob("R2-incumbent", q, "evaluates-what-it-sets", ok, f"`{short(spc, 70)}` ... `{short(fbc, 70)}`",
          "" if ok else "each episode must evaluate the candidate that was written into the policy: same config / state / population between get_next_parameters and set_evaluation_feedback, in this order", loc(mi, fbc))
    _written_candidate(ck, repo, nf, q, cfg, mi, gn_fn, gb, wrappers, fbn, spc)
    ret_arg = fbb.get(fparams[3])
    while isinstance(ret_arg, ast.Call) and isinstance(ret_arg.func, (ast.Name, ast.Attribute)) and len(ret_arg.args) == 1 and not ret_arg.keywords \
            and (repo.resolve_expr(mi, ret_arg.func) or dotted(ret_arg.func) or "").split(".")[-1] in ("float", "asarray", "array"):
        ret_arg = ret_arg.args[0]      # value-preserving conversions of the return
    ck.need(isinstance(ret_arg, ast.Name), f"{q}: feedback argument `{short(ret_arg) if ret_arg is not None else None}` (unrecognised form)")
    role = _role_of_counter(cfg, L, ret_arg.id, body)
    if role is None:
        raise AnalysisError(f"{q}: cannot classify the feedback variable `{ret_arg.id}` by its updates")
    ck.ob("R2-incumbent", q, "feedback-is-return", role == "return", f"feedback <- `{ret_arg.id}` ({role} counter)", "" if role == "return" else "the fitness of a candidate is the return of its episode", loc(mi, fbc))
    # the env episode lies between writing the candidate and its feedback
    ok = cfg.dominates(spn.id, L.step_node) and cfg.dominates(spn.id, fbn.id) and cfg.paths_avoiding(L.step_node, fbn.id, {spn.id}) is not None
    ck.ob("R2-incumbent", q, "episode-between", ok, "set_params -> env.step ... -> set_evaluation_feedback", "" if ok else "the candidate must be written into the policy before the episode that evaluates it", loc(mi, spc))
    # reported sign
    confs = calls_of(CM + "CMAESConfig.create")
    ck.need(len(confs) == 1, f"{q}: CMAESConfig.create call not found")
    m = repo.method(CM + "CMAESConfig", "create")
    ck.need(m is not None, "CMAESConfig.create not found")
    cpar = [p_ for p_ in param_names(m[1]) if p_ not in ("cls", "self")]
    ck.need(len(cpar) >= 3, "CMAESConfig.create: signature changed (anchor vanished)")
    cb = bind_call(m[1], confs[0][1], skip_self=True)
    mxv = cb.get(cpar[2])          # maximize: third option of the recorded signature
    ck.need(mxv is not None, f"{q}: the maximize option of CMAESConfig.create is not passed (unrecognised form)")
    mxp = nf.poly(mxv, Scope(cfg, mi, {}, q), confs[0][0].id)
    ck.need(mxp.is_const() and mxp.const_value() in (0, 1), f"{q}: maximize `{short(mxv, 40)}` is not a constant (unrecognised form)")
    maximise = mxp.const_value() == 1
    rets = [n for n in cfg.nodes if n.kind == "stmt" and isinstance(n.ast, ast.Return) and n.ast.value is not None]
    ck.need(len(rets) == 1, f"{q}: expected one return")
    rv, rv_at = rets[0].ast.value, rets[0].id

    def after_loop(nid):
        """Evaluated after the last episode: the state it reads is final."""
        return nid not in body and cfg.dominates(L.outer_header, nid)

    def resolved(e, at, depth=0):
        """The expression with the local variables that are defined once, after the training loop, replaced by their definitions."""
        if depth > 6:
            raise AnalysisError(f"{q}: reported best fitness (unrecognised form)")
        e = ast.fix_missing_locations(ast.copy_location(parse_expr(ast.unparse(e)), e))
        names = [x for x in ast.walk(e) if isinstance(x, ast.Name)]
        sub = {}
        for x in names:
            ds = cfg.defs_of(at, x.id)
            if not ds or (len(ds) == 1 and ds[0].kind == "param"):
                continue
            if len(ds) == 1 and ds[0].kind == "assign" and after_loop(ds[0].node):
                sub[x.id] = resolved(ds[0].value, ds[0].node, depth + 1)
        if not sub:
            return e

        class _S(ast.NodeTransformer):
            def visit_Name(self, n_):
                return sub.get(n_.id, n_)
        return ast.fix_missing_locations(_S().visit(e)) if not isinstance(e, ast.Name) else sub.get(e.id, e)
    if isinstance(rv, ast.Name):
        ds = cfg.defs_of(rv_at, rv.id)
        ck.need(len(ds) == 1 and ds[0].kind == "assign" and after_loop(ds[0].node), f"{q}: result construction (unrecognised form)")
        rv, rv_at = ds[0].value, ds[0].node
    rexpr = None
    if isinstance(rv, ast.Tuple) and len(rv.elts) >= 2 and not any(isinstance(x, ast.Starred) for x in rv.elts):
        rexpr = rv.elts[1]
    elif isinstance(rv, ast.Call):
        rexpr = _record_position(repo, mi, rv, 1)
    ck.need(rexpr is not None, f"{q}: result construction (unrecognised form)")
    ck.need(after_loop(rv_at), f"{q}: the result is built before the training loop ends (unrecognised form)")
    rex = resolved(rexpr, rv_at)
    got = nf.poly(rex, Scope(None, mi, {}, q), None)
    # +-(S.best_fitness) where S is the state object that receives the feedback: the sign is read from the normal form, the object from the expression
    reads = [x for x in ast.walk(rex) if isinstance(x, ast.Attribute) and x.attr == "best_fitness"]
    sign = None
    if len(got.terms) == 1 and len(reads) == 1 and not _unread(got):
        (mono, c), = got.terms.items()
        if len(mono) == 1 and mono[0][1] == 1 and nf.meta.get(mono[0][0], {}).get("fn") == "attr" and c in (1, -1):
            base = nf.meta[mono[0][0]]["args"][0]
            if mono[0][0] == f"{base.canon()}.best_fitness":
                sign = c
    if sign is None:
        raise AnalysisError(f"{q}: reported best fitness `{got.canon()[:80]}` (unrecognised form)")
    o_rep, o_fb = _object_of(cfg, reads[0].value, rv_at), _object_of(cfg, fbb[fparams[1]], fbn.id)
    if o_rep is None or o_rep != o_fb:
        raise AnalysisError(f"{q}: whether the reported `{short(reads[0], 50)}` belongs to the state that receives the feedback is not known (unrecognised form)")
    ok = sign == (-1 if maximise else 1)
    ck.ob("R2-incumbent", q, "reported-sign", ok, f"maximize={maximise}; reported best fitness = {got.canon()}", "" if ok else "returns are maximised through negation; the reported best fitness must be un-negated", loc(mi, rets[0].ast))
    ck.ob("R2-incumbent", q, "maximises-return", maximise, f"CMAESConfig.create(maximize={maximise})", "" if maximise else "episode returns are to be maximised", loc(mi, confs[0][1]))


# ---- R3 / R4 -------------------------------------------------------------------------------------------------------------------------------
def _selection_specs(CONF, POP, which):
    """Spellings of `the mu best / worst candidates, best / worst first` of the evaluated population.  The fitness is a vector, so the
    ranking axis may be 0, -1 or left out; x[:k] == x[0:k]; rows may be gathered before or after cutting the ranking."""
    fit = f"jnp.asarray({POP}.fitness)"
    out = []
    for rk in (f"jnp.argsort({fit}, axis=0)", f"jnp.argsort({fit})", f"jnp.argsort({fit}, axis=-1)"):
        for lo in ("", "0"):
            if which == "best":
                out += [f"{POP}.samples[{rk}[{lo}:{CONF}.mu]]", f"{POP}.samples[{rk}][{lo}:{CONF}.mu]"]
            elif which == "worst":
                out += [f"{POP}.samples[{rk}[::-1][{lo}:{CONF}.mu]]", f"{POP}.samples[{rk}[::-1]][{lo}:{CONF}.mu]"]
        if which == "worst":
            out += [f"{POP}.samples[{rk}[-{CONF}.mu:][::-1]]"]
        elif which == "worst-unordered":
            out += [f"{POP}.samples[{rk}[-{CONF}.mu:]]"]
    return out


def _recombinations(nf, sc0, CONF, selections):
    """Normal forms of sum_i w_i x_i over the rows of the selections (spellings of the broadcast axis and of the reduction axis)."""
    return [nf.poly(parse_expr(f"jnp.sum({CONF}.weights[:, {na}] * {sel}, {ax})"), sc0, None) for sel in selections for na in ("jnp.newaxis", "None", "np.newaxis") for ax in ("axis=0", "0")]


def r34_update(ck, repo, nf):
    q = CM + "update_search_distribution"
    fn = repo.func(q)
    mi = fn._module
    cfg = nf.cfg_of(fn)
    env = _env(fn)
    CONF, ST, POP = param_names(fn)[:3]
    olds = {f"{ST}.{k}": Poly.atom(f"old.{ST}.{k}") for k in ("mean", "last_mean", "var", "ps", "pc", "cov", "invsqrtC", "it", "eigen_decomp_updated")}
    paths = enumerate_paths(cfg, cfg.entry, {cfg.exit})
    ck.count("update-paths", len(paths))
    sc0 = Scope(None, mi, env, q)
    want_mean = nf.poly(parse_expr(f"jnp.sum({CONF}.weights[:, jnp.newaxis] * {POP}.samples[jnp.argsort(jnp.asarray({POP}.fitness), axis=0)[:{CONF}.mu]], axis=0)"), sc0, None)
    want_means = _recombinations(nf, sc0, CONF, _selection_specs(CONF, POP, "best"))
    worst_means = _recombinations(nf, sc0, CONF, _selection_specs(CONF, POP, "worst") + _selection_specs(CONF, POP, "worst-unordered"))
    ck.need(want_mean in want_means, f"{q}: specification of the recombination (internal)")
    done = set()
    for p in paths:
        pe = PathEval(nf, cfg, mi, q, env)
        pe.store = dict(olds)
        pe.run(p)
        mean, last, var = pe.store[f"{ST}.mean"], pe.store[f"{ST}.last_mean"], pe.store[f"{ST}.var"]
        key = (mean.canon(), last.canon(), var.canon())
        if key in done:
            continue
        done.add(key)
        ok = any(mean == w_ for w_ in want_means)
        # positive evidence of another value: the weighted worst candidates, or the documented ingredients combined differently
        if not ok and not any(mean == w_ for w_ in worst_means) and (_unread(mean) or not same_ingredients(mean, want_mean, ("old", ST, "mean", "last_mean"))):
            raise AnalysisError(f"{q}: mean' = `{mean.canon()[:100]}` (unrecognised form)")
        ck.ob("R3-mean", q, "recombination", ok, f"mean' = {mean.canon()[:150]}", "" if ok else f"must be the weight-averaged best mu candidates: {want_mean.canon()[:120]}", loc(mi, fn))
        ok = last == olds[f"{ST}.mean"]
        if not ok and (_unread(last) or not same_ingredients(last, want_mean, ("old", ST, "mean", "last_mean"))):
            raise AnalysisError(f"{q}: last_mean' = `{last.canon()[:100]}` (unrecognised form)")
        ck.ob("R3-mean", q, "last-mean", ok, f"last_mean' = {last.canon()[:100]}", "" if ok else "last_mean must hold the mean before this update", loc(mi, fn))
        # var' = old.var * exp(min(0.6, X))^2
        OV = f"old.{ST}.var"
        verdict = None
        # the uncapped exponent, from the evolution path of this very path
        uncapped = nf.poly(parse_expr(f"({CONF}.cs / {CONF}.damps) * (jnp.linalg.norm(PS) ** 2 / {CONF}.n_params - 1)"), Scope(None, mi, {**env, "PS": pe.store[f"{ST}.ps"]}, q), None)
        if len(var.terms) == 1 and not _unread(var):
            (mono, c), = var.terms.items()
            d = dict(mono)
            others = [a for a in d if a != OV]
            if c == 1 and d.get(OV) == 1 and len(others) == 1 and nf.meta.get(others[0], {}).get("fn", "").split(".")[-1] == "exp":
                inner = nf.meta[others[0]]["args"][0]
                scale = d[others[0]]
                im = nf.meta.get(inner.single_atom() or "", {})
                if im.get("fn", "").split(".")[-1] in ("min", "minimum") and not im.get("kws"):
                    consts = [a.const_value() for a in im["args"] if a.is_const()]
                    if len(im["args"]) == 2 and len(consts) == 1:
                        # min(c, X): decided by the constant and the power of the factor
                        verdict = scale == 2 and consts[0] * 5 == 3
                        why = f"cap constant {[float(x) for x in consts]} with exponent {scale}"
                elif inner == uncapped or same_ingredients(inner, uncapped):
                    # the exponent is the raw update (or its ingredients in another combination): nothing bounds it
                    verdict, why = False, "no cap on the exponent"
        if verdict is None:
            raise AnalysisError(f"{q}: var' = `{var.canon()[:120]}` (unrecognised form)")
        ck.ob("R4-step-size", q, "capped-growth", verdict, f"var' = {var.canon()[:150]}", "" if verdict else f"must be var * exp(min(0.6, log_step_size_update))**2: the step size grows by at most exp(0.6) per update ({why})", loc(mi, fn))


# ---- R7 ------------------------------------------------------------------------------------------------------------------------------------
MATRIX_PRODUCTS = ("dot", "matmul")     # a.dot(b), jnp.dot / jnp.matmul (the normal form keeps no structure for `a @ b`: undecided)


def _quadratic_form(nf, atom):
    """(X, W, Y) for an atom that denotes X^T diag(W) Y, else None."""
    m = nf.meta.get(atom, {})
    fname = m.get("fn", "").split(".")[-1]
    if fname not in MATRIX_PRODUCTS or len(m.get("args", [])) != 2:
        return None
    left, right = m["args"]
    lm = nf.meta.get(left.single_atom() or "", {})
    lf = lm.get("fn", "").split(".")[-1]

    def transposed(p):
        mm = nf.meta.get(p.single_atom() or "", {})
        return mm["args"][0] if mm.get("fn", "").split(".")[-1] in ("T", "transpose") and len(mm.get("args", [])) == 1 else None
    if lf in MATRIX_PRODUCTS and len(lm.get("args", [])) == 2:
        x = transposed(lm["args"][0])
        dm = nf.meta.get(lm["args"][1].single_atom() or "", {})
        if x is not None and dm.get("fn", "").split(".")[-1] == "diag" and len(dm.get("args", [])) == 1:
            return x, dm["args"][0], right
        return None
    inner = transposed(left)
    if inner is not None:
        # (w[:, None] * X)^T Y: every term of the transposed factor carries the same broadcast weight atom exactly once
        cands = None
        for mono, _c in inner.terms.items():
            ws = {a for a, k in mono if k == 1 and nf.meta.get(a, {}).get("fn") == "subscript" and (a.endswith("[:, jax.numpy.newaxis]") or a.endswith("[:, numpy.newaxis]") or a.endswith("[:, None]"))}
            cands = ws if cands is None else cands & ws
        if cands and len(cands) == 1:
            w = next(iter(cands))
            x = inner.subst({w: Poly.const(1)})
            wm = nf.meta.get(w, {})
            return x, (wm.get("args") or [None])[0], right
    return None


def _affine_in(x, name):
    """Is the polynomial a scaled and shifted copy of the atom ``name`` (degree one, not nested inside another atom)?"""
    seen = False
    for mono, _c in x.terms.items():
        for a, k in mono:
            if a == name:
                if k != 1:
                    return False
                seen = True
            elif name in a:
                return False
    return seen


def r7_covariance(ck, repo, nf):
    q = CM + "update_search_distribution"
    fn = repo.func(q)
    mi = fn._module
    cfg = nf.cfg_of(fn)
    env = _env(fn)
    CONF, ST, POP = param_names(fn)[:3]
    olds = {f"{ST}.{k}": Poly.atom(f"old.{ST}.{k}") for k in ("mean", "last_mean", "var", "ps", "pc", "cov", "invsqrtC", "it", "eigen_decomp_updated")}
    sc0 = Scope(None, mi, env, q)
    # the selections of the mu best / worst candidates (every spelling of _selection_specs), as atoms
    best_atoms = {nf.poly(parse_expr(t_), sc0, None).single_atom() for t_ in _selection_specs(CONF, POP, "best")} - {None}
    worst_atoms = {nf.poly(parse_expr(t_), sc0, None).single_atom() for t_ in _selection_specs(CONF, POP, "worst")} - {None}
    if not best_atoms or not worst_atoms:
        raise AnalysisError(f"{q}: selection of the best / worst candidates has no atomic normal form")
    SEL = Poly.atom("⟨selected⟩")
    OC = f"old.{ST}.cov"
    done = set()
    n_forms = 0
    for p in enumerate_paths(cfg, cfg.entry, {cfg.exit}):
        pe = PathEval(nf, cfg, mi, q, env)
        pe.store = dict(olds)
        pe.run(p)
        cov = pe.store[f"{ST}.cov"]
        if cov.canon() in done:
            continue
        done.add(cov.canon())
        where = loc(mi, fn)
        forms, ranks = {}, {}
        for mono, c in cov.terms.items():
            d = dict(mono)
            mats = [a for a in d if a == OC or nf.meta.get(a, {}).get("fn", "").split(".")[-1] in MATRIX_PRODUCTS + ("outer",)]
            if len(mats) != 1 or d[mats[0]] != 1:
                raise AnalysisError(f"{q}: covariance term `{Poly({mono: c}).canon()[:100]}` is not a scalar multiple of the old covariance, an outer product or a quadratic form (unrecognised form)")
            a = mats[0]
            if a == OC:
                continue
            if nf.meta[a]["fn"].split(".")[-1] == "outer":
                ranks[a] = nf.meta[a]["args"]
            else:
                qf = _quadratic_form(nf, a)
                if qf is None:
                    raise AnalysisError(f"{q}: matrix term `{a[:100]}` is not read as X^T diag(w) Y (unrecognised form)")
                forms.setdefault(a, (qf, []))[1].append((Poly({tuple(sorted((k_, v_) for k_, v_ in d.items() if k_ != a)): c})))
        if not forms:
            raise AnalysisError(f"{q}: no rank-mu quadratic form in cov' (anchor vanished)")
        for a, args in ranks.items():
            ck.need(len(args) == 2 and not nf.meta[a].get("kws"), f"{q}: `{a[:80]}` (unrecognised form)")
            ok = args[0] == args[1]
            if not ok:
                _evident(q, f"the rank-one term `{a[:80]}`", *args)
            ck.ob("R7-covariance-form", q, "rank-one-symmetric", ok, f"outer({args[0].canon()[:50]}, {args[1].canon()[:50] if len(args) > 1 else ''})", "" if ok else "outer(a, b) with a != b is not symmetric: the covariance loses symmetry", where)
        per_sel = {}
        for a, ((x, w, y), coefs) in forms.items():
            n_forms += 1
            ok = x == y
            if not ok:
                _evident(q, f"the quadratic form `{a[:80]}`", x, y)
            ck.ob("R7-covariance-form", q, f"quadratic-form-symmetric:{len(per_sel)}", ok, f"X^T diag(w) Y with X = {x.canon()[:80]}", "" if ok else f"the two factors differ (Y = {y.canon()[:80]}): the term is not symmetric", where)
            # normalise the selection away
            w_in, b_in = sorted(worst_atoms & x.atoms()), sorted(best_atoms & x.atoms())
            if len(w_in) == 1 and not b_in:
                per_sel["worst"] = (x.subst({w_in[0]: SEL}), w, x)
            elif len(b_in) == 1 and not w_in:
                per_sel["best"] = (x.subst({b_in[0]: SEL}), w, x)
            else:
                raise AnalysisError(f"{q}: quadratic form over `{x.canon()[:100]}` - neither the best nor the worst mu candidates of the ranking (unrecognised form)")
        if "best" not in per_sel:
            raise AnalysisError(f"{q}: no quadratic form over the best mu candidates in cov' (unrecognised form)")
        if "worst" in per_sel:
            (xb, wb, rawb), (xw, ww, raww) = per_sel["best"], per_sel["worst"]
            ok = xb == xw and (wb is None or ww is None or wb == ww)
            if not ok and (_unread(xw, xb, wb, ww) or not (_affine_in(xw, "⟨selected⟩") and _affine_in(xb, "⟨selected⟩") and (wb is None or ww is None or wb == ww or same_ingredients(wb, ww)))):
                raise AnalysisError(f"{q}: negative update over `{raww.canon()[:100]}` (unrecognised form)")
            ck.ob("R7-covariance-form", q, "negative-update-mirrors-positive", ok, f"worst: {raww.canon()[:110]}  |  best: {rawb.canon()[:110]}",
                  "" if ok else "the negative rank-mu term is not the positive one with the worst candidates in place of the best (centre / step-size scaling / weights differ): the subtraction is mis-scaled and can drive variances negative", where)
    ck.floor("covariance-quadratic-forms", n_forms, 3)


# ---- R5 ------------------------------------------------------------------------------------------------------------------------------------
class _Terms:
    """Dataflow terms of one function: names are followed to their single reaching definition; calls are named by their resolved target."""

    def __init__(self, repo, fn, cfg):
        self.repo, self.fn, self.cfg, self.mi = repo, fn, cfg, fn._module
        self.params = param_names(fn)

    def val(self, e, at, depth=0):
        if depth > 12:
            return ("deep",)
        if isinstance(e, ast.Name):
            ds = self.cfg.defs_of(at, e.id)
            if len(ds) == 1 and ds[0].kind == "param":
                return ("param", e.id)
            if len(ds) == 1 and ds[0].kind == "assign":
                return self.val(ds[0].value, ds[0].node, depth + 1)
            if len(ds) == 1 and ds[0].kind == "unpack" and ds[0].path and len(ds[0].path) == 1:
                return ("proj", self.val(ds[0].value, ds[0].node, depth + 1), ds[0].path[0])
            if not ds:
                return ("global", self.repo.resolve_name(self.mi, e.id) or e.id)
            return ("phi", e.id)
        if isinstance(e, ast.Attribute):
            r = self.repo.resolve_expr(self.mi, e)
            if r:
                return ("global", r)
            return ("attr", self.val(e.value, at, depth + 1), e.attr)
        if isinstance(e, ast.Subscript) and isinstance(e.slice, ast.Constant) and isinstance(e.slice.value, int):
            return ("proj", self.val(e.value, at, depth + 1), e.slice.value)
        if isinstance(e, ast.Call):
            f = e.func
            name = self.repo.resolve_expr(self.mi, f) if isinstance(f, (ast.Name, ast.Attribute)) else None
            recv = None
            if name is None and isinstance(f, ast.Attribute):
                name, recv = "." + f.attr, self.val(f.value, at, depth + 1)
            elif name is None and isinstance(f, ast.Name):
                name = f.id
            args = [self.val(a, at, depth + 1) for a in e.args if not isinstance(a, ast.Starred)]
            kws = {k.arg: self.val(k.value, at, depth + 1) for k in e.keywords if k.arg}
            return ("call", name, ([recv] if recv is not None else []) + args, kws)
        if isinstance(e, ast.Constant):
            return ("const", e.value)
        return ("expr", ast.dump(e)[:80])


LEAVES = ("jax.tree_util.tree_leaves", "jax.tree.leaves", "jax.tree_leaves")
FLATTEN = ("jax.tree_util.tree_flatten", "jax.tree.flatten", "jax.tree_flatten")
STRUCTURE = ("jax.tree_util.tree_structure", "jax.tree.structure", "jax.tree_structure")
UNFLATTEN = ("jax.tree_util.tree_unflatten", "jax.tree.unflatten", "jax.tree_unflatten")


def _is_param_state(t, net):
    return t[0] == "call" and t[1] == "flax.nnx.state" and len(t[2]) == 2 and t[2][0] == ("param", net) and t[2][1] == ("global", "flax.nnx.Param") and not t[3]


def _param_state_verdict(site, t, net):
    """True: the term is nnx.state(net, nnx.Param).  False: it is positively something else - nnx.state of another parameter or with another
    set of (resolved) filters.  Anything else (a helper that was not expanded, nnx.split, a merge of definitions, ...) is not read."""
    if _is_param_state(t, net):
        return True
    if t[0] == "call" and t[1] == "flax.nnx.state" and t[2] and not t[3] and t[2][0][0] == "param" and all(f_[0] == "global" and str(f_[1]).startswith("flax.") for f_ in t[2][1:]):
        return False
    raise AnalysisError(f"{site}: the state `{_show(t)}` whose leaves are used is not read as nnx.state(net, ...) (unrecognised form)")


def _state_of_leaves(t):
    if t[0] == "call" and t[1] in LEAVES and len(t[2]) == 1:
        return t[2][0]
    if t[0] == "proj" and t[2] == 0 and t[1][0] == "call" and t[1][1] in FLATTEN and len(t[1][2]) == 1:
        return t[1][2][0]
    return None


def _state_of_treedef(t):
    if t[0] == "call" and t[1] in STRUCTURE and len(t[2]) == 1:
        return t[2][0]
    if t[0] == "proj" and t[2] == 1 and t[1][0] == "call" and t[1][1] in FLATTEN and len(t[1][2]) == 1:
        return t[1][2][0]
    return None


def _elementwise_ravel(T, e, at, depth=0):
    """(source expression, node) when ``e`` applies ravel / reshape(-1) / flatten to every element of a sequence, in order; else None."""
    cfg = T.cfg
    if depth > 6:
        return None
    if isinstance(e, ast.Name):
        ds = cfg.defs_of(at, e.id)
        if len(ds) == 1 and ds[0].kind == "assign":
            return _elementwise_ravel(T, ds[0].value, ds[0].node, depth + 1)
        return None
    if isinstance(e, ast.Call) and isinstance(e.func, ast.Name) and e.func.id in ("list", "tuple") and len(e.args) == 1:
        return _elementwise_ravel(T, e.args[0], at, depth + 1)

    def is_ravel_of(x, var):
        if isinstance(x, ast.Call) and isinstance(x.func, ast.Attribute) and isinstance(x.func.value, ast.Name) and x.func.value.id == var:
            if x.func.attr in ("ravel", "flatten") and not x.args:
                return True
            if x.func.attr == "reshape" and len(x.args) == 1 and ((isinstance(x.args[0], ast.UnaryOp) and isinstance(x.args[0].op, ast.USub) and isinstance(x.args[0].operand, ast.Constant) and x.args[0].operand.value == 1)
                                                                 or (isinstance(x.args[0], ast.Constant) and x.args[0].value == -1)):
                return True
        if isinstance(x, ast.Call) and isinstance(x.func, (ast.Name, ast.Attribute)) and T.repo.resolve_expr(T.mi, x.func) in ("jax.numpy.ravel", "numpy.ravel") and len(x.args) == 1 and isinstance(x.args[0], ast.Name) and x.args[0].id == var:
            return True
        return False
    if isinstance(e, (ast.ListComp, ast.GeneratorExp)) and len(e.generators) == 1 and not e.generators[0].ifs and isinstance(e.generators[0].target, ast.Name):
        if is_ravel_of(e.elt, e.generators[0].target.id):
            return e.generators[0].iter, at
        return None
    if isinstance(e, ast.Call) and isinstance(e.func, ast.Name) and e.func.id == "map" and len(e.args) == 2:
        f = e.args[0]
        if isinstance(f, ast.Lambda) and len(f.args.args) == 1 and is_ravel_of(f.body, f.args.args[0].arg):
            return e.args[1], at
        if isinstance(f, (ast.Name, ast.Attribute)) and T.repo.resolve_expr(T.mi, f) in ("jax.numpy.ravel", "numpy.ravel"):
            return e.args[1], at
    return None


def r5_flat_set(ck, repo, nf):
    fq, sq = CM + "flat_params", CM + "set_params"
    f, s = repo.func(fq), repo.func(sq)
    # -- flat_params --------------------------------------------------------------------------------------------------------------
    cfg = nf.cfg_of(f)
    T = _Terms(repo, f, cfg)
    net = T.params[0]
    rets = [n for n in cfg.nodes if n.kind == "stmt" and isinstance(n.ast, ast.Return) and n.ast.value is not None]
    ck.need(len(rets) == 1, f"{fq}: expected one return")
    rv, rat = rets[0].ast.value, rets[0].id
    if isinstance(rv, ast.Name):
        ds = cfg.defs_of(rat, rv.id)
        ck.need(len(ds) == 1 and ds[0].kind == "assign", f"{fq}: returned value (unrecognised form)")
        rv, rat = ds[0].value, ds[0].node
    ck.need(isinstance(rv, ast.Call) and isinstance(rv.func, (ast.Name, ast.Attribute)) and repo.resolve_expr(T.mi, rv.func) in ("jax.numpy.concatenate", "jax.numpy.hstack") and rv.args,
            f"{fq}: the flat vector `{short(rv, 60)}` is not a concatenation (unrecognised form)")
    axis = next((k.value for k in rv.keywords if k.arg == "axis"), rv.args[1] if len(rv.args) > 1 else None)
    ck.need(axis is None or (isinstance(axis, ast.Constant) and axis.value == 0), f"{fq}: concatenation axis (unrecognised form)")
    ew = _elementwise_ravel(T, rv.args[0], rat)
    ck.need(ew is not None, f"{fq}: `{short(rv.args[0], 60)}` is not an element-wise ravel of the leaves (unrecognised form)")
    st = _state_of_leaves(T.val(ew[0], ew[1]))
    ck.need(st is not None, f"{fq}: the raveled sequence `{short(ew[0], 50)}` is not a pytree leaf list (unrecognised form)")
    ok = _param_state_verdict(fq, st, net)
    ck.ob("R5-flat-set", fq, "leaf-order-and-ravel", ok, f"concatenate(ravel(leaf) for leaf in leaves({_show(st)}))", "" if ok else "flat_params must concatenate the raveled leaves of nnx.state(net, nnx.Param) in pytree order", loc(f._module, f))
    # -- set_params ----------------------------------------------------------------------------------------------------------------
    cfg = nf.cfg_of(s)
    T = _Terms(repo, s, cfg)
    net, vec = T.params[0], T.params[1]
    ups = [(n, c) for n in cfg.nodes if n.ast is not None and n.kind == "stmt" for c in ast.walk(n.ast)
           if isinstance(c, ast.Call) and isinstance(c.func, (ast.Name, ast.Attribute)) and repo.resolve_expr(T.mi, c.func) == "flax.nnx.update"]
    ck.need(len(ups) == 1 and len(ups[0][1].args) == 2, f"{sq}: expected one nnx.update(net, state) call")
    un, uc = ups[0]
    upd_target = T.val(uc.args[0], un.id)
    ck.need(upd_target[0] == "param", f"{sq}: the object updated by nnx.update `{short(uc.args[0], 40)}` is not a parameter (unrecognised form)")
    ok_net = upd_target == ("param", net)
    new_state = T.val(uc.args[1], un.id)
    ck.need(new_state[0] == "call" and new_state[1] in UNFLATTEN and len(new_state[2]) == 2, f"{sq}: the written state `{short(uc.args[1], 50)}` is not a tree_unflatten(...) (unrecognised form)")
    td_state = _state_of_treedef(new_state[2][0])
    ck.need(td_state is not None, f"{sq}: tree definition (unrecognised form)")
    # the leaf loop
    loops = [n for n in cfg.nodes if n.kind == "for"]
    ck.need(len(loops) == 1, f"{sq}: leaf loop not found (unrecognised form)")
    lp = loops[0]
    lv_state = _state_of_leaves(T.val(lp.ast.iter, lp.id))
    ck.need(lv_state is not None and isinstance(lp.ast.target, ast.Name), f"{sq}: the loop does not iterate over pytree leaves (unrecognised form)")
    ok = all([ok_net, _param_state_verdict(sq, td_state, net), _param_state_verdict(sq, lv_state, net)])
    ck.ob("R5-flat-set", sq, "same-filter-and-order", ok, f"leaves({_show(lv_state)}), treedef({_show(td_state)}) -> tree_unflatten -> nnx.update({_show(T.val(uc.args[0], un.id))}, .)",
          "" if ok else "set_params must use the same Param filter and leaf order as flat_params and write back into the same network with nnx.update", loc(s._module, s))
    # loop-carried variables get symbolic entry values; the body is straight-line
    lbody = cfg.loop_body_nodes(lp.id)
    grown_names = {c.func.value.id for m in cfg.nodes if m.id in lbody and m.ast is not None and m.kind == "stmt" for c in ast.walk(m.ast)
                   if isinstance(c, ast.Call) and isinstance(c.func, ast.Attribute) and c.func.attr in ("append", "extend") and isinstance(c.func.value, ast.Name)}
    carried = sorted(({d.name for m in cfg.nodes if m.id in lbody for d in m.defs} | grown_names) - {lp.ast.target.id})
    env0 = {**_env(s), **{v: Poly.atom(f"IN.{v}") for v in carried}}
    paths = enumerate_paths(cfg, lp.id, {lp.id}, first_label=True)
    ck.need(len(paths) == 1, f"{sq}: loop body not straight-line (unrecognised form)")
    pe = PathEval(nf, cfg, s._module, sq, env0).run(paths[0][:-1])
    leaf = pe.env[lp.ast.target.id].canon()
    size = nf.poly(parse_expr("np.prod(LEAF.shape)"), Scope(None, s._module, {"LEAF": pe.env[lp.ast.target.id]}, sq), None)
    # the container that reaches tree_unflatten, and what is appended to it
    leaves_arg = None
    # locate the tree_unflatten call expression to read its second argument as a name
    for m in cfg.nodes:
        if m.ast is None or m.kind != "stmt":
            continue
        for c in ast.walk(m.ast):
            if isinstance(c, ast.Call) and isinstance(c.func, (ast.Name, ast.Attribute)) and repo.resolve_expr(T.mi, c.func) in UNFLATTEN and len(c.args) == 2:
                leaves_arg = c.args[1]
    ck.need(isinstance(leaves_arg, ast.Name) and leaves_arg.id in carried, f"{sq}: new leaves container (unrecognised form)")
    C = leaves_arg.id
    grown = pe.env[C]
    offs = [v for v in carried if v != C and pe.env[v] == Poly.atom(f"IN.{v}") + size]
    if not offs:
        # positive evidence of a wrong advance: a running variable that grows by something built from the leaf's shape only
        steps = [(v, pe.env[v] - Poly.atom(f"IN.{v}")) for v in carried if v != C and f"IN.{v}" in pe.env[v].atoms()]
        steps = [(v, d_) for v, d_ in steps if d_.terms and not any("IN." in a_ for a_ in d_.atoms())]
        if not any(not _unread(d_) and same_ingredients(d_, size, ("np", "jnp", "numpy", "jax")) for _v, d_ in steps):
            raise AnalysisError(f"{sq}: no loop-carried offset that advances by prod(leaf.shape): {[(v, pe.env[v].canon()[:60]) for v in carried if v != C]} (unrecognised form)")
    want_any = None
    ok_slice = False

    def initial(d):
        """Expression that a definition before the loop gives its variable (plain / annotated assignment, position of a tuple assignment)."""
        v = d.value
        if d.kind == "unpack":
            for i in d.path:
                if not (isinstance(v, (ast.Tuple, ast.List)) and isinstance(i, int) and i < len(v.elts) and not any(isinstance(x, ast.Starred) for x in v.elts)):
                    return None
                v = v.elts[i]
            return v
        return v if d.kind == "assign" else None
    for o in offs:
        want = nf.poly(parse_expr("CONT + [VEC[OFF:OFF + SIZE].reshape(LEAF.shape)]"), Scope(None, s._module, {"CONT": Poly.atom(f"IN.{C}"), "VEC": env0[vec], "OFF": Poly.atom(f"IN.{o}"), "SIZE": size, "LEAF": pe.env[lp.ast.target.id]}, sq), None)
        want_any = want
        if grown == want:
            ok_slice = True
            # the offset starts at 0 and the container empty
            d0 = [d for d in cfg.defs_of(lp.id, o) if d.node not in lbody]
            c0 = [d for d in cfg.defs_of(lp.id, C) if d.node not in lbody]
            ck.need(len(d0) == 1 and len(c0) == 1 and initial(d0[0]) is not None and initial(c0[0]) is not None, f"{sq}: initial values of `{o}` / `{C}` before the loop (unrecognised form)")
            o_init = nf.poly(initial(d0[0]), Scope(cfg, s._module, {}, sq), d0[0].node)
            c_init = initial(c0[0])
            if isinstance(c_init, ast.Call) and isinstance(c_init.func, ast.Name) and c_init.func.id in ("list", "tuple") and not c_init.args and not c_init.keywords and not cfg.defs_of(c0[0].node, c_init.func.id):
                c_empty = True         # list() == []
            elif isinstance(c_init, (ast.List, ast.Tuple)):
                c_empty = not c_init.elts
            else:
                raise AnalysisError(f"{sq}: initial value `{short(c_init, 40)}` of `{C}` (unrecognised form)")
            ck.need(o_init.is_const(), f"{sq}: initial value `{o_init.canon()[:40]}` of `{o}` is not a constant (unrecognised form)")
            ok0 = o_init.const_value() == 0 and c_empty
            ck.ob("R5-flat-set", sq, "offset-starts-at-zero", ok0, f"`{o}` = {o_init.canon()} and `{C}` = {short(c_init, 30)} before the loop", "" if ok0 else "the first leaf must start at position 0 of the flat vector and the container must start empty", loc(s._module, lp.ast))
    ck.ob("R5-flat-set", sq, "offset-advance", bool(offs), f"loop-carried {[(v, pe.env[v].canon()[:60]) for v in carried if v != C]}", "" if offs else "the read offset must advance by prod(leaf.shape) per leaf", loc(s._module, lp.ast))
    if offs and not ok_slice:
        if want_any is not None and (_unread(grown) or not same_ingredients(grown, want_any, ("np", "jnp"))):
            raise AnalysisError(f"{sq}: appended leaf `{grown.canon()[:120]}` (unrecognised form)")
    if offs:
        ck.ob("R5-flat-set", sq, "slice-and-reshape", ok_slice, f"{grown.canon()[:140]}", "" if ok_slice else "each leaf must take the slice [offset, offset+size) of the flat vector reshaped to its shape", loc(s._module, lp.ast))


def _show(t, depth=0):
    if not isinstance(t, tuple) or depth > 4:
        return str(t)[:30]
    if t[0] in ("param", "global", "const", "phi"):
        return str(t[1]).rsplit(".", 1)[-1]
    if t[0] == "call":
        return f"{str(t[1]).rsplit('.', 1)[-1]}({', '.join(_show(a, depth + 1) for a in t[2])})"
    if t[0] == "proj":
        return f"{_show(t[1], depth + 1)}[{t[2]}]"
    if t[0] == "attr":
        return f"{_show(t[1], depth + 1)}.{t[2]}"
    return t[0]


# ---- R6 ------------------------------------------------------------------------------------------------------------------------------------
def _comparisons_in(txt):
    """Texts of the comparison atoms Lt(..) / LtE(..) / Gt(..) / GtE(..) that occur in a canonical form (balanced parentheses)."""
    out = []
    for m_ in re.finditer(r"(?<![A-Za-z_0-9])(?:LtE|Lt|GtE|Gt)\(", txt):
        depth, i = 1, m_.end()
        while i < len(txt) and depth:
            depth += {"(": 1, ")": -1}.get(txt[i], 0)
            i += 1
        out.append(txt[m_.end():i - 1])
    return out


def _root_definitions(cfg, name, at, depth=0):
    """Defining nodes of the object a variable holds, through plain copies `a = b`."""
    ds = cfg.defs_of(at, name)
    if len(ds) == 1 and ds[0].kind == "assign" and isinstance(ds[0].value, ast.Name) and depth < 6:
        return _root_definitions(cfg, ds[0].value.id, ds[0].node, depth + 1)
    return sorted(d.node for d in ds)


def r6_cem(ck, repo, nf):
    q = "rl_blox.blox.cross_entropy_method.cem_update"
    fn = repo.func(q)
    nf6 = _NF16(repo, inline_depth=3)
    got = nf6.return_poly(q, _env(fn))
    ck.need(got.elems is not None and len(got.elems) == 2, f"{q}: must return (mean, var)")
    P = param_names(fn)
    ck.need(len(P) >= 6, f"{q}: signature changed")
    SM, FI, ME, VA, NE, AL = P[:6]
    sc6 = Scope(None, fn._module, _env(fn), q)
    # one selection, many spellings: the arguments of jax.lax.top_k(operand, k) bound by position or keyword; rows gathered by take(., axis=0) /
    # S[I] / S[I, :] / S[I, ...]; the k largest by an ascending ranking cut at its end, a ranking of the negated values cut at its start, or
    # a reversed ranking cut at its start (the mean / variance over the rows does not depend on their order)
    def _selections(fit, argsorted):
        idx = [f"jax.lax.top_k({fit}, {NE})[1]", f"jax.lax.top_k({fit}, k={NE})[1]", f"jax.lax.top_k(operand={fit}, k={NE})[1]"] + argsorted
        return [t_.format(S=SM, I=i_) for i_ in idx for t_ in ("jnp.take({S}, {I}, axis=0)", "{S}[{I}]", "{S}[{I}, :]", "{S}[{I}, ...]")]
    elite_specs = _selections(FI, [f"jnp.argsort({FI})[-{NE}:]", f"jnp.argsort(-{FI})[:{NE}]", f"jnp.argsort({FI})[::-1][:{NE}]"])
    okm = any(got.elems[0] == nf6.poly(parse_expr(f"{AL} * {ME} + (1.0 - {AL}) * jnp.mean({e}, axis=0)"), sc6, None) for e in elite_specs)
    okv = any(got.elems[1] == nf6.poly(parse_expr(f"{AL} * {VA} + (1.0 - {AL}) * jnp.var({e}, axis=0)"), sc6, None) for e in elite_specs)
    if okm and okv:
        ck.ob("R6-cem", q, "elites", True, f"mean' = {got.elems[0].canon()[:130]}", "", loc(fn._module, fn))
    else:
        _evident(q, "the updated mean / variance", got.elems[0], got.elems[1])
        txt = got.elems[0].canon() + " " + got.elems[1].canon()
        # the n_elite candidates with the smallest fitness, in the same spellings
        small_specs = _selections(f"-{FI}", [f"jnp.argsort({FI})[:{NE}]", f"jnp.argsort(-{FI})[-{NE}:]", f"jnp.argsort(-{FI})[::-1][:{NE}]"])
        smallest = any(got.elems[0] == nf6.poly(parse_expr(f"{AL} * {ME} + (1.0 - {AL}) * jnp.mean({e}, axis=0)"), sc6, None) for e in small_specs) \
            or any(got.elems[1] == nf6.poly(parse_expr(f"{AL} * {VA} + (1.0 - {AL}) * jnp.var({e}, axis=0)"), sc6, None) for e in small_specs) \
            or f"top_k(-{FI}" in txt or f"argsort({FI})[:{NE}]" in txt or f"argsort(-{FI})[-{NE}:]" in txt
        # a comparison of the fitness values with something (a threshold) inside the update
        thresholded = any(re.search(rf"(?<![A-Za-z_0-9.]){re.escape(FI)}(?![A-Za-z_0-9])", c_) for c_ in _comparisons_in(txt))
        documented = ingredient_tokens(nf6.poly(parse_expr(f"{AL} * {ME} + (1.0 - {AL}) * jnp.mean({SM}, axis=0) + {AL} * {VA} + (1.0 - {AL}) * jnp.var({SM}, axis=0) + {FI} + {NE}"), sc6, None))
        if thresholded:
            ck.ob("R6-cem", q, "elites", False, f"mean' = {got.elems[0].canon()[:150]}",
                  "the elite set is defined by a fitness threshold (comparison), not by selecting n_elite candidates: with tied fitness values more than n_elite candidates enter the update", loc(fn._module, fn))
        elif smallest:
            ck.ob("R6-cem", q, "elites", False, f"mean' = {got.elems[0].canon()[:150]}", "the update uses the n_elite candidates with the *smallest* fitness (CEM here is a maximiser)", loc(fn._module, fn))
        elif ingredient_tokens(got.elems[0]) | ingredient_tokens(got.elems[1]) <= documented:
            # built from samples / fitness / n_elite / old moments / alpha with mean and var only: no ranking of the candidates at all
            ck.ob("R6-cem", q, "elites", False, f"mean' = {got.elems[0].canon()[:150]}", "the update does not select the n_elite best candidates by fitness", loc(fn._module, fn))
        else:
            raise AnalysisError(f"{q}: elite selection `{got.elems[0].canon()[:100]}` is none of the enumerated forms (unrecognised idiom)")
    q = "rl_blox.blox.cross_entropy_method.optimize_cem"
    fn = repo.func(q)
    mi = fn._module
    cfg = nf.cfg_of(fn)
    OP = param_names(fn)
    LO, UP = OP[7], OP[8]
    ck.need(LO == "lower_bound" and UP == "upper_bound", f"{q}: signature changed (anchor vanished)")

    def calls_of(target):
        return [(n, c) for n in cfg.nodes if n.ast is not None and n.kind == "stmt" for c in ast.walk(n.ast)
                if isinstance(c, ast.Call) and isinstance(c.func, (ast.Name, ast.Attribute)) and repo.resolve_expr(mi, c.func) == target]
    smp = calls_of("rl_blox.blox.cross_entropy_method.cem_sample")
    upd = calls_of("rl_blox.blox.cross_entropy_method.cem_update")
    ck.need(len(smp) == 1 and len(upd) == 1, f"{q}: expected one cem_sample and one cem_update call, found {len(smp)} / {len(upd)}")
    (sn, sc_), (un, uc) = smp[0], upd[0]
    sfn, ufn = repo.func("rl_blox.blox.cross_entropy_method.cem_sample"), repo.func("rl_blox.blox.cross_entropy_method.cem_update")
    sb, ub_ = bind_call(sfn, sc_), bind_call(ufn, uc)
    SP = param_names(sfn)
    scp = Scope(cfg, mi, {}, q)
    lo_p = nf.poly(sb[SP[4]], scp, sn.id).canon() if SP[4] in sb else None
    up_p = nf.poly(sb[SP[5]], scp, sn.id).canon() if SP[5] in sb else None
    lo_ok = lo_p in (LO, f"asarray({LO})", f"array({LO})")
    up_ok = up_p in (UP, f"asarray({UP})", f"array({UP})")
    if not (lo_ok and up_ok) and not ({lo_p, up_p} <= {LO, UP, f"asarray({LO})", f"asarray({UP})", f"array({LO})", f"array({UP})"}):
        raise AnalysisError(f"{q}: bounds passed to cem_sample are `{lo_p}`, `{up_p}` (unrecognised form)")
    ck.ob("R6-cem", q, "bounds-order", lo_ok and up_ok, f"cem_sample(.., lb={lo_p}, ub={up_p})", "" if lo_ok and up_ok else "optimize_cem must pass (lower, upper) bounds in this order", loc(mi, sc_))
    # the update ranks the samples that were evaluated
    UPn = param_names(ufn)
    s_arg, f_arg = ub_.get(UPn[0]), ub_.get(UPn[1])
    ck.need(isinstance(s_arg, ast.Name) and isinstance(f_arg, (ast.Name, ast.Call)), f"{q}: cem_update arguments (unrecognised form)")
    fcall, f_at = f_arg, un.id
    for _hop in range(6):
        if isinstance(fcall, ast.Name):
            fd = cfg.defs_of(f_at, fcall.id)
            ck.need(len(fd) == 1 and fd[0].kind == "assign", f"{q}: fitness values `{fcall.id}` (unrecognised form)")
            fcall, f_at = fd[0].value, fd[0].node
        elif isinstance(fcall, ast.Call) and isinstance(fcall.func, (ast.Name, ast.Attribute)) and len(fcall.args) == 1 and not fcall.keywords and (repo.resolve_expr(mi, fcall.func) or "") in ("jax.numpy.asarray", "jax.numpy.array", "numpy.asarray", "numpy.array"):
            fcall = fcall.args[0]      # value-preserving conversion of the fitness vector
        else:
            break
    fit_ok = isinstance(fcall, ast.Call) and isinstance(fcall.func, ast.Name) and fcall.func.id == OP[0] \
        and len(fcall.args) == 1 and not fcall.keywords and isinstance(fcall.args[0], ast.Name)
    if not fit_ok:
        raise AnalysisError(f"{q}: fitness values come from `{short(fcall, 60)}` (unrecognised form)")
    evaluated, ranked = _root_definitions(cfg, fcall.args[0].id, f_at), _root_definitions(cfg, s_arg.id, un.id)
    ck.need(evaluated and ranked, f"{q}: the evaluated / ranked samples are not local variables (unrecognised form)")
    same = evaluated == ranked
    from_sample = ranked == [sn.id]
    ok = same and from_sample
    ck.ob("R6-cem", q, "update-from-evaluated-samples", ok, f"`{short(fcall, 50)}`; `{short(uc, 70)}`", "" if ok else "the update must use the fitness of the very samples it ranks (the population drawn in this iteration)", loc(mi, uc))


class _UnderRule:
    """The checker handed to a reading that another property owns: its obligations enter this property's table under ``rule``."""

    def __init__(self, ck, rule, prefix):
        self._ck, self._rule, self._prefix = ck, rule, prefix

    def ob(self, rule, site, key, ok, *rest, **kw):
        return self._ck.ob(self._rule, site, self._prefix + key, ok, *rest, **kw)

    def __getattr__(self, name):
        return getattr(self._ck, name)


class _NoEvidenceWhen(_UnderRule):
    """The checker handed to a rule group whose code contains a form that the path evaluation does not read faithfully: a failed
    comparison is then no evidence of a difference (undecided); a successful one stands."""

    def __init__(self, ck, why):
        self._ck, self._why = ck, why

    def ob(self, rule, site, key, ok, *rest, **kw):
        if not ok:
            raise AnalysisError(f"{site}: {rule}/{key} differs, but {self._why} (unrecognised form)")
        return self._ck.ob(rule, site, key, ok, *rest, **kw)


def _starred_targets(repo, prefix):
    """Assignments `a, *rest = value` in the routines of a module: the path evaluation binds `rest` to one component of the value instead
    of the list of the remaining ones, so values that flow through it are misread."""
    out = []
    for qual, f2, _mi in repo.all_functions():
        if qual.startswith(prefix):
            for n in ast.walk(f2):
                tgs = n.targets if isinstance(n, ast.Assign) else [n.target] if isinstance(n, (ast.For, ast.AnnAssign)) else []
                if any(isinstance(t, ast.Starred) for tg in tgs for t in ast.walk(tg)):
                    out.append(f"{qual}: `{short(n, 50)}`")
    return out


def r6_cem_proposal(ck, repo, nf):
    """Every candidate that cem_sample proposes lies in [lb, ub] for a mean inside the box: candidates = Z * S + mean with |Z| <= T and
    S capped by c * (distance to either bound), T * c <= 1 - or an outermost clip to (lb, ub).  A sampling spread with a floor / without such
    a cap is a violation only with a numeric witness (lb, ub, mean, var) for which |Z| * S exceeds the distance.  One statement in two
    properties (C10 R4-cem-proposal): the reading is C10's, so the two checks cannot disagree."""
    from . import c10
    reading, nfc = getattr(c10, "_cem_sample", None), getattr(c10, "_NF", None)
    if reading is None or nfc is None:
        return          # the shared reading moved: the statement stays decided by C10
    reading(_UnderRule(ck, "R6-cem", "proposal-"), repo, nfc(repo, inline_depth=3), "rl_blox.blox.cross_entropy_method.cem_sample")


# ---- R2: non-finite fitness (the NaN world of the incumbent table) ----------------------------------------------------------------------------
_NAN_PROPAGATE = {"float", "sum", "abs", "asarray", "array", "squeeze", "item", "negative", "float32", "float64", "mean", "ravel", "copy"}
_NAN_ANY = {"minimum", "maximum", "add", "subtract", "multiply", "divide"}        # numpy / jax.numpy: NaN if any operand is NaN
_NAN_SKIP = {"fmin", "fmax", "nanmin", "nanmax", "nan_to_num", "nansum"}             # these remove the NaN (result unknown / not NaN)


def r2_nan_candidate(ck, repo, nf):
    """The fitness sequence may contain non-finite values.  A NaN candidate is not better than anything: the documented comparison
    `candidate <= best` is False for it and the incumbent is kept as a whole.  Decided by abstract interpretation of set_evaluation_feedback
    over {NaN, not NaN, unknown} with the feedback = NaN: arithmetic propagates NaN, every comparison with a NaN operand is False (`!=` True),
    the builtin min / max return their FIRST argument unless the second compares smaller / larger (so `min(nan, x)` is nan, `min(x, nan)` is
    x), numpy's minimum / maximum propagate.  Evidence of a violation: on a path of that world best_fitness receives a NaN value, or
    best_params receives a value read from the population."""
    q = CM + "set_evaluation_feedback"
    fn = repo.func(q)
    mi = fn._module
    params = param_names(fn)
    ck.need(len(params) >= 4, f"{q}: signature changed (anchor vanished)")
    CONF, ST, POP, FB = params[:4]
    if any(isinstance(x, (ast.For, ast.While, ast.Try, ast.With, ast.Match)) for x in ast.walk(fn)):
        raise AnalysisError(f"{q}: loops / try / with / match in the feedback routine (the NaN world is not read: unrecognised form)")
    NAN, FIN, UNK = "nan", "fin", "unk"
    found, n_paths = [], [0]

    def key(e):
        return dotted(e) if isinstance(e, (ast.Name, ast.Attribute)) else None

    def ev(e, st):
        if isinstance(e, ast.Constant):
            return FIN if isinstance(e.value, (int, float, bool)) and e.value == e.value else UNK
        if isinstance(e, (ast.Name, ast.Attribute)):
            k_ = key(e)
            if k_ in st:
                return st[k_]
            return NAN if k_ == FB else UNK
        if isinstance(e, ast.UnaryOp) and isinstance(e.op, (ast.USub, ast.UAdd)):
            return ev(e.operand, st)
        if isinstance(e, ast.BinOp):
            a, b = ev(e.left, st), ev(e.right, st)
            return NAN if NAN in (a, b) else FIN if (a, b) == (FIN, FIN) else UNK
        if isinstance(e, ast.IfExp):
            t = truth(e.test, st)
            if t is None:
                a, b = ev(e.body, st), ev(e.orelse, st)
                return a if a == b else UNK
            return ev(e.body if t else e.orelse, st)
        if isinstance(e, ast.Call) and isinstance(e.func, (ast.Name, ast.Attribute)) and not e.keywords and not any(isinstance(a, ast.Starred) for a in e.args):
            name = (dotted(e.func) or "").split(".")[-1]
            args = [ev(a, st) for a in e.args]
            recv = ev(e.func.value, st) if isinstance(e.func, ast.Attribute) and not isinstance(e.func.value, ast.Name) else None
            if isinstance(e.func, ast.Attribute) and isinstance(e.func.value, ast.Name) and key(e.func.value) in st:
                recv = st[key(e.func.value)]          # x.sum(), x.item() on a tracked local
            if name in _NAN_SKIP:
                return UNK
            if isinstance(e.func, ast.Name) and name in ("min", "max") and len(args) == 2:
                # Python: min(a, b) is a unless b < a; a comparison with NaN is False
                return NAN if args[0] == NAN else args[0] if args[1] == NAN else (FIN if args == [FIN, FIN] else UNK)
            if name in _NAN_ANY and len(args) == 2:
                return NAN if NAN in args else FIN if args == [FIN, FIN] else UNK
            if name in _NAN_PROPAGATE:
                src = [x for x in args + ([recv] if recv is not None else [])]
                if len(src) == 1:
                    return src[0]
            return UNK
        return UNK

    def truth(t, st):
        """True / False when the NaN operand decides the test, None otherwise."""
        if isinstance(t, ast.UnaryOp) and isinstance(t.op, ast.Not):
            r = truth(t.operand, st)
            return None if r is None else not r
        if isinstance(t, ast.BoolOp):
            rs = [truth(v, st) for v in t.values]
            if isinstance(t.op, ast.And):
                return False if False in rs else (True if all(r is True for r in rs) else None)
            return True if True in rs else (False if all(r is False for r in rs) else None)
        if isinstance(t, ast.Compare) and len(t.ops) == 1:
            a, b = ev(t.left, st), ev(t.comparators[0], st)
            if NAN in (a, b):
                if isinstance(t.ops[0], (ast.Lt, ast.LtE, ast.Gt, ast.GtE, ast.Eq)):
                    return False
                if isinstance(t.ops[0], ast.NotEq):
                    return True
            return None
        if isinstance(t, ast.Call) and (dotted(t.func) or "").split(".")[-1] in ("isnan",) and len(t.args) == 1:
            a = ev(t.args[0], st)
            return True if a == NAN else False if a == FIN else None
        if isinstance(t, ast.Call) and (dotted(t.func) or "").split(".")[-1] in ("isfinite",) and len(t.args) == 1:
            a = ev(t.args[0], st)
            return False if a == NAN else True if a == FIN else None
        return None

    def run_block(stmts, st, trail):
        for i, s_ in enumerate(stmts):
            if isinstance(s_, ast.If):
                t = truth(s_.test, st)
                rest = stmts[i + 1:]
                for lab in ([t] if t is not None else [True, False]):
                    run_block((s_.body if lab else s_.orelse) + rest, dict(st), trail + [f"L{s_.lineno}: {short(s_.test, 50)} is {lab}" + (" (NaN operand)" if t is not None else "")])
                return
            if isinstance(s_, (ast.Return, ast.Raise)):
                n_paths[0] += 1
                return
            tgts, val = [], None
            if isinstance(s_, ast.Assign):
                tgts, val = s_.targets, s_.value
            elif isinstance(s_, ast.AnnAssign) and s_.value is not None:
                tgts, val = [s_.target], s_.value
            elif isinstance(s_, ast.AugAssign):
                tgts, val = [s_.target], ast.BinOp(left=s_.target, op=s_.op, right=s_.value)
            for t_ in tgts:
                k_ = key(t_)
                if isinstance(t_, (ast.Tuple, ast.List)):
                    for el in t_.elts:
                        if key(el):
                            st[key(el)] = UNK
                    continue
                if k_ is None:
                    continue
                v = ev(val, st)
                st[k_] = v
                if k_ == f"{ST}.best_fitness" and v == NAN:
                    found.append((s_, "best_fitness receives the NaN fitness", trail + [f"L{s_.lineno}: {short(s_, 70)}"]))
                if k_ == f"{ST}.best_params" and any(isinstance(x, ast.Name) and x.id == POP for x in ast.walk(val)):
                    found.append((s_, "best_params is replaced by the candidate although a NaN fitness is not better than the incumbent", trail + [f"L{s_.lineno}: {short(s_, 70)}"]))
        n_paths[0] += 1

    run_block(list(fn.body), {}, [])
    ck.need(n_paths[0] >= 1, f"{q}: no path evaluated in the NaN world (unrecognised form)")
    ok = not found
    ck.ob("R2-incumbent", q, "nan-candidate-keeps-incumbent", ok, f"{n_paths[0]} path(s) evaluated with a NaN feedback; comparisons with NaN are False, builtin min/max keep their first argument",
          "" if ok else f"with a NaN fitness {found[0][1]}: the next (worse) candidate then compares against NaN and the reported best is no longer the best candidate evaluated so far",
          loc(mi, found[0][0]) if found else loc(mi, fn), found[0][2] if found else None)



def run(ck, repo: Repo, tier: str):
    nf = _NF16(repo, inline_depth=2)
    ck0 = ck
    st = _starred_targets(repo, CM)
    if st:
        # starred unpacking in the module: the path evaluation misreads what flows through it - no violation is concluded from its values
        ck = _NoEvidenceWhen(ck0, f"the starred unpacking {st[0]} is not read")
    ck0.guard(r1_weights, ck, repo, nf)
    ck0.guard(r2_feedback_table, ck, repo, nf)
    ck0.guard(r2_handed_out, ck, repo, nf)
    ck0.guard(r2_nan_candidate, ck, repo, nf)
    ck0.guard(r2_train_loop, ck, repo, nf)
    ck0.guard(r34_update, ck, repo, nf)
    ck0.guard(r7_covariance, ck, repo, nf)
    ck = ck0
    ck.guard(r5_flat_set, ck, repo, nf)
    ck.guard(r6_cem, ck, repo, nf)
    ck.guard(r6_cem_proposal, ck, repo, nf)


_C, _X = "rl_blox/algorithm/cmaes.py", "rl_blox/blox/cross_entropy_method.py"
MUTANTS = [
    # was listed as benign while the order model covered ordered reals only: `if candidate > best: return` falls through for a NaN candidate
    {"id": "c16-early-keep-greater-than-lets-nan-through", "file": _C, "rule": "R2", "find": "    if fitness_k <= state.best_fitness:\n        state.best_fitness = fitness_k\n        state.best_fitness_it = state.it\n        state.best_params = population.samples[k]\n\n    state.it += 1",
     "replace": "    it = state.it\n    state.it = it + 1\n    if fitness_k > state.best_fitness:\n        return\n    state.best_fitness = fitness_k\n    state.best_fitness_it = it\n    state.best_params = population.samples[k]"},
    {"id": "c16-incumbent-min-first-arg-nan", "file": _C, "rule": "R2", "find": '    if fitness_k <= state.best_fitness:\n        state.best_fitness = fitness_k\n', "replace": '    state.best_fitness = min(fitness_k, state.best_fitness)\n    if state.best_fitness == fitness_k:\n'},
    {"id": "c16-incumbent-not-greater", "file": _C, "rule": "R2", "find": "    if fitness_k <= state.best_fitness:", "replace": "    if not fitness_k > state.best_fitness:"},
    {"id": "c16-neg-update-var-scale", "file": _C, "rule": "R7", "find": "        neg_update /= sigma\n", "replace": "        neg_update /= state.var\n"},
    {"id": "c16-neg-update-centre", "file": _C, "rule": "R7", "find": "        neg_update -= state.last_mean\n", "replace": "        neg_update -= state.mean\n"},
    {"id": "c16-rank-one-asymmetric", "file": _C, "rule": "R7", "find": "    rank_one_update = jnp.outer(state.pc, state.pc)", "replace": "    rank_one_update = jnp.outer(state.pc, state.ps)"},
    {"id": "c16-incumbent-view", "file": _C, "rule": "R2", "edits": [("            population = Population.create(\n                samples=sample_population(config, state)\n            )\n", "            np.copyto(population.samples, sample_population(config, state))\n            population.fitness[:] = [np.inf] * len(population.fitness)\n"),
        ("        return cls(samples=samples, fitness=[np.inf] * len(samples))", "        return cls(samples=np.array(samples), fitness=[np.inf] * len(samples))")]},
    {"id": "c16-next-clipped", "file": _C, "rule": "R2", "find": "    return population.samples[k]", "replace": "    return jnp.clip(population.samples[k], -1.0, 1.0)"},
    {"id": "c16-feedback-steps", "file": _C, "rule": "R2", "find": "        set_evaluation_feedback(config, state, population, ret)", "replace": "        set_evaluation_feedback(config, state, population, step_counter)"},
    {"id": "c16-cem-stale-fitness", "file": _X, "rule": "R6", "edits": [("        f = fitness_function(samples)\n", "        f = fitness_function(mean[jnp.newaxis] + 0.0 * samples)\n")], "accept_error": True},
    {"id": "c16-flat-unfiltered", "file": _C, "rule": "R5", "nth": 0, "find": "    state = nnx.state(net, nnx.Param)", "replace": "    state = nnx.state(net)"},
    {"id": "c16-incumbent-it-after", "file": _C, "rule": "R2", "find": "    if fitness_k <= state.best_fitness:\n        state.best_fitness = fitness_k\n        state.best_fitness_it = state.it\n        state.best_params = population.samples[k]\n\n    state.it += 1",
     "replace": "    state.it += 1\n    if fitness_k <= state.best_fitness:\n        state.best_fitness = fitness_k\n        state.best_fitness_it = state.it\n        state.best_params = population.samples[k]"},
    {"id": "c16-weights-unnormalised", "file": _C, "rule": "R1", "find": "        weights = weights / jnp.sum(weights)\n", "replace": "        weights = weights / jnp.max(weights)\n"},
    {"id": "c16-weights-log", "file": _C, "rule": "R1", "find": "        weights = math.log(mu + 0.5) - jnp.log1p(jnp.arange(int(mu)))", "replace": "        weights = math.log(mu + 0.5) - jnp.log(jnp.arange(int(mu)) + 2)"},
    {"id": "c16-incumbent-ge", "file": _C, "rule": "R2", "find": "    if fitness_k <= state.best_fitness:", "replace": "    if fitness_k >= state.best_fitness:"},
    {"id": "c16-incumbent-params-prev", "file": _C, "rule": "R2", "find": "        state.best_params = population.samples[k]", "replace": "        state.best_params = population.samples[k - 1]"},
    {"id": "c16-incumbent-partial", "file": _C, "rule": "R2", "find": "        state.best_fitness_it = state.it\n        state.best_params = population.samples[k]\n\n    state.it += 1", "replace": "        state.best_fitness_it = state.it\n    state.best_params = population.samples[k]\n\n    state.it += 1"},
    {"id": "c16-no-negation", "file": _C, "rule": "R2", "find": "    if config.maximize:\n        fitness_k = -fitness_k\n", "replace": "    if config.maximize:\n        fitness_k = fitness_k\n"},
    {"id": "c16-k-after-increment", "file": _C, "rule": "R2", "find": "    k = state.it % config.n_samples_per_update\n    fitness_k = float(jnp.sum(feedback))", "replace": "    state.it += 1\n    k = state.it % config.n_samples_per_update\n    state.it -= 1\n    fitness_k = float(jnp.sum(feedback))"},
    {"id": "c16-mean-worst", "file": _C, "rule": "R3", "find": "    update_samples = samples[ranking[: config.mu]]", "replace": "    update_samples = samples[ranking[-config.mu :]]"},
    {"id": "c16-mean-unweighted", "file": _C, "rule": "R3", "find": "        config.weights[:, jnp.newaxis] * update_samples, axis=0\n    )", "replace": "        update_samples / config.mu, axis=0\n    )"},
    {"id": "c16-last-mean-after", "file": _C, "rule": "R3", "find": "    state.last_mean = state.mean\n    ranking = jnp.argsort(fitness, axis=0)\n    update_samples = samples[ranking[: config.mu]]\n    state.mean = jnp.sum(\n        config.weights[:, jnp.newaxis] * update_samples, axis=0\n    )\n",
     "replace": "    ranking = jnp.argsort(fitness, axis=0)\n    update_samples = samples[ranking[: config.mu]]\n    state.mean = jnp.sum(\n        config.weights[:, jnp.newaxis] * update_samples, axis=0\n    )\n    state.last_mean = state.mean\n"},
    {"id": "c16-cap-removed", "file": _C, "rule": "R4", "find": "    state.var = state.var * jnp.exp(min((0.6, log_step_size_update))) ** 2", "replace": "    state.var = state.var * jnp.exp(log_step_size_update) ** 2"},
    {"id": "c16-cap-value", "file": _C, "rule": "R4", "find": "min((0.6, log_step_size_update))", "replace": "min((6.0, log_step_size_update))"},
    {"id": "c16-set-filter", "file": _C, "rule": "R5", "nth": 1, "find": "    state = nnx.state(net, nnx.Param)", "replace": "    state = nnx.state(net)"},
    {"id": "c16-set-offset", "file": _C, "rule": "R5", "find": "        n_params_set += n_params_leaf", "replace": "        n_params_set += leaf.shape[0]"},
    {"id": "c16-reported-sign", "file": _C, "rule": "R2", "find": "    best_fitness = -state.best_fitness", "replace": "    best_fitness = state.best_fitness"},
    {"id": "c16-cem-worst-elites", "file": _X, "rule": "R6", "find": "    _, top_k = jax.lax.top_k(fitness, n_elite)", "replace": "    _, top_k = jax.lax.top_k(-fitness, n_elite)"},
    {"id": "c16-cem-bounds-swapped", "file": _X, "rule": "R6", "find": "        samples = cem_sample(mean, var, step_key, n_population, lb, ub)", "replace": "        samples = cem_sample(mean, var, step_key, n_population, ub, lb)"},
    # violation paths that need positive evidence (audit): each keeps a mutant
    {"id": "c16-foreign-writer", "file": _C, "rule": "R2", "find": "    state.last_mean = state.mean\n    ranking", "replace": "    state.best_fitness = jnp.inf\n    state.last_mean = state.mean\n    ranking"},
    {"id": "c16-evaluates-other-population", "file": _C, "rule": "R2", "find": "        set_params(policy, get_next_parameters(config, state, population))", "replace": "        fresh = Population.create(samples=sample_population(config, state))\n        set_params(policy, get_next_parameters(config, state, fresh))"},
    {"id": "c16-fitness-slot-index", "file": _C, "rule": "R2", "find": "    population.fitness[k] = fitness_k\n", "replace": "    population.fitness[state.it] = fitness_k\n"},
    {"id": "c16-set-offset-start", "file": _C, "rule": "R5", "find": "    n_params_set = 0\n", "replace": "    n_params_set = 1\n"},
    {"id": "c16-set-container-start", "file": _C, "rule": "R5", "find": "    new_leaves = []\n", "replace": "    new_leaves = [params]\n"},
    {"id": "c16-cem-no-selection", "file": _X, "rule": "R6", "find": "    elites = jnp.take(samples, top_k, axis=0)\n", "replace": "    elites = samples\n"},
    {"id": "c16-rank-mu-asymmetric", "file": _C, "rule": "R7", "find": "    rank_mu_update = noise.T.dot(jnp.diag(config.weights)).dot(noise)", "replace": "    rank_mu_update = noise.T.dot(jnp.diag(config.weights)).dot(update_samples)"},
    {"id": "c16-cap-removed-product", "file": _C, "rule": "R4", "find": "    state.var = state.var * jnp.exp(min((0.6, log_step_size_update))) ** 2", "replace": "    step = jnp.exp(log_step_size_update)\n    state.var = state.var * step * step"},
    # the evaluated point and the recombined point are one value (two cooperating sites: the projection moves from sampling to hand-out)
    {"id": "c16-handout-projects-raw-draw", "file": _C, "rule": "R2", "edits": [("    if config.bounds is not None:\n        samples = jnp.clip(samples, config.bounds[:, 0], config.bounds[:, 1])\n", ""),
        ("    return population.samples[k]", "    row = population.samples[k]\n    if config.bounds is not None:\n        row = jnp.minimum(jnp.maximum(row, config.bounds[:, 0]), config.bounds[:, 1])\n    return row")]},
    {"id": "c16-handout-abs-of-raw-draw", "file": _C, "rule": "R2", "find": "    return population.samples[k]", "replace": "    return jnp.abs(population.samples[k])"},
    # a guard on an optional configuration field is read as a free boolean of the table: the incumbent is only tracked without bounds
    {"id": "c16-incumbent-only-unbounded", "file": _C, "rule": "R2", "find": "    if fitness_k <= state.best_fitness:", "replace": "    if config.bounds is None and fitness_k <= state.best_fitness:"},
    {"id": "c16-train-projects-handed-out", "file": _C, "rule": "R2", "edits": [("    if config.bounds is not None:\n        samples = jnp.clip(samples, config.bounds[:, 0], config.bounds[:, 1])\n", ""),
        ("        set_params(policy, get_next_parameters(config, state, population))", "        proposal = get_next_parameters(config, state, population)\n        set_params(policy, jnp.minimum(jnp.maximum(proposal, config.bounds[:, 0]), config.bounds[:, 1]))")]},
    {"id": "c16-incumbent-params-swapped-projection", "file": _C, "rule": "R2", "find": "        state.best_params = population.samples[k]", "replace": "        state.best_params = population.samples[k]\n        if config.bounds is not None:\n            state.best_params = population.samples[k - 1]"},
    # a tuple record that carries the ranking and the selection from a helper to the update is read through (positional reads / unpacking
    # of the constructor): the selection it carries is judged like an inline one
    {"id": "c16-record-carrier-selects-worst", "file": _C, "rule": "R3", "edits": [("from collections import namedtuple\n", "from collections import namedtuple\nfrom typing import NamedTuple\n"),
        ("def update_search_distribution(\n", "class _Ranked(NamedTuple):\n    order: jnp.ndarray\n    chosen: jnp.ndarray\n\n\ndef _rank(rows, values, count):\n    order = jnp.argsort(values)\n    return _Ranked(order, rows[order[-count:]])\n\n\ndef update_search_distribution(\n"),
        ("    ranking = jnp.argsort(fitness, axis=0)\n    update_samples = samples[ranking[: config.mu]]\n", "    ranking, update_samples = _rank(samples, fitness, config.mu)\n")]},
    {"id": "c16-cem-worst-elites-keyword-k", "file": _X, "rule": "R6", "edits": [("    _, top_k = jax.lax.top_k(fitness, n_elite)\n    elites = jnp.take(samples, top_k, axis=0)\n", "    chosen = jax.lax.top_k(-fitness, k=n_elite)[1]\n    elites = samples[chosen]\n")]},
    # the proposal stays in the box: the spread is capped by the distance to either bound (reading shared with C10)
    {"id": "c16-cem-spread-floor", "file": _X, "rule": "R6", "find": "    samples = (\n        jax.random.truncated_normal(", "replace": "    constrained_var = constrained_var + 1e-8\n    samples = (\n        jax.random.truncated_normal("},
    {"id": "c16-cem-spread-cap-too-wide", "file": _X, "rule": "R6", "find": "(0.5 * ub_dist) ** 2", "replace": "(0.75 * ub_dist) ** 2"},
    {"id": "c16-cem-reversed-ranking-of-negated-fitness", "file": _X, "rule": "R6", "edits": [("    _, top_k = jax.lax.top_k(fitness, n_elite)\n    elites = jnp.take(samples, top_k, axis=0)\n", "    order = jnp.argsort(-fitness)[::-1]\n    elites = samples[order[:n_elite], :]\n")]},
]
BENIGN = [
    {"id": "c16-b-incumbent-min-best-first", "file": _C, "find": '    if fitness_k <= state.best_fitness:\n        state.best_fitness = fitness_k\n', "replace": '    previous_best = state.best_fitness\n    state.best_fitness = min(state.best_fitness, fitness_k)\n    if fitness_k <= previous_best:\n'},
    {"id": "c16-b-scatter-broadcast", "file": _C, "find": "    rank_mu_update = noise.T.dot(jnp.diag(config.weights)).dot(noise)", "replace": "    rank_mu_update = (config.weights[:, jnp.newaxis] * noise).T.dot(noise)"},
    {"id": "c16-b-incumbent-copied", "file": _C, "edits": [("            population = Population.create(\n                samples=sample_population(config, state)\n            )\n", "            np.copyto(population.samples, sample_population(config, state))\n            population.fitness[:] = [np.inf] * len(population.fitness)\n"),
        ("        return cls(samples=samples, fitness=[np.inf] * len(samples))", "        return cls(samples=np.array(samples), fitness=[np.inf] * len(samples))"), ("        state.best_params = population.samples[k]", "        state.best_params = np.array(population.samples[k])")]},
    {"id": "c16-b-ifexp-cost", "file": _C, "find": "    fitness_k = float(jnp.sum(feedback))\n    if config.maximize:\n        fitness_k = -fitness_k\n", "replace": "    total = float(jnp.sum(feedback))\n    fitness_k = -total if config.maximize else total\n"},
    {"id": "c16-b-flat-comprehension", "file": _C, "find": "    flat_leaves = list(map(lambda x: x.ravel(), leaves))\n    return jnp.concatenate(flat_leaves, axis=0)", "replace": "    return jnp.concatenate([leaf.reshape(-1) for leaf in leaves])"},
    {"id": "c16-b-flatten-call", "file": _C, "nth": 1, "find": "    leaves = jax.tree_util.tree_leaves(state)\n    treedef = jax.tree_util.tree_structure(state)\n", "replace": "    leaves, treedef = jax.tree_util.tree_flatten(state)\n"},
    {"id": "c16-b-cem-kwargs", "file": _X, "find": "        mean, var = cem_update(samples, f, mean, var, n_elite, alpha)", "replace": "        mean, var = cem_update(samples=samples, fitness=fitness_function(samples), mean=mean, var=var, n_elite=n_elite, alpha=alpha)"},
    {"id": "c16-b-early-keep", "file": _C, "find": "    if fitness_k <= state.best_fitness:\n        state.best_fitness = fitness_k\n        state.best_fitness_it = state.it\n        state.best_params = population.samples[k]\n\n    state.it += 1",
     "replace": "    it = state.it\n    state.it = it + 1\n    if not (fitness_k <= state.best_fitness):\n        return\n    state.best_fitness = fitness_k\n    state.best_fitness_it = it\n    state.best_params = population.samples[k]"},
    {"id": "c16-b-lt", "file": _C, "find": "    if fitness_k <= state.best_fitness:", "replace": "    if fitness_k < state.best_fitness:"},
    {"id": "c16-b-var-square", "file": _C, "find": "    state.var = state.var * jnp.exp(min((0.6, log_step_size_update))) ** 2", "replace": "    step = jnp.exp(min((0.6, log_step_size_update)))\n    state.var = state.var * step**2"},
    # refactoring kinds the rules were made tolerant to (audit)
    {"id": "c16-b-create-inherited", "file": _C, "edits": [("@struct.dataclass\nclass CMAESConfig:\n", "@struct.dataclass\nclass _CMAESConfigBase:\n"),
        ("@dataclasses.dataclass(frozen=False)\nclass CMAESState:", "@struct.dataclass\nclass CMAESConfig(_CMAESConfigBase):\n    \"\"\"Configuration of CMA-ES.\"\"\"\n\n\n@dataclasses.dataclass(frozen=False)\nclass CMAESState:")]},
    {"id": "c16-b-feedback-alias-keywords", "file": _C, "find": "        set_evaluation_feedback(config, state, population, ret)", "replace": "        cma_config = config\n        set_evaluation_feedback(feedback=float(ret), population=population, state=state, config=cma_config)"},
    {"id": "c16-b-result-keywords", "file": _C, "find": "    best_fitness = -state.best_fitness\n    return namedtuple(\"CMAESResult\", [\"policy\", \"best_fitness\", \"stopped\"])(\n        policy, best_fitness, stopped\n    )",
     "replace": "    incumbent = state.best_fitness\n    result = namedtuple(\"CMAESResult\", [\"policy\", \"best_fitness\", \"stopped\"])(\n        stopped=stopped, best_fitness=-incumbent, policy=policy\n    )\n    return result"},
    {"id": "c16-b-set-params-initial-values", "file": _C, "find": "    n_params_set = 0\n    new_leaves = []\n", "replace": "    n_params_set, new_leaves = 0, list()\n"},
    {"id": "c16-b-mean-spelling", "file": _C, "edits": [("    ranking = jnp.argsort(fitness, axis=0)\n    update_samples = samples[ranking[: config.mu]]\n", "    ranking = jnp.argsort(fitness)\n    update_samples = samples[ranking][: config.mu]\n"),
        ("        config.weights[:, jnp.newaxis] * update_samples, axis=0\n", "        config.weights[:, None] * update_samples, 0\n")]},
    {"id": "c16-b-cem-samples-copy", "file": _X, "find": "        samples = cem_sample(mean, var, step_key, n_population, lb, ub)\n        f = fitness_function(samples)\n", "replace": "        drawn = cem_sample(mean, var, step_key, n_population, lb, ub)\n        samples = drawn\n        f = jnp.asarray(fitness_function(samples))\n"},
    {"id": "c16-b-next-row", "file": _C, "find": "    return population.samples[k]", "replace": "    return population.samples[k, :]"},
    {"id": "c16-b-maximize-constant", "file": _C, "edits": [("@struct.dataclass\nclass CMAESConfig:", "_MAXIMIZE_RETURN = True\n\n\n@struct.dataclass\nclass CMAESConfig:"), ("        maximize=True,\n        min_variance=2", "        maximize=_MAXIMIZE_RETURN,\n        min_variance=2")]},
    {"id": "c16-b-incumbent-order", "file": _C, "find": "        state.best_fitness = fitness_k\n        state.best_fitness_it = state.it\n", "replace": "        state.best_fitness_it = state.it\n        state.best_fitness = fitness_k\n"},
    # hand-out / bookkeeping forms the rules read (idempotent re-projection, value-preserving conversions, guards on optional fields)
    {"id": "c16-b-handout-reprojected", "file": _C, "find": "    return population.samples[k]", "replace": "    candidate = population.samples[k]\n    if config.bounds is None:\n        return candidate\n    return jnp.clip(candidate, config.bounds[:, 0], config.bounds[:, 1])"},
    {"id": "c16-b-handout-asarray", "file": _C, "find": "    return population.samples[k]", "replace": "    return jnp.asarray(population.samples[k])"},
    {"id": "c16-b-incumbent-is-handout", "file": _C, "find": "        state.best_params = population.samples[k]", "replace": "        state.best_params = get_next_parameters(config, state, population)"},
    {"id": "c16-b-feedback-bounds-guard", "file": _C, "find": "        state.best_params = population.samples[k]", "replace": "        if config.bounds is None:\n            state.best_params = population.samples[k]\n        else:\n            state.best_params = population.samples[k, :]"},
    {"id": "c16-b-train-candidate-converted", "file": _C, "find": "        set_params(policy, get_next_parameters(config, state, population))", "replace": "        proposal = get_next_parameters(population=population, config=config, state=state)\n        set_params(policy, jnp.asarray(proposal))"},
    {"id": "c16-b-handout-reprojected-population-temporaries", "file": _C, "edits": [("    return population.samples[k]", "    x = population.samples[k]\n    return x if config.bounds is None else jnp.clip(x, config.bounds[:, 0], config.bounds[:, 1])"),
        ("            population = Population.create(\n                samples=sample_population(config, state)\n            )\n", "            drawn = sample_population(config=config, state=state)\n            population = Population(samples=drawn, fitness=[np.inf] * len(drawn))\n")]},
    {"id": "c16-b-incumbent-defensive-reprojection", "file": _C, "find": "        state.best_params = population.samples[k]", "replace": "        winner = population.samples[k]\n        if config.bounds is not None:\n            winner = jnp.clip(winner, config.bounds[:, 0], config.bounds[:, 1])\n        state.best_params = winner"},
    {"id": "c16-b-sample-helper-projection", "file": _C, "edits": [("def sample_population(config: CMAESConfig, state: CMAESState) -> jnp.ndarray:", "def _into_box(config, x):\n    if config.bounds is None:\n        return x\n    return jnp.clip(x, config.bounds[:, 0], config.bounds[:, 1])\n\n\ndef sample_population(config: CMAESConfig, state: CMAESState) -> jnp.ndarray:"),
        ("    if config.bounds is not None:\n        samples = jnp.clip(samples, config.bounds[:, 0], config.bounds[:, 1])\n    return samples", "    return _into_box(config, samples)"),
        ("    return population.samples[k]", "    return _into_box(config, population.samples[k])")]},
    # value carriers between a helper and the update: NamedTuple unpacked / read by position, namedtuple(...) record; keyword `k` of top_k
    {"id": "c16-b-record-carrier-unpacked", "file": _C, "edits": [("from collections import namedtuple\n", "from collections import namedtuple\nfrom typing import NamedTuple\n"),
        ("def update_search_distribution(\n", "class _Ranked(NamedTuple):\n    order: jnp.ndarray\n    chosen: jnp.ndarray\n\n\ndef _rank(rows, values, count):\n    order = jnp.argsort(values)\n    return _Ranked(order, rows[order][:count])\n\n\ndef update_search_distribution(\n"),
        ("    ranking = jnp.argsort(fitness, axis=0)\n    update_samples = samples[ranking[: config.mu]]\n", "    ranking, update_samples = _rank(samples, fitness, config.mu)\n")]},
    {"id": "c16-b-record-carrier-indexed", "file": _C, "edits": [("def update_search_distribution(\n", "_Ranked = namedtuple(\"_Ranked\", [\"order\", \"chosen\"])\n\n\ndef update_search_distribution(\n"),
        ("    ranking = jnp.argsort(fitness, axis=0)\n    update_samples = samples[ranking[: config.mu]]\n", "    order = jnp.argsort(fitness, axis=0)\n    picked = _Ranked(chosen=samples[order[: config.mu]], order=order)\n    ranking = picked[0]\n    update_samples = picked[-1]\n")]},
    {"id": "c16-b-cem-top-k-keyword", "file": _X, "edits": [("    _, top_k = jax.lax.top_k(fitness, n_elite)\n    elites = jnp.take(samples, top_k, axis=0)\n", "    chosen = jax.lax.top_k(fitness, k=n_elite)[1]\n    elites = samples[chosen]\n")]},
    {"id": "c16-b-cem-spread-std-form", "file": _X, "edits": [("    constrained_var = jnp.minimum(\n        jnp.minimum((0.5 * lb_dist) ** 2, (0.5 * ub_dist) ** 2),\n        var,\n    )\n", "    spread = jnp.minimum(jnp.minimum(lb_dist / 2.0, ub_dist / 2.0), jnp.sqrt(var))\n"),
        ("        * jnp.sqrt(constrained_var)[jnp.newaxis]\n", "        * spread[None]\n")]},
    {"id": "c16-b-cem-spread-tighter-cap", "file": _X, "find": "(0.5 * lb_dist) ** 2", "replace": "(0.25 * lb_dist) ** 2"},
    # starred unpacking is not read by the path evaluation: no violation may be concluded from a value that flowed through it (undecided at worst; agreeing values stand)
    {"id": "c16-b-star-unpack-beside-the-selection", "file": _C, "find": "    ranking = jnp.argsort(fitness, axis=0)\n", "replace": "    n_rows, *row_shape = samples.shape\n    ranking = jnp.argsort(fitness, axis=0)\n"},
    {"id": "c16-b-cem-reversed-ranking", "file": _X, "edits": [("    _, top_k = jax.lax.top_k(fitness, n_elite)\n    elites = jnp.take(samples, top_k, axis=0)\n", "    order = jnp.argsort(fitness)[::-1]\n    elites = samples[order[:n_elite], :]\n")]},
    {"id": "c16-b-cem-top-k-all-keywords", "file": _X, "edits": [("    _, top_k = jax.lax.top_k(fitness, n_elite)\n", "    _values, top_k = jax.lax.top_k(operand=fitness, k=n_elite)\n")]},
]
