"""C01 - stored experience equals what the environment produced (role-exact dataflow on the CFG)."""
from __future__ import annotations

import ast

from ..cfg import CFG
from ..loops import ENV_LOOPS, Origins, find_env_loop, strip_wrappers, dotted
from ..repo import Repo, loc, short, positional_params, bind_call, AnalysisError

EXPLANATION = (
    "For each of the environment-interaction loops of rl_blox the checker builds the statement CFG and reaching "
    "definitions and decides, for every CFG path (merged dataflow), positional role agreement between the results of "
    "env.step/env.reset and every store site (replay-buffer add_sample, EpisodeDataset.add_sample, rollout appends, "
    "Monte-Carlo arrays, tabular/Dyna-Q update calls mapped through the callee signature) and every act site. Roles "
    "are tuple positions of the gymnasium protocol, never variable names. R3 is a path property: from an in-loop reset "
    "definition of the observation no other definition may be reached without passing the step statement."
)
TRUSTED = [
    "gymnasium protocol: env.step returns (next_obs, reward, terminated, truncated, info); env.reset returns (obs, info)",
    "CPython ast semantics; int()/float()/np.asarray()/jnp.array()/jnp.copy()/x[jnp.newaxis] preserve the stored value; np.asarray of an array is the same object (no copy)",
    "vector environments auto-reset (no in-loop reset obligation for a2c/ppo collect_trajectories)",
]
RULES = {
    "R1-store-role": "at every store site the reward / successor observation / terminated / truncated arguments have position "
                     "1/0/2/3 of the step statement of the same iteration as their only origin; the stored action has the "
                     "same reaching definitions as the action passed to env.step",
    "R2-obs-provenance": "every definition of the stored observation that reaches the step statement originates in reset()[0], "
                         "position 0 of the step statement (carry) or a parameter; the stored observation is the observation variable (or a plain "
                         "copy of it, followed to where the copy was made) with the definitions the step saw and no redefinition in between "
                         "(value-preserving x = wrapper(x) aside); the object returned at position 0 is not overwritten element-wise while it "
                         "is still to be stored / carried",
    "R3-boundary": "from every in-loop reset definition of the observation no other definition of it is reachable without passing "
                   "env.step; no path from step back to step leaves the observation undefined-stale; in-loop resets bind the observation; "
                   "a single-environment loop in which the environment is only used through its attributes has a reset statement",
    "R4-act-on-current": "the observation used to compute the action passed to env.step has the same reaching definitions as "
                         "the stored observation and never is the successor observation; after an in-loop reset the action is computed "
                         "again on every path to env.step (a value chosen before the reset is not carried over by copies)",
}

# parameter / keyword names -> role.  Names of *API parameters* of the store callee, not of local variables.
ROLE_OF = {
    "observation": "O", "obs": "O", "observations": "O",
    "action": "A", "actions": "A", "act": "A",
    "reward": "R", "rewards": "R",
    "next_observation": "N", "next_obs": "N",
    "termination": "D", "terminated": "D", "terminations": "D",
    "truncated": "T", "truncations": "T", "truncation": "T",
}
STEP_POS = {"N": 0, "R": 1, "D": 2, "T": 3}

# loops of C01's quantifier (cmaes / generate_rollout keep no transitions: only R3/R4 apply and are run under C11/C13)
C01_LOOPS = [q for q in ENV_LOOPS if not q.endswith(("train_cmaes", "generate_rollout"))]
# store callees resolved through their signature (tabular learners, Dyna-Q, EpisodeDataset)
SIG_STORES = {
    "rl_blox.algorithm.q_learning.train_q_learning": ["rl_blox.algorithm.q_learning._update_policy"],
    "rl_blox.algorithm.sarsa.train_sarsa": ["rl_blox.algorithm.sarsa._update_policy"],
    "rl_blox.algorithm.double_q_learning.train_double_q_learning": ["rl_blox.algorithm.double_q_learning._dql_update"],
    "rl_blox.algorithm.dynaq.train_dynaq": ["rl_blox.algorithm.dynaq.q_learning_update", "rl_blox.algorithm.dynaq.counter_update",
                                           "rl_blox.algorithm.dynaq.model_update"],
    "rl_blox.algorithm.monte_carlo.train_monte_carlo": ["rl_blox.algorithm.monte_carlo.update"],
}


def _store_sites(repo: Repo, L, ck):
    """Yield (node id, call, {role: arg expr}, description)."""
    cfg = L.cfg
    body = cfg.loop_body_nodes(L.outer_header)
    sites = []
    fn_mod = L.mi
    sig_callees = {}
    for q in SIG_STORES.get(L.qual, []):
        f = repo.func(q)
        sig_callees[q.rsplit(".", 1)[1]] = (q, f)
    sig_quals = {q: (q, f) for q, f in sig_callees.values() if not q.endswith("monte_carlo.update")}
    # Monte-Carlo: arrays filled with .at[i].set(x); role of the array = parameter of `update` it is passed to (bound by signature)
    arr_role, arr_clash = {}, set()
    if L.qual.endswith("train_monte_carlo"):
        q, f = sig_callees["update"]
        for n in cfg.nodes:
            if n.ast is None:
                continue
            for c in ast.walk(n.ast):
                if isinstance(c, ast.Call) and isinstance(c.func, (ast.Name, ast.Attribute)) and repo.resolve_expr(fn_mod, c.func) == q:
                    for pname, a in bind_call(f, c).items():
                        if not isinstance(a, ast.AST) or pname not in ROLE_OF:
                            continue
                        for nm in _flows_from(cfg, a, n.id):      # `obs_arr[start:i + 1]`, also through a temporary
                            if arr_role.setdefault(nm, ROLE_OF[pname]) != ROLE_OF[pname]:
                                arr_clash.add(nm)
        for nm in arr_clash:
            arr_role.pop(nm, None)
    # PPO: lists appended per step; role = field of the returned namedtuple the list flows into (through the assignments that
    # stack / reshape it after the loop)
    list_role, clash = {}, set()
    for n in cfg.nodes:
        s = n.ast
        if not (isinstance(s, ast.Return) and isinstance(s.value, ast.Call)):
            continue
        fields = None
        ctor = s.value.func
        if isinstance(ctor, ast.Call) and dotted(ctor.func).rsplit(".", 1)[-1] == "namedtuple" and len(ctor.args) == 2 and isinstance(ctor.args[1], (ast.List, ast.Tuple)) \
                and all(isinstance(e, ast.Constant) and isinstance(e.value, str) for e in ctor.args[1].elts):
            fields = [e.value for e in ctor.args[1].elts]                  # namedtuple("R", [...])(...)
        elif isinstance(ctor, (ast.Name, ast.Attribute)):
            q = repo.resolve_expr(fn_mod, ctor)                             # a NamedTuple / dataclass / namedtuple(...) of the package
            if q and repo.has(q):
                from ..nf import NF
                fields = NF._record_fields(repo.lookup(q)[1])
        if not fields or any(isinstance(a, ast.Starred) for a in s.value.args) or any(kw.arg is None for kw in s.value.keywords):
            continue
        bound = dict(zip(fields, s.value.args))
        bound.update({kw.arg: kw.value for kw in s.value.keywords})
        for fld, val in bound.items():
            if fld in ROLE_OF:
                for nm in _flows_from(cfg, val, n.id):
                    if list_role.setdefault(nm, ROLE_OF[fld]) != ROLE_OF[fld]:
                        clash.add(nm)
    for nm in clash:
        list_role.pop(nm, None)
    for nid in sorted(body):
        n = cfg.nodes[nid]
        s = n.ast
        if n.kind != "stmt" or s is None:
            continue
        if isinstance(s, ast.Assign) and len(s.targets) == 1 and isinstance(s.targets[0], ast.Subscript) and isinstance(s.targets[0].value, ast.Name) \
                and s.targets[0].value.id in arr_role:
            # host array filled in place: `arr[i] = x` (the functional form `arr = arr.at[i].set(x)` is read below)
            arr = s.targets[0].value.id
            sites.append((nid, s, {arr_role[arr]: s.value}, f"{arr}[i] = ... -> update({arr})"))
        for c in ast.walk(s):
            if not isinstance(c, ast.Call):
                continue
            f = c.func
            if isinstance(f, ast.Attribute) and f.attr == "add_sample":
                roles = {}
                if c.keywords and not c.args:
                    for kw in c.keywords:
                        if kw.arg in ROLE_OF:
                            roles[ROLE_OF[kw.arg]] = kw.value
                        elif kw.arg is not None:
                            ck.note(f"{L.qual}: add_sample keyword {kw.arg!r} has no protocol role (ignored)")
                else:
                    # positional: EpisodeDataset.add_sample(observation, action, next_observation, reward) - bound by the signature of the
                    # add_sample method of the receiver's class
                    m = _positional_add_sample(repo, L, nid, f.value)
                    for pname, a in bind_call(m[1], c, skip_self=True).items():
                        if pname in ROLE_OF and isinstance(a, ast.AST):
                            roles[ROLE_OF[pname]] = a
                sites.append((nid, c, roles, f"{dotted(f)}(...)"))
            elif isinstance(f, (ast.Name, ast.Attribute)) and repo.resolve_expr(fn_mod, f) in sig_quals and not (isinstance(f, ast.Name) and cfg.defs_of(nid, f.id)):
                q, fdef = sig_quals[repo.resolve_expr(fn_mod, f)]
                roles = {}
                for pname, a in bind_call(fdef, c).items():      # positional and keyword arguments, keyword-only parameters
                    if pname in ROLE_OF and isinstance(a, ast.AST):
                        roles[ROLE_OF[pname]] = a
                sites.append((nid, c, roles, f"{q.rsplit('.', 1)[1]}(...) via signature of {q}"))
            elif isinstance(f, ast.Attribute) and f.attr == "set" and isinstance(f.value, ast.Subscript) and isinstance(f.value.value, ast.Attribute) \
                    and f.value.value.attr == "at" and isinstance(f.value.value.value, ast.Name) and f.value.value.value.id in arr_role and c.args:
                arr = f.value.value.value.id
                sites.append((nid, c, {arr_role[arr]: c.args[0]}, f"{arr}.at[i].set(...) -> update({arr})"))
            elif isinstance(f, ast.Attribute) and f.attr == "append" and isinstance(f.value, ast.Name) and f.value.id in list_role and c.args \
                    and L.qual.endswith("ppo.collect_trajectories"):
                sites.append((nid, c, {list_role[f.value.id]: c.args[0]}, f"{f.value.id}.append(...) -> result field"))
    return sites


def _positional_add_sample(repo, L, at, receiver):
    """(owner, FunctionDef) of the add_sample method a positional call binds to: the class the receiver is constructed from / annotated
    with; failing that the only class of the package whose add_sample takes positional arguments."""
    cands = []
    if isinstance(receiver, ast.Name):
        for d in L.cfg.defs_of(at, receiver.id):
            e = None
            if d.kind in ("assign", "walrus") and isinstance(d.value, ast.Call):
                e = d.value.func
            elif d.kind == "param":
                for a in L.fn.args.posonlyargs + L.fn.args.args + L.fn.args.kwonlyargs:
                    if a.arg == d.name and a.annotation is not None:
                        e = a.annotation.left if isinstance(a.annotation, ast.BinOp) else a.annotation
            q = repo.resolve_expr(L.mi, e) if isinstance(e, (ast.Name, ast.Attribute)) else None
            try:
                repo.cls(q)
            except Exception:
                q = None
            cands.append(q)
    if cands and all(cands) and len(set(cands)) == 1:
        m = repo.method(cands[0], "add_sample")
        if m is not None:
            return m
    owners = []
    for mi in repo.modules.values():
        for name, node in mi.defs.items():
            if isinstance(node, ast.ClassDef):
                for ch in node.body:
                    if isinstance(ch, ast.FunctionDef) and ch.name == "add_sample" and len(positional_params(ch)) > 1:
                        owners.append(repo.canonical(f"{mi.name}.{name}", node))
    if len(owners) != 1:
        raise AnalysisError(f"{L.qual}: positional add_sample on `{short(receiver, 30)}`: the class of the receiver is not resolved and {len(owners)} classes define a positional add_sample (unrecognised form)")
    m = repo.method(owners[0], "add_sample")
    if m is None:
        raise AnalysisError(f"{L.qual}: add_sample of {owners[0]} not found (unrecognised form)")
    return m


def _names_in(e):
    return {x.id for x in ast.walk(e) if isinstance(x, ast.Name)}


def _flows_from(cfg, e, at, depth=4):
    """Names whose value flows into expression ``e`` at node ``at`` through plain assignments (`xs` of `ys = jnp.concat(xs)`; `return f(ys)`)."""
    out, seen = set(), set()
    work = [(e, at, 0)]
    while work:
        x, n, k = work.pop()
        for nm in _names_in(x):
            out.add(nm)
            if k >= depth:
                continue
            for d in cfg.defs_of(n, nm):
                if d.key() in seen or d.kind not in ("assign", "walrus") or not isinstance(d.value, ast.AST) or isinstance(d.value, ast.stmt):
                    continue
                seen.add(d.key())
                work.append((d.value, d.node, k + 1))
    return out


def _step_action(L):
    """The action expression passed to env.step (gymnasium: ``step(action)``), positional or by keyword."""
    c = L.step_call
    if c.args and not isinstance(c.args[0], ast.Starred):
        return c.args[0]
    for kw in c.keywords:
        if kw.arg == "action":
            return kw.value
    return None


def _action_base(L):
    a = _step_action(L)
    if a is None:
        return None
    b = strip_wrappers(a)
    return b.id if isinstance(b, ast.Name) else None


def _is_self_wrap(d) -> bool:
    """``x = int(x)`` / ``x = np.asarray(x)``: a redefinition that keeps the value (trusted wrappers)."""
    if d.kind != "assign" or not isinstance(d.value, ast.AST) or isinstance(d.value, ast.stmt):
        return False
    b = strip_wrappers(d.value)
    return isinstance(b, ast.Name) and b.id == d.name


def _eff_defs(cfg, at, name, _seen=None) -> frozenset:
    """Reaching definitions of ``name`` on entry to ``at``, read through value-preserving self-redefinitions."""
    _seen = set() if _seen is None else _seen
    out = set()
    for d in cfg.defs_of(at, name):
        if d.key() in _seen:
            continue
        if _is_self_wrap(d):
            _seen.add(d.key())
            out |= _eff_defs(cfg, d.node, name, _seen)
        else:
            out.add(d.key())
    return frozenset(out)


def _obs_var(L, stores, org):
    """The variable holding the *current* observation: bound by a reset (pre-loop or in-loop) or target of a carry
    ``x = <position 0 of step>``; for loops fed through a parameter (A2C/PPO) the carry target.  Several equally good candidates are
    told apart by which of them is defined when the loop is entered (the current observation exists before the first step)."""
    cfg = L.cfg
    cands = {}
    for n in cfg.nodes:
        for d in n.defs:
            if d.kind == "param":
                continue
            o = org.of_def(d, set())
            if o and all(x[0] == "reset" and x[1] == 0 for x in o):
                cands[d.name] = cands.get(d.name, 0) + 2
            elif o == {("step", 0)} and d.node != L.step_node:
                cands[d.name] = cands.get(d.name, 0) + 1
    if not cands:
        return None
    # the current observation exists before the first step: candidates that are defined when the loop is entered come first
    body = cfg.loop_body_nodes(L.outer_header)
    entered = {nm for nm in cands if any(dn not in body for dn, _ in cfg.reaching()[L.step_node].get(nm, frozenset()))}
    pool = {nm: v for nm, v in cands.items() if nm in entered} or cands
    top = max(pool.values())
    best = sorted(nm for nm, v in pool.items() if v == top)
    if len(best) > 1:
        # a variable all of whose definitions are (wrapped) copies of another candidate is a carried copy of that candidate (a device copy,
        # a cast): the candidate it is copied from is the observation variable
        def copy_of(nm):
            srcs = set()
            for n in cfg.nodes:
                for d in n.defs:
                    if d.name != nm or d.kind == "param":
                        continue
                    b = strip_wrappers(d.value) if d.kind in ("assign", "walrus") and isinstance(d.value, ast.AST) and not isinstance(d.value, ast.stmt) else None
                    if not isinstance(b, ast.Name) or b.id == nm:
                        return None
                    srcs.add(b.id)
            return srcs
        primary = [nm for nm in best if not ((copy_of(nm) or set()) and (copy_of(nm) or set()) <= (set(cands) | {L.pos.get(0)}) - {nm})]
        if len(primary) == 1:
            return primary[0]
        raise AnalysisError(f"{L.qual}: several variables {best} could hold the current observation (unrecognised form)")
    return best[0]


def _episode_record(ck, repo):
    """EpisodeDataset keeps one record per step: add_sample must put all four of its arguments (observation, action, successor
    observation, reward) into the element it appends to the current episode.  A representation that keeps one of them elsewhere
    (e.g. only the latest successor) has to reconstruct the per-step value later; that reconstruction is not read here - undecided."""
    from ..nf import NF, Poly
    from ..sympath import enumerate_paths, PathEval
    cq = "rl_blox.algorithm.reinforce.EpisodeDataset"
    m = repo.method(cq, "add_sample")
    if m is None:
        raise AnalysisError(f"{cq}.add_sample not found (anchor vanished)")
    fn = m[1]
    mi = repo.cls(m[0])._module          # the class that defines the method (it may be inherited from a base class / mixin)
    fn._module = mi
    nf = NF(repo, inline_calls=False)
    cfg = nf.cfg_of(fn)
    allp = positional_params(fn)[1:] + [a.arg for a in fn.args.kwonlyargs]      # without the receiver
    by_role = {ROLE_OF[p]: p for p in allp if p in ROLE_OF}
    if {"O", "A", "N", "R"} <= set(by_role):
        params = [by_role[r] for r in "OANR"]        # further (optional) parameters do not belong to the record
    elif len(allp) == 4:
        params = allp
    else:
        raise AnalysisError(f"{cq}.add_sample: signature changed (anchor vanished)")
    env0 = {p: Poly.atom(p, {p}, {p}) for p in allp}
    for pth in enumerate_paths(cfg, cfg.entry, {cfg.exit}):
        if any(isinstance(cfg.nodes[n_].ast, (ast.Raise, ast.Assert)) and cfg.nodes[n_].kind == "stmt" and isinstance(cfg.nodes[n_].ast, ast.Raise) for n_, _l in pth):
            continue
        pe = PathEval(nf, cfg, mi, cq + ".add_sample", env0).run(pth)
        apps = [v for (_n, key, v) in pe.appended if key.startswith("self.episodes[")]
        if len(apps) != 1:
            raise AnalysisError(f"{cq}.add_sample: {len(apps)} appends to the current episode on a path (unrecognised form)")
        rec = apps[0]
        held = set()
        for el in (rec.elems or [rec]):
            held |= {a for a in el.atoms() if a in params}
            # a construction of a plain record class (NamedTuple / dataclass) keeps its arguments as fields
            ctor = (el.single_atom() or "").split("(")[0]
            if ctor and repo.has(ctor):
                try:
                    if NF._record_fields(repo.cls(ctor)):
                        held |= {a for a in el.deps if a in params}
                except AnalysisError:
                    pass
        missing = [p for p in params if p not in held]
        if missing:
            raise AnalysisError(f"{cq}.add_sample: the per-step record `{rec.canon()[:80]}` does not hold {missing}: the value is kept elsewhere and reconstructed later (not read by this analysis)")
        ck.ob("R1-store-role", cq + ".add_sample", "record-holds-all-roles", True, f"appends {rec.canon()[:80]}", "", loc(mi, fn))


def _different_value(org, expr, at, wanted) -> bool | None:
    """True when ``expr`` is known to be another value than the protocol value ``wanted``: it depends on other step / reset
    positions.  None when that cannot be told (depends only on the wanted value - possibly an identity wrapper - or on untraceable names)."""
    # the dependence reading is coarse (every name read): a field / element taken out of a composite value (`rec.next_obs`, `result[0]`)
    # depends on everything the composite was built from, which says nothing about the one component that is read
    called = {id(c.func) for c in ast.walk(expr) if isinstance(c, ast.Call)}
    for x in ast.walk(expr):
        if isinstance(x, ast.Attribute) and id(x) not in called and x.attr not in ("at", "T", "real", "shape", "dtype"):
            return None       # `rec.next_obs`
        if isinstance(x, ast.Subscript) and isinstance(x.slice, ast.Constant) and not (isinstance(x.value, ast.Attribute) and x.value.attr == "at"):
            return None       # `result[0]`, `info["final_observation"]`
    d = org.deps(expr, at)
    if any(x[0] == "unknown" for x in d):
        return None
    others = {x for x in d if x[0] in ("step", "reset") and x[:2] != wanted[:2]}
    return True if others else None


def _env_confined(L) -> bool:
    """True when every use of the environment parameter in the function is `<env>.<attribute>...`, the environment is never passed on,
    aliased or rebound, and every `<env>.reset` is a statement of the function itself (not of a nested function / lambda): a reset can then
    only happen at the reset statements find_env_loop enumerates."""
    base_of_attr = {id(x.value) for x in ast.walk(L.fn) if isinstance(x, ast.Attribute)}
    own = L.fn.args.posonlyargs + L.fn.args.args + L.fn.args.kwonlyargs
    for x in ast.walk(L.fn):
        if isinstance(x, ast.Name) and x.id == L.env and not (isinstance(x.ctx, ast.Load) and id(x) in base_of_attr):
            return False
        if isinstance(x, ast.arg) and x.arg == L.env and not any(x is a for a in own):
            return False      # a nested function / lambda has a parameter of the same name
    def n_resets(t):
        return sum(1 for x in ast.walk(t) if isinstance(x, ast.Attribute) and x.attr == "reset" and isinstance(x.value, ast.Name) and x.value.id == L.env)
    return n_resets(L.fn) == sum(n_resets(L.cfg.nodes[r].ast) for r in set(L.resets_pre) | set(L.resets_in))


NOCOPY = {"np.asarray", "numpy.asarray"}      # of an array: the same object, not a copy


def _is_step0_object(cfg, L, name, at, seen=None) -> bool:
    """Some definition of ``name`` reaching ``at`` makes it the very object env.step returned at position 0: bound by the step statement,
    a plain assignment / element of a tuple assignment of such a name, or np.asarray of it (no copy)."""
    seen = set() if seen is None else seen
    for d in cfg.defs_of(at, name):
        if d.key() in seen:
            continue
        seen.add(d.key())
        if d.kind == "unpack" and d.node == L.step_node and tuple(d.path) == (0,):
            return True
        v = None
        if d.kind in ("assign", "walrus") and isinstance(d.value, ast.AST) and not isinstance(d.value, ast.stmt):
            v = d.value
        elif d.kind == "unpack" and isinstance(d.value, (ast.Tuple, ast.List)) and len(d.path) == 1 and isinstance(d.path[0], int) and d.path[0] < len(d.value.elts) \
                and not any(isinstance(x, ast.Starred) for x in d.value.elts):
            v = d.value.elts[d.path[0]]
        while isinstance(v, ast.Call) and dotted(v.func) in NOCOPY and len(v.args) == 1 and not v.keywords and not isinstance(v.args[0], ast.Starred):
            v = v.args[0]
        if isinstance(v, ast.Name) and _is_step0_object(cfg, L, v.id, d.node, seen):
            return True
    return False


def _writes_elements(stmt, name) -> bool:
    """`name[...] = v` / `name[...] += v`: the statement overwrites elements of the object bound to ``name``."""
    if isinstance(stmt, ast.Assign):
        tgts = stmt.targets
    elif isinstance(stmt, (ast.AugAssign, ast.AnnAssign)):
        tgts = [stmt.target]
    else:
        return False
    flat = []
    for t in tgts:
        flat += list(t.elts) if isinstance(t, (ast.Tuple, ast.List)) else [t]
    for t in flat:
        while isinstance(t, ast.Subscript):
            t = t.value
            if isinstance(t, ast.Name) and t.id == name:
                return True
    return False


def _copy_source(cfg, e, at, target, depth=6):
    """Follow plain copies: when the value of ``e`` at node ``at`` is the value variable ``target`` had on entry to some node p
    (``e`` is `target` itself, or a variable whose single reaching definition is a (wrapped) copy ... of `target`), return p; else None."""
    for _ in range(depth):
        b = strip_wrappers(e)
        if not isinstance(b, ast.Name):
            return None
        if b.id == target:
            return at
        ds = cfg.defs_of(at, b.id)
        if len(ds) != 1:
            return None
        d = ds[0]
        if d.kind in ("assign", "walrus") and isinstance(d.value, ast.AST) and not isinstance(d.value, ast.stmt):
            e, at = d.value, d.node
        elif d.kind == "unpack" and isinstance(d.value, (ast.Tuple, ast.List)) and len(d.path) == 1 and isinstance(d.path[0], int) and d.path[0] < len(d.value.elts) \
                and not any(isinstance(x, ast.Starred) for x in d.value.elts):
            e, at = d.value.elts[d.path[0]], d.node
        else:
            return None
    return None


def _stale_action_nodes(cfg, L, act):
    """Nodes that give the action passed to env.step a newly computed value: non-copy definitions (anything but `a = b` / wrappers /
    element-wise tuple copies) and in-place updates of a variable from which the action is reached through copies."""
    closure, grew = set(_names_in(act)), True
    defs = [d for n in cfg.nodes for d in n.defs]

    def copy_src(d):
        if d.kind in ("assign", "walrus") and isinstance(d.value, ast.AST) and not isinstance(d.value, ast.stmt):
            v = d.value
        elif d.kind == "unpack" and isinstance(d.value, (ast.Tuple, ast.List)) and len(d.path) == 1 and isinstance(d.path[0], int) and d.path[0] < len(d.value.elts) \
                and not any(isinstance(x, ast.Starred) for x in d.value.elts):
            v = d.value.elts[d.path[0]]
        else:
            return None
        b = strip_wrappers(v)
        return b.id if isinstance(b, ast.Name) else None
    while grew:
        grew = False
        for d in defs:
            if d.name in closure:
                src = copy_src(d)
                if src is not None and src not in closure:
                    closure.add(src)
                    grew = True
    fresh = set()
    for n in cfg.nodes:
        if any(d.name in closure and d.kind != "param" and copy_src(d) is None for d in n.defs) or (n.mutates & closure):
            fresh.add(n.id)
    return fresh, closure


def run(ck, repo: Repo, tier: str):
    cfgs = {}
    loops = []
    for q in C01_LOOPS:
        loops.append(find_env_loop(repo, q, cfgs))
    ck.floor("env-loops", len(loops), 19)
    n_sites = 0
    n_sites_box = [0]

    def one_loop(L):
        n_sites = 0
        cfg, S = L.cfg, L.step_node
        org = Origins(L)
        org.repo = repo
        site = L.qual

        def und(msg):
            """an obligation that cannot be decided: recorded, the remaining obligations of the loop are still evaluated"""
            ck.incomplete.append(msg)
        stores = _store_sites(repo, L, ck)
        n_sites += len(stores)
        n_sites_box[0] += n_sites
        ck.need(stores, f"{site}: no store site found (unrecognised idiom)")
        ovar = _obs_var(L, stores, org)
        ck.need(ovar is not None, f"{site}: cannot identify the observation variable at any store site")
        act = _step_action(L)
        avar = _action_base(L)
        ck.need(avar is not None, f"{site}: env.step argument is not a (wrapped) variable")
        body = cfg.loop_body_nodes(L.outer_header)
        rd = cfg.reaching()
        defs_at_S = rd[S].get(ovar, frozenset())
        eff_at_S = _eff_defs(cfg, S, ovar)
        nextvar = L.pos.get(0)
        used = _obs_uses_in_action(cfg, L, avar, ovar, nextvar, body)
        pol = [u for u in used if u[0] == ovar]
        # `ovar` is known to carry the current observation when the policy reads it or a store site keeps it as the observation; a loop
        # that keeps the observation elsewhere (an attribute of a tracker object, ...) gives no ground for the path obligations on `ovar`
        anchored = [bool(pol)]

        def ob_on_ovar(rule, key, ok, construct, why, where, wit=None):
            if not ok and not anchored[0]:
                und(f"{site}: {rule}/{key} fails for `{ovar}`, but neither the policy nor a store site reads `{ovar}` as the observation (the observation is kept elsewhere: unrecognised form)")
                return
            ck.ob(rule, site, key, ok, construct, why, where, wit)

        def same_as_at_step(p):
            """(ok, why) - does `ovar` on entry to node p hold the value env.step of the same iteration acted on?  None when p and the
            step are not ordered within the iteration."""
            after = cfg.dominates(S, p)
            here = _eff_defs(cfg, p, ovar)
            if after:
                between = _defs_between(cfg, S, p, ovar)
            elif cfg.dominates(p, S):
                between = _defs_between(cfg, p, S, ovar)
            else:
                return None
            ok = here == eff_at_S and not between
            why = ""
            if not ok:
                why = (f"observation `{ovar}` at the store site is defined at lines {_lines(cfg, here)} but env.step acted on the "
                       f"definitions at lines {_lines(cfg, eff_at_S)}" + (f"; redefined between step and store at line(s) {between}" if between else ""))
            return ok, why

        # ---- R1 / R2(store part) --------------------------------------------------------------
        for nid, call, roles, desc in stores:
            where = loc(L.mi, call)
            after_S = cfg.dominates(S, nid)
            for role, arg in sorted(roles.items()):
                if role in STEP_POS:
                    o = org.of_expr(arg, nid)
                    want = {("step", STEP_POS[role])}
                    ok = (o == want) and after_S
                    why = ""
                    if o != want and Origins.unknown(o) and _different_value(org, arg, nid, ("step", STEP_POS[role])) is None:
                        und(f"{site}: the {role} argument `{short(arg, 50)}` of the store cannot be traced to the step results ({sorted(map(str, Origins.unknown(o)))[:2]}) (unrecognised form)")
                        continue
                    if o != want:
                        why = f"origin of the {role} argument is {sorted(map(str, o))}, expected position {STEP_POS[role]} of `{short(L.step_stmt, 60)}`"
                    elif not after_S:
                        why = "store site is not dominated by env.step of the same iteration (value of a previous step)"
                    ck.ob("R1-store-role", site, f"{role}:{desc.split('(')[0]}", ok, f"{role} <- {short(arg, 50)} at {desc}", why, where)
                elif role == "A":
                    # the stored action is the value passed to env.step (same provenance: same definitions, through copies / records)
                    o_st = org.of_expr(arg, nid)
                    o_act = org.of_expr(act, S)
                    ok = bool(o_st) and o_st == o_act
                    why = "" if ok else f"stored action `{short(arg, 40)}` does not have the provenance of the action passed to env.step (`{avar}`): {sorted(map(str, o_st))[:2]} vs {sorted(map(str, o_act))[:2]}"
                    if not ok and any(x[0] in ("unpack", "for", "with", "global", "attr-in") for x in o_st | o_act):
                        und(f"{site}: the stored action `{short(arg, 40)}` cannot be related to the action passed to env.step (unrecognised form)")
                        continue
                    if not ok:
                        # evidence of another value: neither is computed from the other (two separate evaluations).  A stored value that
                        # is computed *from* the action passed to env.step (`action.copy()`, a cast) - or the other way round - is not read here.
                        seen_st, seen_act = set(), set()
                        org.deps(arg, nid, seen_st)
                        org.deps(act, S, seen_act)
                        d_st = {d.key() for nm in _names_in(arg) for d in cfg.defs_of(nid, nm)}
                        d_act = {d.key() for nm in _names_in(act) for d in cfg.defs_of(S, nm)}
                        if (d_act & (seen_st | d_st)) or (d_st & seen_act):
                            und(f"{site}: the stored action `{short(arg, 40)}` and the action passed to env.step `{short(act, 40)}` are computed from one another; whether the value is kept is not read (unrecognised form)")
                            continue
                    ck.ob("R1-store-role", site, f"A:{desc.split('(')[0]}", ok, f"A <- {short(arg, 50)} at {desc}", why, where)
                elif role == "O":
                    b = strip_wrappers(arg)
                    key_o = f"O-same-as-step:{desc.split('(')[0]}"
                    p = _copy_source(cfg, arg, nid, ovar)
                    if p is not None:
                        anchored[0] = True
                        # the stored value is the observation variable as it was on entry to node p (the store itself, or a copy made at p)
                        r = same_as_at_step(p)
                        if r is None:
                            und(f"{site}: the stored observation `{short(arg, 50)}` is read at a point that is not ordered with env.step in the iteration (unrecognised form)")
                            continue
                        ck.ob("R2-obs-provenance", site, key_o, r[0], f"O <- {short(arg, 50)} at {desc}", r[1], where)
                        continue
                    # another variable / a field of a record / another expression: judged by provenance
                    o_st, o_ref = org.of_expr(arg, nid), org.of_name(ovar, S)
                    if Origins.unknown(o_st) or Origins.unknown(o_ref):
                        und(f"{site}: the stored observation `{short(arg, 50)}` cannot be traced (unrecognised form)")
                        continue
                    if o_st == o_ref and isinstance(b, ast.Name):
                        und(f"{site}: the stored observation `{b.id}` has the provenance of `{ovar}` but whether it is the value env.step acted on is not read (unrecognised form)")
                        continue
                    ob_on_ovar("R2-obs-provenance", key_o, o_st == o_ref, f"O <- {short(arg, 50)} at {desc}",
                          "" if o_st == o_ref else f"the stored observation originates in {sorted(map(str, o_st))}, the observation env.step acted on in {sorted(map(str, o_ref))}", where)

        # ---- R2 provenance of every definition reaching S ------------------------------------------
        for dn, nm in sorted(defs_at_S):
            d = cfg.get_def(dn, nm)
            o = org.of_def(d, set())
            bad = [x for x in o if not (x[0] == "reset" and x[1] == 0) and x != ("step", 0) and x[0] != "param"]
            node = cfg.nodes[dn]
            if bad and Origins.unknown(bad) and not (d.value is not None and isinstance(d.value, ast.AST) and not isinstance(d.value, ast.stmt) and _different_value(org, d.value, dn, ("step", 0)) is True
                                                     and _different_value(org, d.value, dn, ("reset", 0)) is True):
                und(f"{site}: observation `{nm}` is defined by `{short(node.ast, 60)}`, whose value cannot be traced to reset / step results (unrecognised form)")
                continue
            if bad and all(x[0] == "const" for x in bad):
                # a placeholder (`obs = None`) reaches env.step only in the flow-insensitive reading of the definitions
                und(f"{site}: observation `{nm}` is initialised by the constant `{short(node.ast, 60)}`; whether that value can reach env.step is not read (unrecognised form)")
                continue
            ob_on_ovar("R2-obs-provenance", f"def:{_def_kind(L, d)}", not bad,
                  f"`{nm}` defined by `{short(node.ast, 60) if node.kind != 'entry' else 'parameter'}`",
                  "" if not bad else f"observation definition originates in {sorted(map(str, bad))} (neither reset()[0], step()[0] nor a parameter)",
                  loc(L.mi, node.ast))
        ck.need(defs_at_S, f"{site}: observation `{ovar}` has no definition reaching env.step")
        # the successor observation object is not changed in place while it is still to be stored / carried
        later = {nid for nid, _c, _r, _d in stores} | {i for i in body for d in cfg.nodes[i].defs if d.name == ovar and ("step", 0) in org.of_def(d, set())}
        spoiled = None
        for i in sorted(body):
            n = cfg.nodes[i]
            for m in sorted(n.mutates):
                if spoiled is None and "." not in m and cfg.dominates(S, i) and _writes_elements(n.ast, m) and _is_step0_object(cfg, L, m, i):
                    for u in sorted(later - {i}):
                        if any(_is_step0_object(cfg, L, x, u) for x in cfg.nodes[u].uses if "." not in x):
                            pth = cfg.paths_avoiding(i, u, {S})
                            if pth is not None:
                                spoiled = (i, m, pth)
                                break
        ck.ob("R2-obs-provenance", site, "successor-object-unchanged", spoiled is None, "no in-place update of the object env.step returned at position 0 before it is stored / carried",
              "" if spoiled is None else f"`{short(cfg.nodes[spoiled[0]].ast, 50)}` updates `{spoiled[1]}` in place, which is the successor observation object returned by env.step (plain assignment / np.asarray do not copy); "
              f"that object is stored / becomes the current observation afterwards", loc(L.mi, cfg.nodes[spoiled[0]].ast) if spoiled else loc(L.mi, L.step_stmt), cfg.describe_path(spoiled[2]) if spoiled else None)

        # ---- R3 boundary -------------------------------------------------------------------------------
        all_defs = [(n.id, d) for n in cfg.nodes for d in n.defs if d.name == ovar]
        in_loop_defs = [(i, d) for i, d in all_defs if i in body]
        bound_resets = []
        for r in L.resets_in:
            rn = cfg.nodes[r]
            d = cfg.get_def(r, ovar)
            binds = d is not None and ("reset", 0, r) in org.of_def(d, set())      # also `obs = env.reset()[0] if done else next_obs`
            r_from = r
            if not binds:
                # bound through copies (helper results, tuple assignments, a temporary that is carried into the observation variable
                # afterwards): a definition of the observation variable that receives this reset's observation
                via = [(i, d2) for i, d2 in in_loop_defs if ("reset", 0, r) in org.of_def(d2, set()) and cfg.paths_avoiding(r, i, {S}) is not None]
                if via:
                    binds = True
                    r_from = via[0][0]
                elif any(Origins.unknown(org.of_def(d2, set())) for i, d2 in in_loop_defs) or not in_loop_defs:
                    und(f"{site}: cannot tell whether `{short(rn.ast, 50)}` binds the observation variable `{ovar}` (values pass through untraceable definitions) (unrecognised form)")
                    continue
            ob_on_ovar("R3-boundary", "reset-binds-observation", binds, f"`{short(rn.ast, 60)}`",
                  "" if binds else f"in-loop reset does not bind the observation variable `{ovar}` (its observation is discarded)", loc(L.mi, rn.ast))
            if not binds:
                continue
            bound_resets.append((r, r_from))
            # no other definition reachable from r without passing S (redefinitions that keep the reset value are not overwrites)
            offenders = []
            for i, d2 in in_loop_defs:
                if i == r or i == S or i == r_from:
                    continue
                if _is_self_wrap(d2) or org.of_def(d2, set()) == {("reset", 0, r)}:
                    continue
                p = cfg.paths_avoiding(r_from, i, {S})
                if p is not None:
                    offenders.append((i, p))
            ok = not offenders
            wit = None
            why = ""
            if offenders:
                i, p = offenders[0]
                why = (f"the reset observation is overwritten by `{short(cfg.nodes[i].ast, 50)}` (line {cfg.nodes[i].lineno}) before the next env.step: "
                       f"the first transition of the new episode starts from a stale observation")
                wit = cfg.describe_path(p)
            ob_on_ovar("R3-boundary", "reset-reaches-next-step", ok, f"`{short(rn.ast, 50)}` -> next `{short(L.step_stmt, 40)}`", why, loc(L.mi, rn.ast), wit)
        # staleness: every cycle S -> S redefines the observation
        defnodes = {i for i, d in all_defs if not _is_self_wrap(d)}
        stale = None
        if S not in defnodes:
            stale = cfg.paths_avoiding(S, S, defnodes)
        if stale is not None and any(ovar in cfg.nodes[i].mutates for i in stale):
            und(f"{site}: the observation `{ovar}` is updated in place on a path from env.step back to env.step (unrecognised form)")
        else:
            ob_on_ovar("R3-boundary", "no-stale-observation", stale is None, f"every path from `{short(L.step_stmt, 40)}` back to itself redefines `{ovar}`",
                  "" if stale is None else f"a path from env.step back to env.step never updates `{ovar}`: the next action and transition use a stale observation",
                  loc(L.mi, L.step_stmt), cfg.describe_path(stale) if stale else None)
        if not L.vector:
            if L.resets_in:
                ck.ob("R3-boundary", site, "has-in-loop-reset", True, f"{len(L.resets_in)} in-loop reset(s)", "", loc(L.mi, L.step_stmt))
            elif _env_confined(L):
                # every use of the environment in the function is `env.<attribute>` and none of them is `env.reset` inside the loop
                ck.ob("R3-boundary", site, "has-in-loop-reset", False, f"0 in-loop reset(s); `{L.env}` is only used through its attributes",
                      "single-environment loop without an in-loop reset", loc(L.mi, L.step_stmt))
            else:
                und(f"{site}: no `{L.env}.reset()` in the loop, but the environment is passed on / aliased: a reset may happen elsewhere (unrecognised form)")

        # ---- R4 act site ----------------------------------------------------------------------------------
        succ = [u for u in used if u[0] == nextvar and u[0] != ovar and any(d.node == S for d in cfg.defs_of(u[1], u[0]))]
        if pol or succ:
            ck.ob("R4-act-on-current", site, "policy-sees-observation", bool(pol), f"action `{avar}` computed from `{ovar}` at {len(pol)} site(s)",
                  "" if pol else f"the definitions of the action reaching env.step read the successor observation `{nextvar}` and never the current observation `{ovar}`", loc(L.mi, L.step_stmt))
        # after an in-loop reset the action of the first step of the new episode is computed anew: a path from the reset to env.step on which
        # the action keeps a value chosen before the reset (it is not recomputed, only copied) is a witness
        fresh, closure = _stale_action_nodes(cfg, L, act)
        kept = None
        for r, r_from in bound_resets:
            pth = cfg.paths_avoiding(r_from, S, fresh)
            if pth is not None:
                kept = (r, pth)
                break
        if bound_resets:
            ck.ob("R4-act-on-current", site, "action-chosen-after-reset", kept is None, f"every path from an in-loop reset to `{short(L.step_stmt, 40)}` recomputes `{avar}`",
                  "" if kept is None else f"after `{short(cfg.nodes[kept[0]].ast, 40)}` the action `{avar}` passed to env.step is not computed again (copies of {sorted(closure)} only): "
                  f"the first action of the new episode was chosen for the previous episode's last observation",
                  loc(L.mi, L.step_stmt), cfg.describe_path(kept[1]) if kept else None)
        carried = None
        if not pol and not succ:
            carried = _carried_policy_input(cfg, L, org, avar, body, bound_resets)
            for V, at_, stale_reset in (carried or []):
                anchored[0] = True
                ok_v = stale_reset is None
                ck.ob("R4-act-on-current", site, f"policy-input-refreshed-after-reset:{V}", ok_v,
                      f"the policy reads `{V}`, a carried copy of the observation (origins: reset()[0] / step()[0])",
                      "" if ok_v else f"after `{short(cfg.nodes[stale_reset[0]].ast, 40)}` no definition gives `{V}` the reset observation before the policy reads it: the first action of "
                      f"the new episode is conditioned on the previous episode's final observation", loc(L.mi, cfg.nodes[at_].ast), cfg.describe_path(stale_reset[1]) if stale_reset else None)
        if not pol and not succ and kept is None and not carried:
            und(f"{site}: no definition of the action `{avar}` made in the same iteration before env.step reads the observation variable `{ovar}` (the observation reaches the policy in an unrecognised form)")
        for name, at, expr in used:
            node = cfg.nodes[at]
            if name == nextvar and name != ovar:
                if not any(d.node == S for d in cfg.defs_of(at, name)):
                    und(f"{site}: `{name}` read by `{short(expr, 50)}` is not the result of env.step there (unrecognised form)")
                    continue
                ck.ob("R4-act-on-current", site, "acts-on-successor", False, f"`{short(expr, 60)}`",
                      f"the action passed to env.step is computed from `{name}` (successor observation of the previous step), not from the current observation", loc(L.mi, node.ast))
                continue
            here = _eff_defs(cfg, at, name)
            between = _defs_between(cfg, at, S, name)
            ok = here == eff_at_S and not between
            ck.ob("R4-act-on-current", site, "same-observation-as-stored", ok, f"`{short(expr, 60)}`",
                  "" if ok else f"the observation read when acting (defs at lines {_lines(cfg, here)}) differs from the one stored (lines {_lines(cfg, eff_at_S)})",
                  loc(L.mi, node.ast))

    for L in loops:
        ck.guard(one_loop, L)
    ck.guard(_episode_record, ck, repo)
    n_sites = n_sites_box[0]
    ck.count("store-sites", n_sites)
    ck.floor("store-sites", n_sites, 24)


def _lines(cfg, ds):
    return sorted({cfg.nodes[i].lineno for i, _ in ds})


def _def_kind(L, d):
    if d.kind == "param":
        return "param"
    if d.node == L.step_node:
        return "step-binds"
    if d.node in L.resets_in:
        return "in-loop-reset"
    if d.node in L.resets_pre:
        return "pre-loop-reset"
    return f"copy:{ast.unparse(d.value)[:30] if d.value is not None else d.kind}"


def _defs_between(cfg: CFG, a: int, b: int, name: str):
    """Lines of definitions of ``name`` lying on a path a -> b that does not re-enter a (intra-iteration)."""
    out = []
    for n in cfg.nodes:
        if n.id in (a, b):
            continue
        if any(d.name == name and not _is_self_wrap(d) for d in n.defs):
            p1 = cfg.paths_avoiding(a, n.id, {b, a})
            p2 = cfg.paths_avoiding(n.id, b, {a}) if p1 is not None else None
            if p1 is not None and p2 is not None:
                out.append(n.lineno)
    return sorted(out)


def _carried_policy_input(cfg, L, org, avar, body, bound_resets, depth=4):
    """The policy does not read the observation variable itself but another variable that carries the observation (e.g. a device copy
    refreshed from the step result).  [(name, node of the reading definition, None | (reset node, path))]: for every in-loop reset that binds
    the observation, a path from the reset to the reading definition on which the variable never receives that reset's observation is a
    witness that the policy sees the previous episode's last successor.  None when no such variable is found (not read)."""
    H, S = L.loop_header, L.step_node
    pre_S = {n.id for n in cfg.nodes if n.id in body and n.id != S and cfg.paths_avoiding(n.id, S, {H}) is not None}
    work = [(d, 0) for d in cfg.defs_of(S, avar) if d.node in pre_S]
    seen, found = set(), {}
    while work:
        d, k = work.pop()
        if (d.node, d.name) in seen or d.value is None:
            continue
        seen.add((d.node, d.name))
        val = d.value.value if isinstance(d.value, ast.AugAssign) else d.value
        for x in ast.walk(val):
            if not (isinstance(x, ast.Name) and isinstance(x.ctx, ast.Load)):
                continue
            o = org.of_name(x.id, d.node)
            if o and not Origins.unknown(o) and all((y[0] == "reset" and y[1] == 0) or y == ("step", 0) for y in o) and ("step", 0) in o:
                found.setdefault(x.id, d.node)
            elif k < depth:
                for d2 in cfg.defs_of(d.node, x.id):
                    if d2.node in pre_S and d2.kind in ("assign", "unpack"):
                        work.append((d2, k + 1))
    if not found:
        return None
    out = []
    for V, at_ in sorted(found.items()):
        stale = None
        for r, r_from in bound_resets:
            refresh = {n.id for n in cfg.nodes for d in n.defs if d.name == V and ("reset", 0, r) in org.of_def(d, set())}
            pth = cfg.paths_avoiding(r_from, at_, refresh | {S})
            if pth is not None:
                stale = (r, pth)
                break
        out.append((V, at_, stale))
    return out


def _obs_uses_in_action(cfg, L, avar, ovar, nextvar, body, depth=4):
    """Backward slice from the action reaching env.step: (obs-like name, node, expr) uses."""
    out, seen = [], set()
    H = L.loop_header
    # only definitions made earlier in the *same* iteration (S reachable without passing the loop header) are followed
    pre_S = {n.id for n in cfg.nodes if n.id in body and n.id != L.step_node and cfg.paths_avoiding(n.id, L.step_node, {H}) is not None}
    work = [(d, 0) for d in cfg.defs_of(L.step_node, avar) if d.node in pre_S]
    targets = {ovar, nextvar} - {None}
    while work:
        d, k = work.pop()
        if (d.node, d.name) in seen or d.value is None:
            continue
        seen.add((d.node, d.name))
        val = d.value.value if isinstance(d.value, ast.AugAssign) else d.value
        for x in ast.walk(val):
            if isinstance(x, ast.Name) and isinstance(x.ctx, ast.Load):
                if x.id in targets:
                    out.append((x.id, d.node, val))
                elif k < depth:
                    for d2 in cfg.defs_of(d.node, x.id):
                        if d2.node in pre_S and d2.kind in ("assign", "unpack"):
                            work.append((d2, k + 1))
    # de-duplicate
    uniq = {}
    for name, at, e in out:
        uniq[(name, at)] = (name, at, e)
    return list(uniq.values())


# ---- self-validation variants (thorough tier) ------------------------------------------------------------
_TD3 = "rl_blox/algorithm/td3.py"
MUTANTS = [
    {"id": "c01-td3-device-copy-not-refreshed-at-reset", "file": _TD3, "rule": "R4", "edits": [('    obs, _ = env.reset(seed=seed)\n', '    obs, _ = env.reset(seed=seed)\n    obs_dev = jnp.asarray(obs)\n'), ('_sample_actions(policy, jnp.asarray(obs), action_key)', '_sample_actions(policy, obs_dev, action_key)'), ('        next_obs, reward, termination, truncated, info = env.step(action)\n', '        next_obs, reward, termination, truncated, info = env.step(action)\n        obs_dev = jnp.asarray(next_obs)\n')]},
    {"id": "c01-td3-carry-before-store", "file": _TD3, "rule": "R2",
     "find": "        steps_per_episode += 1\n        accumulated_reward += reward\n\n        replay_buffer.add_sample(",
     "replace": "        steps_per_episode += 1\n        accumulated_reward += reward\n        obs = next_obs\n\n        replay_buffer.add_sample("},
    {"id": "c01-td3-next-is-obs", "file": _TD3, "rule": "R1", "find": "next_observation=next_obs,", "replace": "next_observation=obs,"},
    {"id": "c01-td3-term-is-trunc", "file": _TD3, "rule": "R1", "find": "termination=termination,", "replace": "termination=truncated,"},
    {"id": "c01-td3-policy-next-obs", "file": _TD3, "rule": "R4", "find": "_sample_actions(policy, jnp.asarray(obs), action_key)", "replace": "_sample_actions(policy, jnp.asarray(next_obs), action_key)"},
    {"id": "c01-td3-reset-discarded", "file": _TD3, "rule": "R3", "find": "            obs, _ = env.reset()\n            steps_per_episode = 0", "replace": "            env.reset()\n            obs = next_obs\n            steps_per_episode = 0"},
    {"id": "c01-sac-unconditional-carry", "file": "rl_blox/algorithm/sac.py", "rule": "R3", "find": "        else:\n            obs = next_obs\n\n        progress.update()", "replace": "        obs = next_obs\n\n        progress.update()"},
    {"id": "c01-dqn-reward-stale", "file": "rl_blox/algorithm/dqn.py", "rule": "R1",
     "find": "        next_obs, reward, terminated, truncated, info = env.step(int(action))\n        accumulated_reward += reward\n        replay_buffer.add_sample(\n            observation=obs,\n            action=action,\n            reward=reward,\n            next_observation=next_obs,\n            termination=terminated,\n        )",
     "replace": "        replay_buffer.add_sample(\n            observation=obs,\n            action=action,\n            reward=reward,\n            next_observation=next_obs,\n            termination=terminated,\n        ) if step > global_step else None\n        next_obs, reward, terminated, truncated, info = env.step(int(action))\n        accumulated_reward += reward"},
    {"id": "c01-qlearning-swapped-obs", "file": "rl_blox/algorithm/q_learning.py", "rule": "R", "find": "            q_table,\n            observation,\n            action,\n            reward,\n            next_observation,\n            next_action,", "replace": "            q_table,\n            next_observation,\n            action,\n            reward,\n            observation,\n            next_action,"},
    {"id": "c01-mc-store-after-step", "file": "rl_blox/algorithm/monte_carlo.py", "rule": "R2",
     "find": "        obs_arr = obs_arr.at[i].set(int(observation))\n        observation, reward, terminated, truncated, info = env.step(int(action))\n",
     "replace": "        observation, reward, terminated, truncated, info = env.step(int(action))\n        obs_arr = obs_arr.at[i].set(int(observation))\n"},
    {"id": "c01-dynaq-no-carry-on-done", "file": "rl_blox/algorithm/dynaq.py", "rule": "R3", "find": "            obs, _ = env.reset()\n            accumulated_reward = 0.0", "replace": "            env.reset()\n            accumulated_reward = 0.0"},
    {"id": "c01-reinforce-stored-action-differs", "file": "rl_blox/algorithm/reinforce.py", "rule": "R1",
     "find": "        dataset.add_sample(observation, action, next_observation, reward)", "replace": "        action = np.asarray(sample(policy, jnp.array(observation), subkey))\n        dataset.add_sample(observation, action, next_observation, reward)"},
    {"id": "c01-a2c-store-next-obs", "file": "rl_blox/algorithm/a2c.py", "rule": "R2", "find": "            obs=obs,\n            actions=action,", "replace": "            obs=next_obs,\n            actions=action,"},
    {"id": "c01-mrq-trunc-term-swap", "file": "rl_blox/algorithm/mrq.py", "rule": "R1", "find": "            terminated=terminated,\n            truncated=truncated,", "replace": "            terminated=truncated,\n            truncated=terminated,"},
    {"id": "c01-sarsa-action-carried-over-reset", "file": "rl_blox/algorithm/sarsa.py", "rule": "R4", "edits": [
        ("    observation, _ = env.reset()\n\n    if logger is not None:\n        logger.start_new_episode()\n\n    steps_per_episode = 0\n",
         "    observation, _ = env.reset()\n    key, subkey = jax.random.split(key)\n    action = epsilon_greedy_policy(q_table, observation, epsilon, subkey)\n\n    if logger is not None:\n        logger.start_new_episode()\n\n    steps_per_episode = 0\n"),
        ("        key, subkey = jax.random.split(key)\n        action = epsilon_greedy_policy(q_table, observation, epsilon, subkey)\n        steps_per_episode += 1\n", "        steps_per_episode += 1\n"),
        ("        else:\n            observation = next_observation\n\n    return q_table", "        else:\n            observation = next_observation\n        action = next_action\n\n    return q_table")]},
    {"id": "c01-ppo-successor-patched-in-place", "file": "rl_blox/algorithm/ppo.py", "rule": "R2", "edits": [
        ("        obs = jnp.copy(next_obs)\n", "        obs = np.asarray(next_obs)\n"), ("                obs = obs.at[i].set(o)\n", "                obs[i] = o\n")]},
    {"id": "c01-reinforce-no-reset", "file": "rl_blox/algorithm/reinforce.py", "rule": "R3", "find": "            observation, _ = env.reset()\n            dataset.start_episode()", "replace": "            dataset.start_episode()"},
    {"id": "c01-td3-first-observation-stored", "file": _TD3, "rule": "R2", "edits": [
        ("    obs, _ = env.reset(seed=seed)\n    steps_per_episode = 0\n", "    obs, _ = env.reset(seed=seed)\n    first_obs = obs\n    steps_per_episode = 0\n"), ("            observation=obs,\n            action=action,", "            observation=first_obs,\n            action=action,")]},
    {"id": "c01-ddpg-stale-sometimes", "file": "rl_blox/algorithm/ddpg.py", "rule": "R3", "find": "        else:\n            obs = next_obs\n\n    return namedtuple(\n        \"DDPGResult\"", "replace": "        elif steps_per_episode % 7 != 0:\n            obs = next_obs\n\n    return namedtuple(\n        \"DDPGResult\""},
]
BENIGN = [
    {"id": "c01-b-td3-device-copy-refreshed-at-reset", "file": _TD3, "edits": [('    obs, _ = env.reset(seed=seed)\n', '    obs, _ = env.reset(seed=seed)\n    obs_dev = jnp.asarray(obs)\n'), ('_sample_actions(policy, jnp.asarray(obs), action_key)', '_sample_actions(policy, obs_dev, action_key)'), ('        next_obs, reward, termination, truncated, info = env.step(action)\n', '        next_obs, reward, termination, truncated, info = env.step(action)\n        obs_dev = jnp.asarray(next_obs)\n'), ('            obs, _ = env.reset()\n', '            obs, _ = env.reset()\n            obs_dev = jnp.asarray(obs)\n')]},
    {"id": "c01-b-ddpg-elif-not-truncated", "file": "rl_blox/algorithm/ddpg.py", "find": "        else:\n            obs = next_obs\n\n    return namedtuple(\n        \"DDPGResult\"", "replace": "        elif not truncated:\n            obs = next_obs\n\n    return namedtuple(\n        \"DDPGResult\""},
    {"id": "c01-b-td3-ifexp-carry", "file": _TD3, "find": "        else:\n            obs = next_obs\n\n        bar.update()", "replace": "        else:\n            obs = np.asarray(next_obs)\n\n        bar.update()"},
    {"id": "c01-b-td3-rename", "file": _TD3, "all": True, "find": "next_obs", "replace": "succ_observation"},
    {"id": "c01-b-td3-logging", "file": _TD3, "find": "        steps_per_episode += 1\n        accumulated_reward += reward\n", "replace": "        steps_per_episode += 1\n        accumulated_reward += reward\n        if logger is not None:\n            logger.record_stat(\"r\", reward)\n"},
    {"id": "c01-b-dqn-reward-float", "file": "rl_blox/algorithm/dqn.py", "find": "        accumulated_reward += reward\n        replay_buffer.add_sample(", "replace": "        reward = float(reward)\n        accumulated_reward += reward\n        replay_buffer.add_sample("},
    {"id": "c01-b-sarsa-reset-first", "file": "rl_blox/algorithm/sarsa.py", "find": "            steps_per_episode = 0\n            observation, _ = env.reset()", "replace": "            observation, _ = env.reset()\n            steps_per_episode = 0"},
    {"id": "c01-b-dqn-step-action-keyword", "file": "rl_blox/algorithm/dqn.py", "find": "env.step(int(action))", "replace": "env.step(action=int(action))"},
    {"id": "c01-b-td3-observation-copy-stored", "file": _TD3, "edits": [
        ("        next_obs, reward, termination, truncated, info = env.step(action)\n", "        acted_on = obs\n        next_obs, reward, termination, truncated, info = env.step(action)\n"),
        ("            observation=obs,\n            action=action,", "            observation=acted_on,\n            action=action,")]},
    {"id": "c01-b-sac-reset-into-successor-then-carry", "file": "rl_blox/algorithm/sac.py", "edits": [
        ("            obs, _ = env.reset()\n            steps_per_episode = 0\n            accumulated_reward = 0.0\n\n        else:\n            obs = next_obs\n\n        progress.update()",
         "            next_obs, _ = env.reset()\n            steps_per_episode = 0\n            accumulated_reward = 0.0\n\n        obs = next_obs\n\n        progress.update()")]},
    {"id": "c01-b-dynaq-int-after-reset", "file": "rl_blox/algorithm/dynaq.py", "find": "            obs, _ = env.reset()\n            accumulated_reward = 0.0", "replace": "            obs, _ = env.reset()\n            obs = int(obs)\n            accumulated_reward = 0.0"},
    {"id": "c01-b-mc-update-by-keyword", "file": "rl_blox/algorithm/monte_carlo.py",
     "find": "                rew_arr[start_t : i + 1],\n                obs_arr[start_t : i + 1],\n                act_arr[start_t : i + 1],\n                gamma,",
     "replace": "                observations=obs_arr[start_t : i + 1],\n                actions=act_arr[start_t : i + 1],\n                rewards=rew_arr[start_t : i + 1],\n                gamma=gamma,"},
    {"id": "c01-b-a2c-second-copy-of-successor", "file": "rl_blox/algorithm/a2c.py", "find": "        obs = next_obs\n        global_step += num_envs", "replace": "        obs = next_obs\n        final_obs = next_obs\n        global_step += num_envs"},
    {"id": "c01-b-ddpg-observation-asarray-before-step", "file": "rl_blox/algorithm/ddpg.py",
     "find": "        next_obs, reward, termination, truncated, info = env.step(action)\n        steps_trained", "replace": "        obs = np.asarray(obs)\n        next_obs, reward, termination, truncated, info = env.step(action)\n        steps_trained"},
    {"id": "c01-b-reinforce-add-sample-in-base-class", "file": "rl_blox/algorithm/reinforce.py", "edits": [
        ("class EpisodeDataset:\n    \"\"\"Collects samples batched in episodes.\"\"\"\n", "class _EpisodeStore:\n    \"\"\"Episode-wise storage.\"\"\"\n"),
        ("    def _indices(self) -> list[int]:\n", "\nclass EpisodeDataset(_EpisodeStore):\n    \"\"\"Collects samples batched in episodes.\"\"\"\n\n    def _indices(self) -> list[int]:\n")]},
    {"id": "c01-b-reinforce-keyword-only-record", "file": "rl_blox/algorithm/reinforce.py", "edits": [
        ("    def add_sample(\n        self,\n        observation: jnp.ndarray,", "    def add_sample(\n        self,\n        *,\n        observation: jnp.ndarray,"),
        ("        dataset.add_sample(observation, action, next_observation, reward)", "        dataset.add_sample(reward=reward, observation=observation, action=action, next_observation=next_observation)")]},
    {"id": "c01-b-reinforce-carry-in-else", "file": "rl_blox/algorithm/reinforce.py",
     "find": "        observation = next_observation\n\n        if done:", "replace": "        if not done:\n            observation = next_observation\n\n        if done:"},
]
