"""C01 - stored experience equals what the environment produced (role-exact dataflow on the CFG)."""
from __future__ import annotations

import ast

from ..cfg import CFG
from ..loops import ENV_LOOPS, Origins, find_env_loop, strip_wrappers, dotted
from ..repo import Repo, loc, short, positional_params, bind_call, AnalysisError

EXPLANATION = (
    "For each of the environment-interaction loops of rl_blox the checker builds the statement CFG and reaching "
    "definitions and decides, for every CFG path (merged dataflow), positional role agreement between the results of "
    "env.step/env.reset and every store site (replay-buffer add_sample, EpisodeDataset.add_sample, rollout appends, "
    "Monte-Carlo arrays, tabular/Dyna-Q update calls mapped through the callee signature) and every act site. Roles "
    "are tuple positions of the gymnasium protocol, never variable names. R3 is a path property: from an in-loop reset "
    "definition of the observation no other definition may be reached without passing the step statement. A step result held in a "
    "variable and projected by the next statement (`r = env.step(a); o, r_, d, t = r[:4]`) and store keywords given as a dict display "
    "(`add_sample(**sample)`) are read as the unpacking / keyword call they abbreviate. R5 covers the read-out side of the episode "
    "record (REINFORCE / actor-critic): the methods of EpisodeDataset are evaluated abstractly - every value is described by which "
    "record positions of which steps (all episodes in order, one episode, a single element; whole or sliced) it is gathered from - and "
    "each array returned for a protocol role (role = parameter of the transition-consuming function the result position is bound to) "
    "must be exactly its own record position of every step; a role's array that contains another role's column taken across episode "
    "boundaries is a violation, per-episode reconstructions and other unread forms are undecided. "
    "R6 covers the write side of the replay buffers: the column storage allocated at the first insertion must not take its element type from the "
    "first value stored (value -> dtype dataflow inside add_sample)."
)
TRUSTED = [
    "gymnasium protocol: env.step returns (next_obs, reward, terminated, truncated, info); env.reset returns (obs, info)",
    "CPython ast semantics; int()/float()/np.asarray()/jnp.array()/jnp.copy()/x[jnp.newaxis] preserve the stored value; np.asarray of an array is the same object (no copy)",
    "vector environments auto-reset (no in-loop reset obligation for a2c/ppo collect_trajectories)",
]
RULES = {
    "R1-store-role": "at every store site the reward / successor observation / terminated / truncated arguments have position "
                     "1/0/2/3 of the step statement of the same iteration as their only origin; the stored action has the "
                     "same reaching definitions as the action passed to env.step",
    "R2-obs-provenance": "every definition of the stored observation that reaches the step statement originates in reset()[0], "
                         "position 0 of the step statement (carry) or a parameter; the stored observation is the observation variable (or a plain "
                         "copy of it, followed to where the copy was made) with the definitions the step saw and no redefinition in between "
                         "(value-preserving x = wrapper(x) aside); the object returned at position 0 is not overwritten element-wise while it "
                         "is still to be stored / carried",
    "R3-boundary": "from every in-loop reset definition of the observation no other definition of it is reachable without passing "
                   "env.step; no path from step back to step leaves the observation undefined-stale; in-loop resets bind the observation; "
                   "a single-environment loop in which the environment is only used through its attributes has a reset statement",
    "R4-act-on-current": "the observation used to compute the action passed to env.step has the same reaching definitions as "
                         "the stored observation and never is the successor observation; after an in-loop reset the action is computed "
                         "again on every path to env.step (a value chosen before the reset is not carried over by copies)",
    "R5-readout-role": "every array EpisodeDataset.prepare_policy_gradient_dataset hands out for a protocol role (observation / action / successor "
                       "observation; role = the parameter of the transition-consuming function it is bound to) is gathered from that role's own "
                       "position of the per-step records, for every step of every episode in storage order; an array of one role built from the "
                       "column of another role across episode boundaries is a violation, forms that are not read are undecided",
    "R6-storage-dtype": "the storage ReplayBuffer / SubtrajectoryReplayBuffer.add_sample allocates for a column at the first insertion (shaped after the "
                        "first value) has the column's declared element type; a storage whose element type is the type of the first value stored, for every "
                        "column alike, lets an integer-typed first reward truncate all later fractional rewards (violation); a type taken from the value "
                        "under a condition on the column / value or computed from it is undecided",
}

# parameter / keyword names -> role.  Names of *API parameters* of the store callee, not of local variables.
ROLE_OF = {
    "observation": "O", "obs": "O", "observations": "O",
    "action": "A", "actions": "A", "act": "A",
    "reward": "R", "rewards": "R",
    "next_observation": "N", "next_obs": "N",
    "termination": "D", "terminated": "D", "terminations": "D",
    "truncated": "T", "truncations": "T", "truncation": "T",
}
STEP_POS = {"N": 0, "R": 1, "D": 2, "T": 3}

# loops of C01's quantifier (cmaes / generate_rollout keep no transitions: only R3/R4 apply and are run under C11/C13)
C01_LOOPS = [q for q in ENV_LOOPS if not q.endswith(("train_cmaes", "generate_rollout"))]
# store callees resolved through their signature (tabular learners, Dyna-Q, EpisodeDataset)
SIG_STORES = {
    "rl_blox.algorithm.q_learning.train_q_learning": ["rl_blox.algorithm.q_learning._update_policy"],
    "rl_blox.algorithm.sarsa.train_sarsa": ["rl_blox.algorithm.sarsa._update_policy"],
    "rl_blox.algorithm.double_q_learning.train_double_q_learning": ["rl_blox.algorithm.double_q_learning._dql_update"],
    "rl_blox.algorithm.dynaq.train_dynaq": ["rl_blox.algorithm.dynaq.q_learning_update", "rl_blox.algorithm.dynaq.counter_update",
                                           "rl_blox.algorithm.dynaq.model_update"],
    "rl_blox.algorithm.monte_carlo.train_monte_carlo": ["rl_blox.algorithm.monte_carlo.update"],
}


def _store_sites(repo: Repo, L, ck):
    """Yield (node id, call, {role: arg expr}, description)."""
    cfg = L.cfg
    body = cfg.loop_body_nodes(L.outer_header)
    sites = []
    fn_mod = L.mi
    sig_callees = {}
    for q in SIG_STORES.get(L.qual, []):
        f = repo.func(q)
        sig_callees[q.rsplit(".", 1)[1]] = (q, f)
    sig_quals = {q: (q, f) for q, f in sig_callees.values() if not q.endswith("monte_carlo.update")}
    # Monte-Carlo: arrays filled with .at[i].set(x); role of the array = parameter of `update` it is passed to (bound by signature)
    arr_role, arr_clash = {}, set()
    if L.qual.endswith("train_monte_carlo"):
        q, f = sig_callees["update"]
        for n in cfg.nodes:
            if n.ast is None:
                continue
            for c in ast.walk(n.ast):
                if isinstance(c, ast.Call) and isinstance(c.func, (ast.Name, ast.Attribute)) and repo.resolve_expr(fn_mod, c.func) == q:
                    for pname, a in bind_call(f, c).items():
                        if not isinstance(a, ast.AST) or pname not in ROLE_OF:
                            continue
                        for nm in _flows_from(cfg, a, n.id):      # `obs_arr[start:i + 1]`, also through a temporary
                            if arr_role.setdefault(nm, ROLE_OF[pname]) != ROLE_OF[pname]:
                                arr_clash.add(nm)
        for nm in arr_clash:
            arr_role.pop(nm, None)
    # PPO: lists appended per step; role = field of the returned namedtuple the list flows into (through the assignments that
    # stack / reshape it after the loop)
    list_role, clash = {}, set()
    for n in cfg.nodes:
        s = n.ast
        if not (isinstance(s, ast.Return) and isinstance(s.value, ast.Call)):
            continue
        fields = None
        ctor = s.value.func
        if isinstance(ctor, ast.Call) and dotted(ctor.func).rsplit(".", 1)[-1] == "namedtuple" and len(ctor.args) == 2 and isinstance(ctor.args[1], (ast.List, ast.Tuple)) \
                and all(isinstance(e, ast.Constant) and isinstance(e.value, str) for e in ctor.args[1].elts):
            fields = [e.value for e in ctor.args[1].elts]                  # namedtuple("R", [...])(...)
        elif isinstance(ctor, (ast.Name, ast.Attribute)):
            q = repo.resolve_expr(fn_mod, ctor)                             # a NamedTuple / dataclass / namedtuple(...) of the package
            if q and repo.has(q):
                from ..nf import NF
                fields = NF._record_fields(repo.lookup(q)[1])
        if not fields or any(isinstance(a, ast.Starred) for a in s.value.args) or any(kw.arg is None for kw in s.value.keywords):
            continue
        bound = dict(zip(fields, s.value.args))
        bound.update({kw.arg: kw.value for kw in s.value.keywords})
        for fld, val in bound.items():
            if fld in ROLE_OF:
                for nm in _flows_from(cfg, val, n.id):
                    if list_role.setdefault(nm, ROLE_OF[fld]) != ROLE_OF[fld]:
                        clash.add(nm)
    for nm in clash:
        list_role.pop(nm, None)
    for nid in sorted(body):
        n = cfg.nodes[nid]
        s = n.ast
        if n.kind != "stmt" or s is None:
            continue
        if isinstance(s, ast.Assign) and len(s.targets) == 1 and isinstance(s.targets[0], ast.Subscript) and isinstance(s.targets[0].value, ast.Name) \
                and s.targets[0].value.id in arr_role:
            # host array filled in place: `arr[i] = x` (the functional form `arr = arr.at[i].set(x)` is read below)
            arr = s.targets[0].value.id
            sites.append((nid, s, {arr_role[arr]: s.value}, f"{arr}[i] = ... -> update({arr})"))
        for c in ast.walk(s):
            if not isinstance(c, ast.Call):
                continue
            f = c.func
            if isinstance(f, ast.Attribute) and f.attr == "add_sample":
                roles = {}
                if any(kw.arg is None for kw in c.keywords) or any(isinstance(a, ast.Starred) for a in c.args):
                    c = _splat_read(cfg, L, nid, c, repo, fn_mod)       # `add_sample(**transition)` / `add_sample(*sample)`: the arguments the display provides
                if c.keywords and not c.args:
                    for kw in c.keywords:
                        if kw.arg in ROLE_OF:
                            roles[ROLE_OF[kw.arg]] = kw.value
                        elif kw.arg is not None:
                            ck.note(f"{L.qual}: add_sample keyword {kw.arg!r} has no protocol role (ignored)")
                else:
                    # positional: EpisodeDataset.add_sample(observation, action, next_observation, reward) - bound by the signature of the
                    # add_sample method of the receiver's class
                    m = _positional_add_sample(repo, L, nid, f.value)
                    for pname, a in bind_call(m[1], c, skip_self=True).items():
                        if pname in ROLE_OF and isinstance(a, ast.AST):
                            roles[ROLE_OF[pname]] = a
                sites.append((nid, c, roles, f"{dotted(f)}(...)"))
            elif isinstance(f, (ast.Name, ast.Attribute)) and repo.resolve_expr(fn_mod, f) in sig_quals and not (isinstance(f, ast.Name) and cfg.defs_of(nid, f.id)):
                q, fdef = sig_quals[repo.resolve_expr(fn_mod, f)]
                roles = {}
                for pname, a in bind_call(fdef, c).items():      # positional and keyword arguments, keyword-only parameters
                    if pname in ROLE_OF and isinstance(a, ast.AST):
                        roles[ROLE_OF[pname]] = a
                sites.append((nid, c, roles, f"{q.rsplit('.', 1)[1]}(...) via signature of {q}"))
            elif isinstance(f, ast.Attribute) and f.attr == "set" and isinstance(f.value, ast.Subscript) and isinstance(f.value.value, ast.Attribute) \
                    and f.value.value.attr == "at" and isinstance(f.value.value.value, ast.Name) and f.value.value.value.id in arr_role and c.args:
                arr = f.value.value.value.id
                sites.append((nid, c, {arr_role[arr]: c.args[0]}, f"{arr}.at[i].set(...) -> update({arr})"))
            elif isinstance(f, ast.Attribute) and f.attr == "append" and isinstance(f.value, ast.Name) and f.value.id in list_role and c.args \
                    and L.qual.endswith("ppo.collect_trajectories"):
                sites.append((nid, c, {list_role[f.value.id]: c.args[0]}, f"{f.value.id}.append(...) -> result field"))
    return sites


def _record_as_dict(cfg, L, at, e, repo, fn_mod):
    """`r._asdict()` where `r` is bound once to a constructor call `R(a, b, ...)` of a NamedTuple / dataclass class of the package (no starred
    arguments, every field given): (the equivalent dict display {field: argument}, node of the constructor call).  None: not this form."""
    if not (isinstance(e, ast.Call) and isinstance(e.func, ast.Attribute) and e.func.attr == "_asdict" and not e.args and not e.keywords
            and isinstance(e.func.value, ast.Name)) or repo is None:
        return None
    nm = e.func.value.id
    ds = cfg.defs_of(at, nm)
    n_defs = sum(1 for n in cfg.nodes for x in n.defs if x.name == nm)
    if len(ds) != 1 or ds[0].kind != "assign" or n_defs != 1 or not isinstance(ds[0].value, ast.Call) or any(nm in n.mutates for n in cfg.nodes):
        return None
    ctor = ds[0].value
    if not isinstance(ctor.func, (ast.Name, ast.Attribute)) or any(isinstance(a, ast.Starred) for a in ctor.args) or any(kw.arg is None for kw in ctor.keywords):
        return None
    q = repo.resolve_expr(fn_mod, ctor.func)
    if not q or not repo.has(q):
        return None
    from ..nf import NF
    fields = NF._record_fields(repo.lookup(q)[1])
    if not fields or len(ctor.args) > len(fields):
        return None
    bound = dict(zip(fields, ctor.args))
    for kw in ctor.keywords:
        if kw.arg not in fields or kw.arg in bound:
            return None
        bound[kw.arg] = kw.value
    if set(bound) != set(fields):
        return None                                  # a field left at its default: not read
    d = ast.copy_location(ast.Dict(keys=[ast.Constant(value=f) for f in fields], values=[bound[f] for f in fields]), e)
    return d, ds[0].node


def _dict_call_as_display(cfg, at, e):
    """`dict(k1=v1, k2=v2)` (the builtin, keywords only) is the dict display {"k1": v1, "k2": v2}; anything else is returned as it is."""
    if isinstance(e, ast.Call) and isinstance(e.func, ast.Name) and e.func.id == "dict" and not e.args and e.keywords \
            and all(kw.arg is not None for kw in e.keywords) and not cfg.defs_of(at, "dict"):
        return ast.copy_location(ast.Dict(keys=[ast.Constant(value=kw.arg) for kw in e.keywords], values=[kw.value for kw in e.keywords]), e)
    return e


def _splat_read(cfg, L, at, call, repo=None, fn_mod=None):
    """`f(**d)` / `f(*t)` where `d` is a dict display with constant keys / `t` a tuple display (given in the call or bound once to a variable that is not changed
    afterwards, every name in it having the same reaching definitions at the display as at the call): the equivalent call with explicit
    keywords.  Anything else is not read."""
    kws = []
    for kw in call.keywords:
        if kw.arg is not None:
            kws.append(kw)
            continue
        d, d_at = kw.value, at
        rec = _record_as_dict(cfg, L, at, d, repo, fn_mod)
        if rec is not None:
            d, d_at = rec                            # `f(**record._asdict())`: the fields of the record, by name
        if isinstance(d, ast.Name):
            nm = d.id
            ds = cfg.defs_of(at, nm)
            n_defs = sum(1 for n in cfg.nodes for x in n.defs if x.name == nm)
            bound_ = _dict_call_as_display(cfg, ds[0].node, ds[0].value) if len(ds) == 1 and ds[0].kind == "assign" else None
            if len(ds) != 1 or ds[0].kind != "assign" or not isinstance(bound_, ast.Dict) or n_defs != 1 or any(nm in n.mutates for n in cfg.nodes):
                raise AnalysisError(f"{L.qual}: `{short(call, 50)}`: the mapping `{nm}` is not a dict display bound once and left unchanged (unrecognised form)")
            d, d_at = bound_, ds[0].node
        else:
            d = _dict_call_as_display(cfg, at, d)
        if not isinstance(d, ast.Dict) or not all(isinstance(k, ast.Constant) and isinstance(k.value, str) for k in d.keys):
            raise AnalysisError(f"{L.qual}: `{short(call, 50)}`: keyword mapping is not a dict display with constant keys (unrecognised form)")
        for v in d.values:
            for x in _names_in(v):
                if {y.key() for y in cfg.defs_of(d_at, x)} != {y.key() for y in cfg.defs_of(at, x)}:
                    raise AnalysisError(f"{L.qual}: `{short(call, 50)}`: `{x}` is redefined between the dict display and the call (unrecognised form)")
        kws += [ast.copy_location(ast.keyword(arg=k.value, value=v), v) for k, v in zip(d.keys, d.values)]
    args = []
    for a in call.args:
        if not isinstance(a, ast.Starred):
            args.append(a)
            continue
        d, d_at = a.value, at
        if isinstance(d, ast.Name):
            nm = d.id
            ds = cfg.defs_of(at, nm)
            n_defs = sum(1 for n in cfg.nodes for x in n.defs if x.name == nm)
            if len(ds) != 1 or ds[0].kind != "assign" or not isinstance(ds[0].value, (ast.Tuple, ast.List)) or n_defs != 1 or any(nm in n.mutates for n in cfg.nodes):
                raise AnalysisError(f"{L.qual}: `{short(call, 50)}`: the argument pack `{nm}` is not a tuple display bound once and left unchanged (unrecognised form)")
            d, d_at = ds[0].value, ds[0].node
        if not isinstance(d, (ast.Tuple, ast.List)) or any(isinstance(x, ast.Starred) for x in d.elts):
            raise AnalysisError(f"{L.qual}: `{short(call, 50)}`: argument pack is not a tuple display (unrecognised form)")
        for v in d.elts:
            for x in _names_in(v):
                if {y.key() for y in cfg.defs_of(d_at, x)} != {y.key() for y in cfg.defs_of(at, x)}:
                    raise AnalysisError(f"{L.qual}: `{short(call, 50)}`: `{x}` is redefined between the tuple display and the call (unrecognised form)")
        args += list(d.elts)
    new = ast.copy_location(ast.Call(func=call.func, args=args, keywords=kws), call)
    return new


def _positional_add_sample(repo, L, at, receiver):
    """(owner, FunctionDef) of the add_sample method a positional call binds to: the class the receiver is constructed from / annotated
    with; failing that the only class of the package whose add_sample takes positional arguments."""
    cands = []
    if isinstance(receiver, ast.Name):
        for d in L.cfg.defs_of(at, receiver.id):
            e = None
            if d.kind in ("assign", "walrus") and isinstance(d.value, ast.Call):
                e = d.value.func
            elif d.kind == "param":
                for a in L.fn.args.posonlyargs + L.fn.args.args + L.fn.args.kwonlyargs:
                    if a.arg == d.name and a.annotation is not None:
                        e = a.annotation.left if isinstance(a.annotation, ast.BinOp) else a.annotation
            q = repo.resolve_expr(L.mi, e) if isinstance(e, (ast.Name, ast.Attribute)) else None
            try:
                repo.cls(q)
            except Exception:
                q = None
            cands.append(q)
    if cands and all(cands) and len(set(cands)) == 1:
        m = repo.method(cands[0], "add_sample")
        if m is not None:
            return m
    owners = []
    for mi in repo.modules.values():
        for name, node in mi.defs.items():
            if isinstance(node, ast.ClassDef):
                for ch in node.body:
                    if isinstance(ch, ast.FunctionDef) and ch.name == "add_sample" and len(positional_params(ch)) > 1:
                        owners.append(repo.canonical(f"{mi.name}.{name}", node))
    if len(owners) != 1:
        raise AnalysisError(f"{L.qual}: positional add_sample on `{short(receiver, 30)}`: the class of the receiver is not resolved and {len(owners)} classes define a positional add_sample (unrecognised form)")
    m = repo.method(owners[0], "add_sample")
    if m is None:
        raise AnalysisError(f"{L.qual}: add_sample of {owners[0]} not found (unrecognised form)")
    return m


def _names_in(e):
    return {x.id for x in ast.walk(e) if isinstance(x, ast.Name)}


def _flows_from(cfg, e, at, depth=4):
    """Names whose value flows into expression ``e`` at node ``at`` through plain assignments (`xs` of `ys = jnp.concat(xs)`; `return f(ys)`)."""
    out, seen = set(), set()
    work = [(e, at, 0)]
    while work:
        x, n, k = work.pop()
        for nm in _names_in(x):
            out.add(nm)
            if k >= depth:
                continue
            for d in cfg.defs_of(n, nm):
                if d.key() in seen or d.kind not in ("assign", "walrus") or not isinstance(d.value, ast.AST) or isinstance(d.value, ast.stmt):
                    continue
                seen.add(d.key())
                work.append((d.value, d.node, k + 1))
    return out


def _step_action(L):
    """The action expression passed to env.step (gymnasium: ``step(action)``), positional or by keyword."""
    c = L.step_call
    if c.args and not isinstance(c.args[0], ast.Starred):
        return c.args[0]
    for kw in c.keywords:
        if kw.arg == "action":
            return kw.value
    return None


def _action_base(L):
    a = _step_action(L)
    if a is None:
        return None
    b = strip_wrappers(a)
    return b.id if isinstance(b, ast.Name) else None


def _is_self_wrap(d) -> bool:
    """``x = int(x)`` / ``x = np.asarray(x)``: a redefinition that keeps the value (trusted wrappers)."""
    if d.kind != "assign" or not isinstance(d.value, ast.AST) or isinstance(d.value, ast.stmt):
        return False
    b = strip_wrappers(d.value)
    return isinstance(b, ast.Name) and b.id == d.name


def _eff_defs(cfg, at, name, _seen=None) -> frozenset:
    """Reaching definitions of ``name`` on entry to ``at``, read through value-preserving self-redefinitions."""
    _seen = set() if _seen is None else _seen
    out = set()
    for d in cfg.defs_of(at, name):
        if d.key() in _seen:
            continue
        if _is_self_wrap(d):
            _seen.add(d.key())
            out |= _eff_defs(cfg, d.node, name, _seen)
        else:
            out.add(d.key())
    return frozenset(out)


def _obs_var(L, stores, org):
    """The variable holding the *current* observation: bound by a reset (pre-loop or in-loop) or target of a carry
    ``x = <position 0 of step>``; for loops fed through a parameter (A2C/PPO) the carry target.  Several equally good candidates are
    told apart by which of them is defined when the loop is entered (the current observation exists before the first step)."""
    cfg = L.cfg
    cands = {}
    for n in cfg.nodes:
        for d in n.defs:
            if d.kind == "param":
                continue
            o = org.of_def(d, set())
            if o and all(x[0] == "reset" and x[1] == 0 for x in o):
                cands[d.name] = cands.get(d.name, 0) + 2
            elif o == {("step", 0)} and d.node != L.step_node:
                cands[d.name] = cands.get(d.name, 0) + 1
    if not cands:
        return None
    # the current observation exists before the first step: candidates that are defined when the loop is entered come first
    body = cfg.loop_body_nodes(L.outer_header)
    entered = {nm for nm in cands if any(dn not in body for dn, _ in cfg.reaching()[L.step_node].get(nm, frozenset()))}
    pool = {nm: v for nm, v in cands.items() if nm in entered} or cands
    top = max(pool.values())
    best = sorted(nm for nm, v in pool.items() if v == top)
    if len(best) > 1:
        # a variable all of whose definitions are (wrapped) copies of another candidate is a carried copy of that candidate (a device copy,
        # a cast): the candidate it is copied from is the observation variable
        def copy_of(nm):
            srcs = set()
            for n in cfg.nodes:
                for d in n.defs:
                    if d.name != nm or d.kind == "param":
                        continue
                    b = strip_wrappers(d.value) if d.kind in ("assign", "walrus") and isinstance(d.value, ast.AST) and not isinstance(d.value, ast.stmt) else None
                    if not isinstance(b, ast.Name) or b.id == nm:
                        return None
                    srcs.add(b.id)
            return srcs
        primary = [nm for nm in best if not ((copy_of(nm) or set()) and (copy_of(nm) or set()) <= (set(cands) | {L.pos.get(0)}) - {nm})]
        if len(primary) == 1:
            return primary[0]
        raise AnalysisError(f"{L.qual}: several variables {best} could hold the current observation (unrecognised form)")
    return best[0]


def _add_sample_records(repo):
    """The element `EpisodeDataset.add_sample` appends to the current episode, per path: (module, method, parameters without the receiver,
    parameters that belong to the record, appended value, NF)."""
    from ..nf import NF, Poly
    from ..sympath import enumerate_paths, PathEval
    cq = "rl_blox.algorithm.reinforce.EpisodeDataset"
    m = repo.method(cq, "add_sample")
    if m is None:
        raise AnalysisError(f"{cq}.add_sample not found (anchor vanished)")
    fn = m[1]
    mi = repo.cls(m[0])._module          # the class that defines the method (it may be inherited from a base class / mixin)
    fn._module = mi
    nf = NF(repo, inline_calls=False)
    cfg = nf.cfg_of(fn)
    allp = positional_params(fn)[1:] + [a.arg for a in fn.args.kwonlyargs]      # without the receiver
    by_role = {ROLE_OF[p]: p for p in allp if p in ROLE_OF}
    if {"O", "A", "N", "R"} <= set(by_role):
        params = [by_role[r] for r in "OANR"]        # further (optional) parameters do not belong to the record
    elif len(allp) == 4:
        params = allp
    else:
        raise AnalysisError(f"{cq}.add_sample: signature changed (anchor vanished)")
    env0 = {p: Poly.atom(p, {p}, {p}) for p in allp}
    out = []
    for pth in enumerate_paths(cfg, cfg.entry, {cfg.exit}):
        if any(isinstance(cfg.nodes[n_].ast, (ast.Raise, ast.Assert)) and cfg.nodes[n_].kind == "stmt" and isinstance(cfg.nodes[n_].ast, ast.Raise) for n_, _l in pth):
            continue
        pe = PathEval(nf, cfg, mi, cq + ".add_sample", env0).run(pth)
        apps = [v for (_n, key, v) in pe.appended if key.startswith("self.episodes[")]
        if len(apps) != 1:
            raise AnalysisError(f"{cq}.add_sample: {len(apps)} appends to the current episode on a path (unrecognised form)")
        out.append((mi, fn, allp, params, apps[0], nf))
    return out


def _episode_record(ck, repo):
    """EpisodeDataset keeps one record per step: add_sample must put all four of its arguments (observation, action, successor
    observation, reward) into the element it appends to the current episode.  A representation that keeps one of them elsewhere
    (e.g. only the latest successor) has to reconstruct the per-step value later; that reconstruction is read by R5 (`_readout`), which
    reports a reconstruction it can refute - here the incomplete record itself is undecided."""
    from ..nf import NF
    cq = "rl_blox.algorithm.reinforce.EpisodeDataset"
    for mi, fn, _allp, params, rec, _nf in _add_sample_records(repo):
        held = set()
        for el in (rec.elems or [rec]):
            held |= {a for a in el.atoms() if a in params}
            # a construction of a plain record class (NamedTuple / dataclass) keeps its arguments as fields
            ctor = (el.single_atom() or "").split("(")[0]
            if ctor and repo.has(ctor):
                try:
                    if NF._record_fields(repo.cls(ctor)):
                        held |= {a for a in el.deps if a in params}
                except AnalysisError:
                    pass
        missing = [p for p in params if p not in held]
        if missing:
            raise AnalysisError(f"{cq}.add_sample: the per-step record `{rec.canon()[:80]}` does not hold {missing}: the value is kept elsewhere and reconstructed later (not read by this analysis)")
        ck.ob("R1-store-role", cq + ".add_sample", "record-holds-all-roles", True, f"appends {rec.canon()[:80]}", "", loc(mi, fn))


# ---- read-out of the episode record -----------------------------------------------------------------------
# roles of API names on the read-out side (parameters of the consumers, fields of a returned record)
READ_ROLE = dict(ROLE_OF, next_observations="N", states="O", next_states="N")
_DATASET = "rl_blox.algorithm.reinforce.EpisodeDataset"
_READOUT = "prepare_policy_gradient_dataset"
_READOUT_LAYOUT = {0: "O", 1: "A", 2: "N"}        # documented order of the returned tuple (used for OK only, never for a violation)
_OTHER = ("other",)
_ARRAY_CTORS = {"array", "asarray", "asanyarray", "ascontiguousarray", "stack", "copy", "device_put"}
_JOINERS = {"concatenate", "concat", "hstack", "vstack"}
_ARRAY_LIBS = ("numpy.", "jax.numpy.", "jax.")
_KEEPING_METHODS = {"copy", "astype", "tolist", "block_until_ready"}
_META_ATTRS = {"dtype", "shape", "ndim", "size"}


class _Unread(Exception):
    pass


def _unk(why):
    return ("unk", str(why)[:90])


def _alter(mode):
    return {"A": "A~", "E": "E~", "J1": "J~"}.get(mode, mode)


class _Gather:
    """Abstract evaluation of the read-out methods of the episode dataset.  Every value is described by *which positions of which
    per-step records* it is gathered from:

      ("eps",)                       the list of episodes;  ("ep", eg, alt)  one episode (eg: id of the loop it is the generic element of,
                                     None for a fixed one such as episodes[-1]; alt: sliced / reordered)
      ("rec", eg, sg, alt)           one per-step record;   ("fld", k, eg, sg, alt)  position k of it
      ("seq", comps, kind, depth)    a list / array; comps = {(k, mode, eg)}:  mode "A" = position k of every record of every episode in
                                     storage order (complete, aligned); "A~" = the same column across all episodes, but sliced / filtered /
                                     joined with something else; "E" / "E~" = the same within the generic episode of loop eg; "J~" / "J1" =
                                     per-episode pieces (altered / one element) joined over the episodes; "F" = a fixed episode; "1" one
                                     fixed element; "1e" one element of the generic episode; ("x", "x", None) = values that are no records
      ("seq2", comps, kind, depth)   the list over all episodes of per-episode sequences
      ("sel", comps, lid)            the generic element of an iteration over a seq;  ("tuple", [..]);  ("record", {field: value})
      ("other",)                     not derived from the stored records;  ("unk", why)  not read (absorbing)."""

    def __init__(self, repo, cq, arity, field_pos):
        self.repo, self.cq, self.arity, self.field_pos = repo, cq, arity, field_pos
        self.stack = []          # loop frames: dict(id, kind, eg, alt)
        self.cond = 0            # depth of enclosing `if`s / comprehension conditions inside the innermost method activation's loops
        self.ids = 0
        self.depth = 0           # method activation depth

    # -- helpers ------------------------------------------------------------------------------------
    def _new_id(self):
        self.ids += 1
        return self.ids

    @staticmethod
    def derived(v):
        """does the value come (in part) from the stored records?"""
        if v[0] == "tuple":
            return any(_Gather.derived(x) for x in v[1])
        if v[0] == "record":
            return any(_Gather.derived(x) for x in v[1].values())
        return v != _OTHER

    def lib(self, mi, f):
        """last name of a numpy / jax.numpy function, else None"""
        try:
            q = self.repo.resolve_expr(mi, f) if isinstance(f, (ast.Name, ast.Attribute)) else None
        except Exception:
            q = None
        if q and q.startswith(_ARRAY_LIBS):
            return q.rsplit(".", 1)[1]
        return None

    def field(self, rec, k):
        if isinstance(k, str):
            k = self.field_pos.get(k)
        if not isinstance(k, int):
            return _unk("field of a record")
        if self.arity is not None:
            if not -self.arity <= k < self.arity:
                return _unk("record position out of range")
            k %= self.arity
        elif k < 0:
            return _unk("negative record position")
        if rec[0] == "rec":
            return ("fld", k, rec[1], rec[2], rec[3])
        # generic element of a sequence of whole records
        comps = frozenset((k, m, eg) if kk == "*" else None for kk, m, eg in rec[1])
        if None in comps:
            return _unk("element of a gathered sequence")
        return ("sel", comps, rec[2])

    def single(self, v):
        """comps of the one-element sequence [v]"""
        if v[0] == "fld":
            k, eg, sg, alt = v[1:]
            if sg is not None:
                return None
            return frozenset({(k, "1e" if eg is not None else "1", eg)})
        if v[0] == "rec":
            if v[2] is not None:
                return None
            return frozenset({("*", "1e" if v[1] is not None else "1", v[1])})
        if v == _OTHER:
            return frozenset({("x", "x", None)})
        return None

    def appended(self, v, crossed, cond):
        """comps contributed by `acc.append(v)` executed inside the loops ``crossed`` (those entered after acc was created)"""
        kinds = [f["kind"] for f in crossed]
        if v == _OTHER or v[0] == "iv":
            return frozenset({("x", "x", None)})
        if "other" in kinds:
            return None
        out = None
        if v[0] in ("fld", "rec"):
            k = v[1] if v[0] == "fld" else "*"
            eg, sg, alt = v[-3:]
            alt = alt or cond or any(f["alt"] for f in crossed)
            if kinds == ["eps", "ep"] and eg == crossed[0]["id"] and sg == crossed[1]["id"] and crossed[1]["eg"] == eg:
                out = (k, "A", None)
            elif kinds == ["ep"] and sg == crossed[0]["id"] and crossed[0]["eg"] == eg:
                out = (k, "E", eg) if eg is not None else (k, "F", None)
            elif kinds == ["eps"] and eg == crossed[0]["id"] and sg is None:
                out = (k, "J1", None)
            elif not kinds and sg is None:
                out = (k, "1e" if eg is not None else "1", eg)
            if out is not None and alt:
                out = (out[0], _alter(out[1]), out[2])
        elif v[0] == "sel":
            if kinds == ["seq"] and crossed[0]["id"] == v[2]:
                return frozenset((k, _alter(m) if cond or crossed[0]["alt"] else m, eg) for k, m, eg in v[1])
        return None if out is None else frozenset({out})

    def extended(self, comps, crossed, cond):
        """comps contributed by `acc.extend(<seq with comps>)` inside the loops ``crossed``"""
        kinds = [f["kind"] for f in crossed]
        if not kinds:
            return comps
        if kinds != ["eps"]:
            return None
        lid, alt = crossed[0]["id"], cond or crossed[0]["alt"]
        out = set()
        for k, m, eg in comps:
            if m == "x":
                out.add((k, m, None))
            elif eg != lid:
                return None
            elif m == "E":
                out.add((k, "A~" if alt else "A", None))
            elif m == "E~":
                out.add((k, "J~", None))
            elif m == "1e":
                out.add((k, "J~" if alt else "J1", None))
            else:
                return None
        return frozenset(out)

    def concat(self, a, b):
        """comps of the concatenation of two sequences"""
        if not a or not b:
            return a | b
        return frozenset((k, _alter(m), eg) for k, m, eg in a | b)

    def fresh(self, kind="list"):
        return ("seq", frozenset(), kind, len(self.stack))

    def join(self, a, b):
        if a == b:
            return a
        if a[0] == b[0] == "seq" and a[2:] == b[2:]:
            return ("seq", frozenset((k, _alter(m), eg) for k, m, eg in a[1] | b[1]), a[2], a[3])
        if a[0] == b[0] == "tuple" and len(a[1]) == len(b[1]):
            return ("tuple", [self.join(x, y) for x, y in zip(a[1], b[1])])
        if not self.derived(a) and not self.derived(b):
            return _OTHER
        return _unk("value differs between branches")

    # -- expressions ----------------------------------------------------------------------------------
    def ev(self, e, env, mi):
        m = getattr(self, "_e_" + type(e).__name__, None)
        if m is not None:
            return m(e, env, mi)
        kids = [self.ev(c, env, mi) for c in ast.iter_child_nodes(e) if isinstance(c, ast.expr)]
        return _unk(f"`{short(e, 40)}`") if any(self.derived(k) for k in kids) else _OTHER

    def _e_Constant(self, e, env, mi):
        return _OTHER

    def _e_Name(self, e, env, mi):
        return env.get(e.id, _OTHER)

    def _e_NamedExpr(self, e, env, mi):
        v = self.ev(e.value, env, mi)
        self.bind(e.target, v, env)
        return v

    def _e_Attribute(self, e, env, mi):
        if isinstance(e.value, ast.Name) and e.value.id == env.get("%self"):
            return ("eps",) if e.attr == "episodes" else _OTHER
        v = self.ev(e.value, env, mi)
        if not self.derived(v) or e.attr in _META_ATTRS:
            return v if v[0] == "unk" and e.attr not in _META_ATTRS else _OTHER
        if v[0] == "rec" or (v[0] == "sel" and e.attr in self.field_pos):
            return self.field(v, e.attr)
        if v[0] == "record" and e.attr in v[1]:
            return v[1][e.attr]
        return v if v[0] == "unk" else _unk(f"`{short(e, 40)}`")

    @staticmethod
    def _slice_kind(s):
        """'id' for [:], [0:], [None]; 'alt' for another slice; 'new' for a new axis; ('int', k) for a constant; None otherwise"""
        if isinstance(s, ast.Slice):
            lo_ok = s.lower is None or (isinstance(s.lower, ast.Constant) and s.lower.value in (0, None))
            up_ok = s.upper is None or (isinstance(s.upper, ast.Constant) and s.upper.value is None)
            st_ok = s.step is None or (isinstance(s.step, ast.Constant) and s.step.value in (1, None))
            return "id" if lo_ok and up_ok and st_ok else "alt"
        if isinstance(s, ast.Constant) and s.value is None:
            return "new"
        if dotted(s).rsplit(".", 1)[-1] == "newaxis":
            return "new"
        if isinstance(s, ast.Constant) and isinstance(s.value, int) and not isinstance(s.value, bool):
            return ("int", s.value)
        if isinstance(s, ast.UnaryOp) and isinstance(s.op, ast.USub) and isinstance(s.operand, ast.Constant) and isinstance(s.operand.value, int):
            return ("int", -s.operand.value)
        if isinstance(s, ast.Constant) and isinstance(s.value, str):
            return ("str", s.value)
        return None

    def _e_Subscript(self, e, env, mi):
        v = self.ev(e.value, env, mi)
        s = e.slice
        if isinstance(s, ast.Tuple) and s.elts and all(isinstance(x, ast.Slice) and self._slice_kind(x) == "id" or isinstance(x, ast.Constant) and x.value is Ellipsis for x in s.elts[1:]):
            s = s.elts[0]        # `a[1:, :]`, `a[1:, ...]`: the first axis decides
        sk = self._slice_kind(s)
        iv = self.ev(s, env, mi) if isinstance(s, ast.Name) else None
        if not self.derived(v):
            return _OTHER if iv is None or not self.derived(iv) or iv[0] == "iv" else _unk("index derived from records")
        if v[0] == "unk":
            return v
        if v[0] == "eps":
            if isinstance(sk, tuple) and sk[0] == "int":
                return ("ep", None, False)
            if iv is not None and iv[0] == "iv" and iv[1] == "eps":
                return ("ep", iv[2], iv[3])
        elif v[0] == "ep":
            if isinstance(sk, tuple) and sk[0] == "int":
                return ("rec", v[1], None, v[2])
            if iv is not None and iv[0] == "iv" and iv[1] == "ep" and iv[4] == v[1]:
                return ("rec", v[1], iv[2], v[2] or iv[3])
            if sk == "id":
                return v
            if sk == "alt":
                return ("ep", v[1], True)
        elif v[0] == "rec" or (v[0] == "sel" and any(k == "*" for k, _m, _g in v[1])):
            if isinstance(sk, tuple):
                return self.field(v, sk[1])
        elif v[0] == "fld":
            if sk == "new":
                c = self.single(v)
                if c is not None:
                    return ("seq", c, "array", len(self.stack))
        elif v[0] == "seq":
            if sk in ("id", "new"):
                return v
            if sk == "alt":
                return ("seq", frozenset((k, _alter(m), eg) for k, m, eg in v[1]), v[2], v[3])
            if isinstance(sk, tuple) and sk[0] == "int" and len(v[1]) == 1:
                (k, m, eg), = v[1]
                if k == "*":
                    return ("rec", None, None, False)
                if isinstance(k, int):
                    return ("fld", k, None, None, False)
        return _unk(f"`{short(e, 40)}`")

    def _elements(self, elts, env, mi, kind):
        """value of a list / tuple display read as a sequence"""
        comps = frozenset()
        for x in elts:
            if isinstance(x, ast.Starred):
                w = self.ev(x.value, env, mi)
                c = w[1] if w[0] == "seq" else None
            else:
                w = self.ev(x, env, mi)
                c = self.single(w)
            if w[0] == "unk":
                return w
            if c is None:
                return _unk(f"element `{short(x, 30)}` of a sequence display")
            comps = self.concat(comps, c) if comps - {("x", "x", None)} and c - {("x", "x", None)} else comps | c
        return ("seq", comps, kind, len(self.stack))

    def _e_List(self, e, env, mi):
        return self._elements(e.elts, env, mi, "list")

    def _e_Tuple(self, e, env, mi):
        if any(isinstance(x, ast.Starred) for x in e.elts):
            return self._elements(e.elts, env, mi, "list")
        return ("tuple", [self.ev(x, env, mi) for x in e.elts])

    def _comp(self, e, env, mi):
        env = dict(env)
        acc = self.fresh()
        n_frames, cond0 = 0, self.cond
        try:
            for g in e.generators:
                if g.is_async:
                    return _unk("async comprehension")
                self.enter_loop(g.target, g.iter, env, mi)
                n_frames += 1
                for c in g.ifs:
                    self.ev(c, env, mi)
                    self.cond += 1
            v = self.ev(e.elt, env, mi)
            return self.add(acc, "append", v)
        finally:
            del self.stack[len(self.stack) - n_frames:]
            self.cond = cond0

    _e_ListComp = _comp
    _e_GeneratorExp = _comp

    def _e_IfExp(self, e, env, mi):
        self.ev(e.test, env, mi)
        return self.join(self.ev(e.body, env, mi), self.ev(e.orelse, env, mi))

    def _e_BinOp(self, e, env, mi):
        a, b = self.ev(e.left, env, mi), self.ev(e.right, env, mi)
        for v in (a, b):
            if v[0] == "unk":
                return v
        if not self.derived(a) and not self.derived(b):
            return _OTHER
        if isinstance(e.op, ast.Add) and a[0] == b[0] == "seq" and a[2] == b[2] == "list":
            return ("seq", self.concat(a[1], b[1]), "list", min(a[3], b[3]))
        if isinstance(e.op, ast.Add) and "seq" in (a[0], b[0]) and (isinstance(e.left, ast.List) or isinstance(e.right, ast.List)):
            return _unk("list + array")
        # element-wise arithmetic with a value that is no record keeps the provenance (the obligation is about where the elements come from)
        if not self.derived(b) and a[0] in ("seq", "fld") and (a[0] == "fld" or a[2] == "array"):
            return a
        if not self.derived(a) and b[0] in ("seq", "fld") and (b[0] == "fld" or b[2] == "array"):
            return b
        return _unk(f"`{short(e, 40)}`")

    def _e_Compare(self, e, env, mi):
        return _OTHER

    def _e_BoolOp(self, e, env, mi):
        return _OTHER

    def _e_Call(self, e, env, mi):
        f = e.func
        if any(kw.arg is None for kw in e.keywords):
            return _unk("**kwargs call")
        # a method of the dataset itself
        if isinstance(f, ast.Attribute) and isinstance(f.value, ast.Name) and f.value.id == env.get("%self"):
            m = self.repo.method(self.cq, f.attr)
            if m is None:
                return _unk(f"self.{f.attr} is not a method")
            return self.call_method(m, e, env, mi)
        lib = self.lib(mi, f)
        builtin = f.id if isinstance(f, ast.Name) and f.id not in env and f.id in ("list", "tuple", "sum", "len", "range", "isinstance", "int", "float", "zip") else None
        if builtin == "len":
            return _OTHER
        args = list(e.args)
        if builtin == "zip" and len(args) == 1 and isinstance(args[0], ast.Starred) and not e.keywords and self.arity is not None:
            # zip(*records): one column per record position
            v = self.ev(args[0].value, env, mi)
            if v[0] == "ep":
                mode = ("E~" if v[2] else "E") if v[1] is not None else "F"
                return ("tuple", [("seq", frozenset({(k, mode, v[1])}), "list", len(self.stack)) for k in range(self.arity)])
            if v[0] == "seq" and v[1] and all(k == "*" for k, _m, _g in v[1]):
                return ("tuple", [("seq", frozenset((k, m_, g_) for _k, m_, g_ in v[1]), "list", v[3]) for k in range(self.arity)])
            return v if v[0] == "unk" else _unk(f"`{short(e, 40)}`")
        if (lib in _ARRAY_CTORS or builtin in ("list", "tuple")) and args and not isinstance(args[0], ast.Starred):
            rest = [self.ev(a, env, mi) for a in args[1:] if not isinstance(a, ast.Starred)] + [self.ev(kw.value, env, mi) for kw in e.keywords]
            if any(self.derived(r) for r in rest):
                return _unk(f"`{short(e, 40)}`")
            a0 = args[0]
            v = self._elements(a0.elts, env, mi, "list") if isinstance(a0, (ast.Tuple, ast.List)) else self.ev(a0, env, mi)
            kind = "list" if builtin else "array"
            if v[0] == "seq":
                return ("seq", v[1], kind, v[3])
            if v[0] in ("fld", "unk") or not self.derived(v):
                return v
            return _unk(f"`{short(e, 40)}`")
        if lib in _JOINERS and args and not isinstance(args[0], ast.Starred):
            a0 = args[0]
            if isinstance(a0, (ast.Tuple, ast.List)) and not any(isinstance(x, ast.Starred) for x in a0.elts):
                parts = [self.ev(x, env, mi) for x in a0.elts]
            else:
                v = self.ev(a0, env, mi)
                parts = v[1] if v[0] == "tuple" else None
                if parts is None:
                    if v[0] == "seq2":
                        c = self.extended(v[1], [{"id": v[4], "kind": "eps", "alt": False}], False)
                        return ("seq", c, "array", v[3]) if c is not None else _unk("joined per-episode pieces")
                    if v[0] == "seq":
                        return ("seq", v[1], "array", v[3])
                    return v if v[0] == "unk" or not self.derived(v) else _unk(f"`{short(e, 40)}`")
            comps = frozenset()
            for p in parts:
                if p[0] == "unk":
                    return p
                c = p[1] if p[0] == "seq" else self.single(p)
                if c is None:
                    return _unk(f"part of `{short(e, 40)}`")
                comps = self.concat(comps, c)
            return ("seq", comps, "array", len(self.stack))
        if builtin == "sum" and len(args) == 2 and isinstance(args[1], ast.List) and not args[1].elts:
            v = self.ev(args[0], env, mi)
            if v[0] == "seq2":
                c = self.extended(v[1], [{"id": v[4], "kind": "eps", "alt": False}], False)
                return ("seq", c, "list", v[3]) if c is not None else _unk("joined per-episode pieces")
        if isinstance(f, ast.Attribute) and dotted(f).endswith("chain.from_iterable") and len(args) == 1:
            v = self.ev(args[0], env, mi)
            if v[0] == "seq2":
                c = self.extended(v[1], [{"id": v[4], "kind": "eps", "alt": False}], False)
                return ("seq", c, "list", v[3]) if c is not None else _unk("joined per-episode pieces")
        if isinstance(f, ast.Attribute) and f.attr in _KEEPING_METHODS and not isinstance(f.value, ast.Name) or \
                (isinstance(f, ast.Attribute) and f.attr in _KEEPING_METHODS and isinstance(f.value, ast.Name) and self.derived(env.get(f.value.id, _OTHER))):
            v = self.ev(f.value, env, mi)
            if v[0] in ("seq", "fld", "unk"):
                return v
        # construction of a plain record
        fields = None
        if isinstance(f, ast.Call) and dotted(f.func).rsplit(".", 1)[-1] == "namedtuple" and len(f.args) == 2 and isinstance(f.args[1], (ast.List, ast.Tuple)) \
                and all(isinstance(x, ast.Constant) and isinstance(x.value, str) for x in f.args[1].elts):
            fields = [x.value for x in f.args[1].elts]
        elif isinstance(f, (ast.Name, ast.Attribute)):
            try:
                q = self.repo.resolve_expr(mi, f)
                if q and self.repo.has(q):
                    from ..nf import NF
                    fields = NF._record_fields(self.repo.lookup(q)[1])
            except Exception:
                fields = None
        if fields and not any(isinstance(a, ast.Starred) for a in args) and len(args) <= len(fields):
            rec = dict(zip(fields, [self.ev(a, env, mi) for a in args]))
            rec.update({kw.arg: self.ev(kw.value, env, mi) for kw in e.keywords if kw.arg in fields})
            return ("record", rec)
        vals = [self.ev(a.value if isinstance(a, ast.Starred) else a, env, mi) for a in args] + [self.ev(kw.value, env, mi) for kw in e.keywords]
        if isinstance(f, ast.Attribute):
            vals.append(self.ev(f.value, env, mi))
        elif isinstance(f, ast.Name):
            vals.append(env.get(f.id, _OTHER))
        return _unk(f"`{short(e, 40)}`") if any(self.derived(v) for v in vals) else _OTHER

    def call_method(self, m, call, env, mi):
        owner, fn = m
        if self.depth >= 6:
            return _unk("method calls nested too deeply")
        cmi = self.repo.cls(owner)._module
        params = positional_params(fn)
        if not params or fn.args.vararg or fn.args.kwarg:
            return _unk(f"signature of {fn.name}")
        if any(ast.unparse(d).split("(")[0].split(".")[-1] in ("staticmethod", "classmethod", "property") for d in fn.decorator_list):
            return _unk(f"decorated method {fn.name}")
        new = {"%self": params[0]}
        if call is not None:
            for p, a in bind_call(fn, call, skip_self=True).items():
                if isinstance(a, ast.AST):
                    new[p] = self.ev(a, env, mi)
        self.depth += 1
        saved_cond = self.cond
        rets = []
        try:
            self.block(fn.body, new, cmi, rets)
        except _Unread as ex:
            return _unk(str(ex))
        finally:
            self.depth -= 1
            self.cond = saved_cond
        if not rets:
            return _OTHER
        out = rets[0]
        for r in rets[1:]:
            out = self.join(out, r)
        return out

    # -- statements -----------------------------------------------------------------------------------
    def bind(self, tgt, v, env):
        if isinstance(tgt, ast.Name):
            env[tgt.id] = v
            return
        if isinstance(tgt, (ast.Tuple, ast.List)):
            elts = tgt.elts
            if any(isinstance(x, ast.Starred) for x in elts):
                vals = None
            elif v[0] == "tuple" and len(v[1]) == len(elts):
                vals = v[1]
            elif v[0] == "rec" and (self.arity is None or self.arity == len(elts)):
                vals = [self.field(v, i) for i in range(len(elts))]
            elif v[0] == "sel" and all(k == "*" for k, _m, _g in v[1]) and (self.arity is None or self.arity == len(elts)):
                vals = [self.field(v, i) for i in range(len(elts))]
            else:
                vals = None
            for i, x in enumerate(elts):
                x = x.value if isinstance(x, ast.Starred) else x
                self.bind(x, vals[i] if vals is not None else (_unk("unpacking") if self.derived(v) else _OTHER), env)
            return
        # subscript / attribute store: the object is changed in place
        b = tgt
        while isinstance(b, (ast.Subscript, ast.Attribute)):
            b = b.value
        if isinstance(b, ast.Name) and b.id in env and b.id != env.get("%self") and self.derived(env[b.id]):
            env[b.id] = _unk(f"`{b.id}` is updated in place")

    def enter_loop(self, tgt, it, env, mi):
        """push the frame of `for tgt in it` and bind the target to the generic element"""
        lid = self._new_id()
        src, idx_tgt, alt, as_index = it, None, False, False
        while True:
            if isinstance(src, ast.Call) and isinstance(src.func, ast.Name) and src.func.id not in env and len(src.args) == 1 and not src.keywords \
                    and not isinstance(src.args[0], ast.Starred):
                fname = src.func.id
                if fname == "enumerate" and idx_tgt is None and isinstance(tgt, (ast.Tuple, ast.List)) and len(tgt.elts) == 2:
                    idx_tgt, tgt, src = tgt.elts[0], tgt.elts[1], src.args[0]
                    continue
                if fname in ("list", "tuple", "iter"):
                    src = src.args[0]
                    continue
                if fname in ("reversed", "sorted"):
                    alt, src = True, src.args[0]
                    continue
                if fname == "range" and isinstance(src.args[0], ast.Call) and isinstance(src.args[0].func, ast.Name) and src.args[0].func.id == "len" \
                        and len(src.args[0].args) == 1 and not as_index and idx_tgt is None:
                    as_index, src = True, src.args[0].args[0]
                    continue
            break
        v = self.ev(src, env, mi)
        if idx_tgt is not None:
            self.bind(idx_tgt, _OTHER, env)
        frame = {"id": lid, "kind": "other", "eg": None, "alt": alt, "cond0": self.cond}
        elem = _unk(f"iteration over `{short(it, 30)}`") if self.derived(v) else _OTHER
        if v[0] == "eps":
            frame["kind"] = "eps"
            elem = ("iv", "eps", lid, alt, None) if as_index else ("ep", lid, alt)
        elif v[0] == "ep":
            frame.update(kind="ep", eg=v[1], alt=alt or v[2])
            elem = ("iv", "ep", lid, alt or v[2], v[1]) if as_index else ("rec", v[1], lid, alt or v[2])
        elif v[0] == "seq" and not as_index:
            frame["kind"] = "seq"
            elem = ("sel", v[1], lid)
        elif as_index and self.derived(v):
            elem = _unk("index over a gathered sequence")
        elif as_index:
            elem = _OTHER
        self.stack.append(frame)
        self.bind(tgt, elem, env)

    def add(self, acc, how, v):
        """`acc.append(v)` / `acc.extend(v)` in the current loop context"""
        if acc[0] not in ("seq", "seq2") or acc[2] != "list":
            return _unk("append to something that is not a list")
        if v[0] == "unk":
            return v
        crossed = self.stack[acc[3]:] if len(self.stack) >= acc[3] else None
        if crossed is None:
            return _unk("list created inside a loop that has ended")
        cond = bool(crossed) and self.cond > crossed[0]["cond0"]
        if how == "append" and v[0] == "seq":
            # a list of per-episode sequences
            if [f["kind"] for f in crossed] == ["eps"] and not cond and not crossed[0]["alt"] and not acc[1] and all(eg in (crossed[0]["id"], None) for _k, _m, eg in v[1]):
                return ("seq2", v[1], "list", acc[3], crossed[0]["id"])
            return _unk("nested sequences")
        if acc[0] == "seq2":
            return _unk("nested sequences")
        if how == "append":
            c = self.appended(v, crossed, cond)
        else:
            c = self.extended(v[1], crossed, cond) if v[0] == "seq" else (frozenset({("x", "x", None)}) if v == _OTHER else None)
        if c is None:
            return _unk(f"{how} of a value gathered in a way that is not read")
        merged = acc[1] | c
        if not crossed and acc[1] - {("x", "x", None)} and c - {("x", "x", None)}:
            merged = self.concat(acc[1], c)
        return ("seq", merged, "list", acc[3])

    def block(self, stmts, env, mi, rets) -> bool:
        """execute; True when the block always leaves the method (return / raise)"""
        for s in stmts:
            if self.stmt(s, env, mi, rets):
                return True
        return False

    def stmt(self, s, env, mi, rets) -> bool:
        if isinstance(s, ast.Expr):
            c = s.value
            if isinstance(c, ast.Call) and isinstance(c.func, ast.Attribute) and isinstance(c.func.value, ast.Name) and c.func.value.id in env \
                    and c.func.value.id != env.get("%self") and env[c.func.value.id][0] in ("seq", "seq2", "unk"):
                nm = c.func.value.id
                if c.func.attr in ("append", "extend") and len(c.args) == 1 and not c.keywords and not isinstance(c.args[0], ast.Starred):
                    env[nm] = self.add(env[nm], c.func.attr, self.ev(c.args[0], env, mi)) if env[nm][0] != "unk" else env[nm]
                else:
                    env[nm] = _unk(f"`{short(c, 40)}`")
                return False
            if not isinstance(c, ast.Constant):
                self.ev(c, env, mi)
                for x in ast.walk(c):       # a sequence handed to a call that is not read may be changed by it
                    if isinstance(x, ast.Call) and not (isinstance(x.func, ast.Name) and x.func.id in ("print", "len")):
                        for a in x.args:
                            if isinstance(a, ast.Name) and a.id in env and env[a.id][0] in ("seq", "seq2"):
                                env[a.id] = _unk(f"`{a.id}` is passed to `{short(x.func, 30)}`")
            return False
        if isinstance(s, (ast.Assign, ast.AnnAssign)):
            if s.value is None:
                return False
            tgts = s.targets if isinstance(s, ast.Assign) else [s.target]
            if len(tgts) == 1 and isinstance(tgts[0], ast.Name) and isinstance(s.value, ast.BinOp) and isinstance(s.value.op, ast.Add) and isinstance(s.value.left, ast.Name) \
                    and s.value.left.id == tgts[0].id and env.get(tgts[0].id, _OTHER)[0] in ("seq", "seq2") and env[tgts[0].id][2] == "list":
                env[tgts[0].id] = self.add(env[tgts[0].id], "extend", self.ev(s.value.right, env, mi))      # acc = acc + [...]
                return False
            v = self.ev(s.value, env, mi)
            for t in tgts:
                self.bind(t, v, env)
            return False
        if isinstance(s, ast.AugAssign):
            if isinstance(s.target, ast.Name):
                cur = env.get(s.target.id, _OTHER)
                if isinstance(s.op, ast.Add) and cur[0] in ("seq", "seq2") and cur[2] == "list":
                    env[s.target.id] = self.add(cur, "extend", self.ev(s.value, env, mi))
                else:
                    env[s.target.id] = self._e_BinOp(ast.BinOp(left=s.target, op=s.op, right=s.value), env, mi)
            else:
                self.ev(s.value, env, mi)
                self.bind(s.target, _OTHER, env)
            return False
        if isinstance(s, ast.For):
            before = dict(env)
            n0, c0 = len(self.stack), self.cond
            self.enter_loop(s.target, s.iter, env, mi)
            try:
                if any(isinstance(x, (ast.Break, ast.Continue, ast.Return)) for b in s.body for x in ast.walk(b)):
                    raise _Unread("a loop is left early (break / continue / return)")
                self.block(s.body, env, mi, rets)
            finally:
                del self.stack[n0:]
                self.cond = c0
            # plain (re)bindings made in the body hold the value of the last iteration / the value before the loop
            for nm, v in list(env.items()):
                if nm.startswith("%"):
                    continue
                old = before.get(nm, _OTHER)
                if v == old or v[0] == "unk":
                    continue
                if v[0] in ("seq", "seq2") and old[0] in ("seq", "seq2") and v[3] == old[3] and v[3] <= n0:
                    continue        # an accumulator created before the loop
                env[nm] = _unk(f"`{nm}` is rebound in a loop") if self.derived(v) or self.derived(old) else _OTHER
            return self.block(s.orelse, env, mi, rets) if s.orelse else False
        if isinstance(s, ast.If):
            self.ev(s.test, env, mi)
            e1, e2 = dict(env), dict(env)
            self.cond += 1
            try:
                t1 = self.block(s.body, e1, mi, rets)
                t2 = self.block(s.orelse, e2, mi, rets)
            finally:
                self.cond -= 1
            if t1 and t2:
                return True
            if t1 or t2:
                env.clear()
                env.update(e2 if t1 else e1)
                return False
            for nm in set(e1) | set(e2):
                env[nm] = self.join(e1.get(nm, _OTHER), e2.get(nm, _OTHER))
            return False
        if isinstance(s, ast.Return):
            rets.append(self.ev(s.value, env, mi) if s.value is not None else _OTHER)
            return True
        if isinstance(s, ast.Raise):
            return True
        if isinstance(s, (ast.Assert, ast.Pass, ast.Import, ast.ImportFrom, ast.Global, ast.Nonlocal)):
            return False
        if isinstance(s, ast.With):
            for it in s.items:
                self.ev(it.context_expr, env, mi)
                if it.optional_vars is not None:
                    self.bind(it.optional_vars, _OTHER, env)
            return self.block(s.body, env, mi, rets)
        if isinstance(s, (ast.FunctionDef, ast.ClassDef)):
            env[s.name] = _unk(f"local definition {s.name}") if any(isinstance(x, ast.Name) and self.derived(env.get(x.id, _OTHER)) for x in ast.walk(s)) else _OTHER
            return False
        raise _Unread(f"statement `{short(s, 40)}` is not read")


def _record_layout(repo):
    """What `add_sample` appends per step, read on every path: ({role: position}, arity, {field name: position}, where)."""
    layouts = []
    for mi, fn, allp, _params, rec, nf in _add_sample_records(repo):
        pos, names = {}, {}
        if rec.elems:
            items = [(None, el) for el in rec.elems]
        else:
            meta = nf.meta.get(rec.single_atom() or "", {}).get("record")
            if not meta:
                raise AnalysisError(f"{_DATASET}.add_sample: the per-step record `{rec.canon()[:60]}` is neither a tuple nor a plain record class (unrecognised form)")
            items = list(meta.items())
        for i, (fname, el) in enumerate(items):
            a = el.single_atom()
            if a in allp:
                pos[i] = a
            if fname is not None:
                names[fname] = i
        layouts.append((pos, len(items), names))
    if not layouts or any(l != layouts[0] for l in layouts[1:]):
        raise AnalysisError(f"{_DATASET}.add_sample: the paths append records of different layouts (unrecognised form)")
    pos, arity, names = layouts[0]
    roles = {}
    for i, p in pos.items():
        r = READ_ROLE.get(p)
        if r is not None:
            if r in roles:
                raise AnalysisError(f"{_DATASET}.add_sample: the record holds role {r} twice (unrecognised form)")
            roles[r] = i
    return roles, arity, names, (mi, fn)


def _readout_votes(repo, nf):
    """Which protocol role the consumers give each position of the read-out result: a variable holding position p of the result that is
    passed to a repository function whose signature distinguishes the observation from the successor observation (it has a parameter for
    each) votes for the role of the parameter it is bound to.  {position: {role}}."""
    votes = {}
    done = set()
    for q, fn, mi in repo.all_functions():
        if id(fn) in done:
            continue
        done.add(id(fn))
        calls = {id(c) for c in ast.walk(fn) if isinstance(c, ast.Call) and isinstance(c.func, ast.Attribute) and c.func.attr == _READOUT}
        if not calls:
            continue
        from ..sem import result_position
        cfg = nf.cfg_of(fn)
        for n in cfg.nodes:
            if n.kind != "stmt" or n.ast is None:
                continue
            for c in ast.walk(n.ast):
                if not (isinstance(c, ast.Call) and isinstance(c.func, (ast.Name, ast.Attribute))):
                    continue
                try:
                    cq_ = repo.resolve_expr(mi, c.func)
                    callee = repo.func(cq_) if cq_ and repo.has(cq_) else None
                except Exception:
                    callee = None
                if callee is None:
                    continue
                proles = {READ_ROLE.get(p) for p in positional_params(callee) + [a.arg for a in callee.args.kwonlyargs]}
                if not {"O", "N"} <= proles:
                    continue
                for pname, a in bind_call(callee, c).items():
                    r = READ_ROLE.get(pname)
                    if r not in ("O", "A", "N") or not isinstance(a, ast.Name):
                        continue
                    rp = result_position(cfg, a.id, n.id)
                    if rp is not None and id(rp[0]) in calls and isinstance(rp[1], int):
                        votes.setdefault(rp[1], set()).add(r)
    return votes


def _readout(ck, repo):
    """R5: every array the episode dataset hands to the learner for a protocol role (observation / action / successor observation) is
    gathered from that role's own position of the per-step records, for every step of every episode in storage order.  An array of one
    role that is (partly) the column of *another* role taken across all episodes - whole, shifted or sliced - differs from what the
    environment returned (a shifted observation column is the successor only inside an episode: at an episode end it is the next
    episode's reset observation); that is reported when a consumer's signature confirms the role.  Per-episode reconstructions and other
    forms are not read (undecided)."""
    from ..nf import NF
    m = repo.method(_DATASET, _READOUT)
    if m is None:
        raise AnalysisError(f"{_DATASET}.{_READOUT} not found (anchor vanished)")
    roles, arity, names, _where = _record_layout(repo)
    nf = NF(repo, inline_calls=False)
    votes = _readout_votes(repo, nf)
    site = f"{_DATASET}.{_READOUT}"
    owner, fn = m
    mi = repo.cls(owner)._module
    g = _Gather(repo, _DATASET, arity, names)
    params = positional_params(fn)
    if not params:
        raise AnalysisError(f"{site}: no receiver parameter (unrecognised form)")
    rets = []
    try:
        g.block(fn.body, {"%self": params[0]}, mi, rets)
    except _Unread as ex:
        raise AnalysisError(f"{site}: {ex} (unrecognised form)")
    except (RecursionError, IndexError, KeyError, TypeError, ValueError, AttributeError) as ex:
        raise AnalysisError(f"{site}: the read-out is written in a form the abstract evaluation does not read ({type(ex).__name__}: {ex}) (unrecognised form)")
    ck.need(rets, f"{site}: no return value (unrecognised form)")
    col_role = {k: r for r, k in roles.items()}
    judged = []
    for rv in rets:
        if rv[0] == "tuple":
            items = []
            for p, v in enumerate(rv[1]):
                vt = votes.get(p, set())
                if len(vt) == 1:
                    items.append((p, next(iter(vt)), True, v))
                elif len(vt) > 1:
                    ck.incomplete.append(f"{site}: position {p} of the result is consumed as {sorted(vt)} (unrecognised form)")
                elif len(rv[1]) == 5 and p in _READOUT_LAYOUT:
                    items.append((p, _READOUT_LAYOUT[p], False, v))
        elif rv[0] == "record":
            items = [(f, READ_ROLE[f], True, v) for f, v in rv[1].items() if READ_ROLE.get(f) in ("O", "A", "N")]
        elif rv == _OTHER and len(rets) > 1:
            continue        # a guard return (`return None` for an empty dataset) beside the gathering one
        else:
            ck.incomplete.append(f"{site}: the returned value is not a tuple / record of arrays ({rv[-1] if rv[0] == 'unk' else rv[0]}) (unrecognised form)")
            continue
        judged.append(items)
    n = 0
    for items in judged:
        if len(judged) > 1 and items and all(v == _OTHER for _p, _r, _c, v in items):
            continue        # a guard return (empty dataset) beside the gathering one
        for p, r, confirmed, v in items:
            k_r = roles.get(r)
            key = f"{r}:gathered-from-own-record-position"
            what = f"result[{p!r}] (role {r})"
            if v[0] != "seq":
                ck.incomplete.append(f"{site}: {what} is not read as a gather over the stored records ({v[-1] if v[0] == 'unk' else v[0]}) (unrecognised form)")
                continue
            desc = ", ".join(sorted(f"{'record' if k == '*' else 'other values' if k == 'x' else f'position {k}' + (f' [{col_role[k]}]' if k in col_role else '')}:{m_}" for k, m_, _g in v[1]))
            if k_r is not None and v[1] == frozenset({(k_r, "A", None)}):
                n += 1
                ck.ob("R5-readout-role", site, key, True, f"{what} <- position {k_r} of every record of every episode, in order", "", loc(mi, fn))
                continue
            off = sorted((k, m_) for k, m_, _g in v[1] if isinstance(k, int) and k != k_r and k in col_role and m_ in ("A", "A~"))
            if off and confirmed:
                n += 1
                k, m_ = off[0]
                how = "the whole column" if m_ == "A" else "a shifted / sliced / extended part of the column"
                ck.ob("R5-readout-role", site, key, False, f"{what} <- {desc}",
                      f"the array handed out as role {r} is gathered from record position {k}, which holds role {col_role[k]} ({how}, taken across all episodes): "
                      f"for the last step of an episode that is not the value env.step returned (a neighbouring record belongs to the next episode)"
                      + ("" if k_r is not None else f"; the per-step record holds no position for role {r}"), loc(mi, fn))
                continue
            ck.incomplete.append(f"{site}: {what} is gathered as {{{desc}}}; whether that equals the stored {r} of every step is not read (unrecognised form)")
    ck.count("readout-arrays", n)


def _different_value(org, expr, at, wanted) -> bool | None:
    """True when ``expr`` is known to be another value than the protocol value ``wanted``: it depends on other step / reset
    positions.  None when that cannot be told (depends only on the wanted value - possibly an identity wrapper - or on untraceable names)."""
    # the dependence reading is coarse (every name read): a field / element taken out of a composite value (`rec.next_obs`, `result[0]`)
    # depends on everything the composite was built from, which says nothing about the one component that is read
    called = {id(c.func) for c in ast.walk(expr) if isinstance(c, ast.Call)}
    for x in ast.walk(expr):
        if isinstance(x, ast.Attribute) and id(x) not in called and x.attr not in ("at", "T", "real", "shape", "dtype"):
            return None       # `rec.next_obs`
        if isinstance(x, ast.Subscript) and isinstance(x.slice, ast.Constant) and not (isinstance(x.value, ast.Attribute) and x.value.attr == "at"):
            return None       # `result[0]`, `info["final_observation"]`
    d = org.deps(expr, at)
    if any(x[0] == "unknown" for x in d):
        return None
    others = {x for x in d if x[0] in ("step", "reset") and x[:2] != wanted[:2]}
    return True if others else None


def _env_confined(L) -> bool:
    """True when every use of the environment parameter in the function is `<env>.<attribute>...`, the environment is never passed on,
    aliased or rebound, and every `<env>.reset` is a statement of the function itself (not of a nested function / lambda): a reset can then
    only happen at the reset statements find_env_loop enumerates."""
    base_of_attr = {id(x.value) for x in ast.walk(L.fn) if isinstance(x, ast.Attribute)}
    own = L.fn.args.posonlyargs + L.fn.args.args + L.fn.args.kwonlyargs
    for x in ast.walk(L.fn):
        if isinstance(x, ast.Name) and x.id == L.env and not (isinstance(x.ctx, ast.Load) and id(x) in base_of_attr):
            return False
        if isinstance(x, ast.arg) and x.arg == L.env and not any(x is a for a in own):
            return False      # a nested function / lambda has a parameter of the same name
    def n_resets(t):
        return sum(1 for x in ast.walk(t) if isinstance(x, ast.Attribute) and x.attr == "reset" and isinstance(x.value, ast.Name) and x.value.id == L.env)
    return n_resets(L.fn) == sum(n_resets(L.cfg.nodes[r].ast) for r in set(L.resets_pre) | set(L.resets_in))


NOCOPY = {"np.asarray", "numpy.asarray"}      # of an array: the same object, not a copy


def _is_step0_object(cfg, L, name, at, seen=None) -> bool:
    """Some definition of ``name`` reaching ``at`` makes it the very object env.step returned at position 0: bound by the step statement,
    a plain assignment / element of a tuple assignment of such a name, or np.asarray of it (no copy)."""
    seen = set() if seen is None else seen
    for d in cfg.defs_of(at, name):
        if d.key() in seen:
            continue
        seen.add(d.key())
        if d.kind == "unpack" and d.node == L.step_node and tuple(d.path) == (0,):
            return True
        v = None
        if d.kind in ("assign", "walrus") and isinstance(d.value, ast.AST) and not isinstance(d.value, ast.stmt):
            v = d.value
        elif d.kind == "unpack" and isinstance(d.value, (ast.Tuple, ast.List)) and len(d.path) == 1 and isinstance(d.path[0], int) and d.path[0] < len(d.value.elts) \
                and not any(isinstance(x, ast.Starred) for x in d.value.elts):
            v = d.value.elts[d.path[0]]
        while isinstance(v, ast.Call) and dotted(v.func) in NOCOPY and len(v.args) == 1 and not v.keywords and not isinstance(v.args[0], ast.Starred):
            v = v.args[0]
        if isinstance(v, ast.Name) and _is_step0_object(cfg, L, v.id, d.node, seen):
            return True
    return False


def _writes_elements(stmt, name) -> bool:
    """`name[...] = v` / `name[...] += v`: the statement overwrites elements of the object bound to ``name``."""
    if isinstance(stmt, ast.Assign):
        tgts = stmt.targets
    elif isinstance(stmt, (ast.AugAssign, ast.AnnAssign)):
        tgts = [stmt.target]
    else:
        return False
    flat = []
    for t in tgts:
        flat += list(t.elts) if isinstance(t, (ast.Tuple, ast.List)) else [t]
    for t in flat:
        while isinstance(t, ast.Subscript):
            t = t.value
            if isinstance(t, ast.Name) and t.id == name:
                return True
    return False


def _copy_source(cfg, e, at, target, depth=6):
    """Follow plain copies: when the value of ``e`` at node ``at`` is the value variable ``target`` had on entry to some node p
    (``e`` is `target` itself, or a variable whose single reaching definition is a (wrapped) copy ... of `target`), return p; else None."""
    for _ in range(depth):
        b = strip_wrappers(e)
        if not isinstance(b, ast.Name):
            return None
        if b.id == target:
            return at
        ds = cfg.defs_of(at, b.id)
        if len(ds) != 1:
            return None
        d = ds[0]
        if d.kind in ("assign", "walrus") and isinstance(d.value, ast.AST) and not isinstance(d.value, ast.stmt):
            e, at = d.value, d.node
        elif d.kind == "unpack" and isinstance(d.value, (ast.Tuple, ast.List)) and len(d.path) == 1 and isinstance(d.path[0], int) and d.path[0] < len(d.value.elts) \
                and not any(isinstance(x, ast.Starred) for x in d.value.elts):
            e, at = d.value.elts[d.path[0]], d.node
        else:
            return None
    return None


def _stale_action_nodes(cfg, L, act):
    """Nodes that give the action passed to env.step a newly computed value: non-copy definitions (anything but `a = b` / wrappers /
    element-wise tuple copies) and in-place updates of a variable from which the action is reached through copies."""
    closure, grew = set(_names_in(act)), True
    defs = [d for n in cfg.nodes for d in n.defs]

    def copy_src(d):
        if d.kind in ("assign", "walrus") and isinstance(d.value, ast.AST) and not isinstance(d.value, ast.stmt):
            v = d.value
        elif d.kind == "unpack" and isinstance(d.value, (ast.Tuple, ast.List)) and len(d.path) == 1 and isinstance(d.path[0], int) and d.path[0] < len(d.value.elts) \
                and not any(isinstance(x, ast.Starred) for x in d.value.elts):
            v = d.value.elts[d.path[0]]
        else:
            return None
        b = strip_wrappers(v)
        return b.id if isinstance(b, ast.Name) else None
    while grew:
        grew = False
        for d in defs:
            if d.name in closure:
                src = copy_src(d)
                if src is not None and src not in closure:
                    closure.add(src)
                    grew = True
    fresh = set()
    for n in cfg.nodes:
        if any(d.name in closure and d.kind != "param" and copy_src(d) is None for d in n.defs) or (n.mutates & closure):
            fresh.add(n.id)
    return fresh, closure


def _read_step_projection(repo, qual, cfgs):
    """`r = env.step(a)` directly followed by `t0, .., tk = r[:k]` (or `t0, .., t4 = r`), `r` not read anywhere else, is the unpacking
    `t0, .., tk, _.. = env.step(a)` written in two statements.  The loop is then analysed on a private copy of the function in which the two
    statements are that single unpacking (positions are tuple positions of the step result either way); the parsed tree is not touched."""
    from ..expand import clone
    fn = repo.func(qual)
    params = set(positional_params(fn)) | {a.arg for a in fn.args.kwonlyargs}

    def is_step(v):
        return isinstance(v, ast.Call) and isinstance(v.func, ast.Attribute) and v.func.attr == "step" and isinstance(v.func.value, ast.Name) and v.func.value.id in params
    holders = [st for st in ast.walk(fn) if isinstance(st, ast.Assign) and len(st.targets) == 1 and isinstance(st.targets[0], ast.Name) and is_step(st.value)]
    if len(holders) != 1:
        return
    r = holders[0].targets[0].id
    uses = [x for x in ast.walk(fn) if isinstance(x, ast.Name) and x.id == r]
    if len(uses) != 2 or r in params:
        return          # one store (the holder), one load (the projection)
    new = clone(fn)
    done = False
    for parent in ast.walk(new):
        for fld in ("body", "orelse", "finalbody"):
            block = getattr(parent, fld, None)
            if not isinstance(block, list):
                continue
            for i in range(len(block) - 1):
                a, b = block[i], block[i + 1]
                if not (isinstance(a, ast.Assign) and len(a.targets) == 1 and isinstance(a.targets[0], ast.Name) and a.targets[0].id == r and is_step(a.value)):
                    continue
                if not (isinstance(b, ast.Assign) and len(b.targets) == 1 and isinstance(b.targets[0], (ast.Tuple, ast.List)) and all(isinstance(t, ast.Name) for t in b.targets[0].elts)):
                    continue
                k, v = len(b.targets[0].elts), b.value
                whole = isinstance(v, ast.Name) and v.id == r and k == 5
                sl = v.slice if isinstance(v, ast.Subscript) and isinstance(v.value, ast.Name) and v.value.id == r and isinstance(v.slice, ast.Slice) else None
                part = sl is not None and (sl.lower is None or (isinstance(sl.lower, ast.Constant) and sl.lower.value in (0, None))) and sl.step is None \
                    and isinstance(sl.upper, ast.Constant) and sl.upper.value == k and 1 <= k <= 5
                if not (whole or part):
                    continue
                elts = list(b.targets[0].elts) + [ast.copy_location(ast.Name(id="_", ctx=ast.Store()), b) for _ in range(5 - k)]
                tgt = ast.copy_location(ast.Tuple(elts=elts, ctx=ast.Store()), b.targets[0])
                block[i:i + 2] = [ast.copy_location(ast.Assign(targets=[tgt], value=a.value), a)]
                done = True
                break
    if not done:
        return
    new._module = fn._module
    new._qual = getattr(fn, "_qual", qual)
    new._parent = getattr(fn, "_parent", None)
    for parent in ast.walk(new):
        for child in ast.iter_child_nodes(parent):
            child._parent = parent
    cfgs[qual] = CFG(new)


_COLUMN_STORES = ["rl_blox.blox.replay_buffer.ReplayBuffer", "rl_blox.blox.replay_buffer.SubtrajectoryReplayBuffer"]
_SAME_ARRAY = {"np.asarray", "np.array", "np.asanyarray", "np.ascontiguousarray", "np.copy", "numpy.asarray", "numpy.array", "numpy.copy", "jnp.asarray", "jnp.array", "jnp.copy"}
_ALLOCATORS = {"empty": 1, "zeros": 1, "ones": 1, "full": 2, "empty_like": 1, "zeros_like": 1, "ones_like": 1, "full_like": 2}      # position of `dtype`


class _NotConcrete(Exception):
    pass


class _Opaque:
    """a value the constructor evaluation does not know (an array, a type object, a parameter without default)"""

    def __init__(self, what):
        self.what = what

    def __repr__(self):
        return f"<{self.what}>"


class _CtorEval:
    """Exact evaluation of the plain-Python part of a constructor called with its default arguments: constants, displays, `is None` guards, loops over
    concrete sequences (`zip`, `enumerate`, `range`), sets / lists / dicts filled by `add` / `append` / item assignment.  Every value it does not
    know is opaque; a test on an opaque value, an unmodelled method of a tracked container, or a tracked container handed to a call (it may be
    changed there: the container is forgotten) ends the evaluation of whatever depends on it (_NotConcrete)."""
    BUILTIN_TYPES = {"float": float, "int": int, "bool": bool, "str": str, "complex": complex}
    MODELLED = {"add", "append", "extend", "update", "keys", "values", "items", "copy", "get"}

    def __init__(self, fn, extra_env=None):
        self.attrs, self.escaped = {}, set()
        a = fn.args
        pos = a.posonlyargs + a.args
        self.env = {p.arg: _Opaque(p.arg) for p in pos + a.kwonlyargs}
        for p, d in list(zip(pos[len(pos) - len(a.defaults):], a.defaults)) + [(p, d) for p, d in zip(a.kwonlyargs, a.kw_defaults) if d is not None]:
            try:
                self.env[p.arg] = self.ev(d)
            except _NotConcrete:
                pass
        self.self_name = pos[0].arg if pos else "self"
        self.env.update(extra_env or {})

    def run(self, stmts):
        for s in stmts:
            self.stmt(s)

    def truth(self, e):
        v = self.ev(e)
        if isinstance(v, _Opaque) or id(v) in self.escaped:
            raise _NotConcrete(ast.unparse(e))
        return bool(v)

    def bind(self, t, v):
        if isinstance(t, ast.Name):
            self.env[t.id] = v
        elif isinstance(t, (ast.Tuple, ast.List)) and isinstance(v, (tuple, list)) and len(v) == len(t.elts) and not any(isinstance(x, ast.Starred) for x in t.elts):
            for x, y in zip(t.elts, v):
                self.bind(x, y)
        elif isinstance(t, ast.Attribute) and isinstance(t.value, ast.Name) and t.value.id == self.self_name:
            self.attrs[t.attr] = v
        elif isinstance(t, ast.Subscript):
            c, k = self.ev(t.value), self.ev(t.slice)
            if isinstance(c, _Opaque):
                return
            if not isinstance(c, (dict, list)) or isinstance(k, _Opaque):
                raise _NotConcrete(ast.unparse(t))
            try:
                c[k] = v
            except Exception:
                raise _NotConcrete(ast.unparse(t))
        else:
            raise _NotConcrete(ast.unparse(t))

    def stmt(self, s):
        if isinstance(s, ast.Assign):
            v = self.ev(s.value)
            for t in s.targets:
                self.bind(t, v)
        elif isinstance(s, ast.AnnAssign):
            if s.value is not None:
                self.bind(s.target, self.ev(s.value))
        elif isinstance(s, ast.If):
            self.run(s.body if self.truth(s.test) else s.orelse)
        elif isinstance(s, ast.For) and not s.orelse:
            it = self.ev(s.iter)
            if isinstance(it, dict):
                it = list(it)
            if not isinstance(it, (list, tuple)) or id(it) in self.escaped:
                raise _NotConcrete(ast.unparse(s.iter))
            for x in list(it):
                self.bind(s.target, x)
                self.run(s.body)
        elif isinstance(s, ast.Expr):
            self.ev(s.value)
        elif isinstance(s, (ast.Assert, ast.Pass)):
            pass
        else:
            raise _NotConcrete(type(s).__name__)

    def ev(self, e):
        if isinstance(e, ast.Constant):
            return e.value
        if isinstance(e, ast.Name):
            if e.id in self.env:
                return self.env[e.id]
            if e.id in self.BUILTIN_TYPES:
                return self.BUILTIN_TYPES[e.id]
            return _Opaque(e.id)
        if isinstance(e, (ast.List, ast.Tuple, ast.Set)):
            if any(isinstance(x, ast.Starred) for x in e.elts):
                raise _NotConcrete(ast.unparse(e))
            vals = [self.ev(x) for x in e.elts]
            if isinstance(e, ast.Set):
                if any(isinstance(v, _Opaque) for v in vals):
                    raise _NotConcrete(ast.unparse(e))
                return set(vals)
            return vals if isinstance(e, ast.List) else tuple(vals)
        if isinstance(e, ast.Dict):
            if any(k is None for k in e.keys):
                raise _NotConcrete(ast.unparse(e))
            return {self.ev(k): self.ev(v) for k, v in zip(e.keys, e.values)}
        if isinstance(e, ast.IfExp):
            return self.ev(e.body) if self.truth(e.test) else self.ev(e.orelse)
        if isinstance(e, ast.UnaryOp) and isinstance(e.op, ast.Not):
            return not self.truth(e.operand)
        if isinstance(e, ast.BoolOp):
            v = None
            for x in e.values:
                v = self.ev(x)
                if isinstance(v, _Opaque) or id(v) in self.escaped:
                    raise _NotConcrete(ast.unparse(x))
                if bool(v) != isinstance(e.op, ast.And):
                    return v
            return v
        if isinstance(e, ast.Compare) and len(e.ops) == 1:
            a, b, op = self.ev(e.left), self.ev(e.comparators[0]), e.ops[0]
            if isinstance(op, (ast.Is, ast.IsNot)) and (a is None or b is None):
                return (a is b) == isinstance(op, ast.Is)          # an opaque value (a parameter without default, an array) is compared with None by identity
            if isinstance(a, _Opaque) or isinstance(b, _Opaque) or id(a) in self.escaped or id(b) in self.escaped:
                raise _NotConcrete(ast.unparse(e))
            if isinstance(op, (ast.Is, ast.IsNot)) and (isinstance(a, (type, bool)) or isinstance(b, (type, bool))):
                return (a is b) == isinstance(op, ast.Is)
            try:
                if isinstance(op, (ast.In, ast.NotIn)):
                    return (a in b) == isinstance(op, ast.In)
                if isinstance(op, (ast.Eq, ast.NotEq)):
                    return (a == b) == isinstance(op, ast.Eq)
            except Exception:
                pass
            raise _NotConcrete(ast.unparse(e))
        if isinstance(e, ast.Attribute):
            if isinstance(e.value, ast.Name) and e.value.id == self.self_name:
                if e.attr in self.attrs:
                    return self.attrs[e.attr]
                raise _NotConcrete(ast.unparse(e))
            return _Opaque(ast.unparse(e)[:30])
        if isinstance(e, ast.Subscript):
            c, k = self.ev(e.value), self.ev(e.slice) if not isinstance(e.slice, ast.Slice) else _Opaque("slice")
            if isinstance(c, (dict, list, tuple)) and not isinstance(k, _Opaque) and id(c) not in self.escaped:
                try:
                    return c[k]
                except Exception:
                    raise _NotConcrete(ast.unparse(e))
            return _Opaque(ast.unparse(e)[:30])
        if isinstance(e, ast.Call):
            return self.call(e)
        for x in ast.iter_child_nodes(e):
            if isinstance(x, ast.expr):
                self.ev(x)
        return _Opaque(ast.unparse(e)[:30])

    def call(self, e):
        if any(isinstance(a, ast.Starred) for a in e.args) or any(k.arg is None for k in e.keywords):
            raise _NotConcrete(ast.unparse(e))
        f = e.func
        args = [self.ev(a) for a in e.args]
        kws = {k.arg: self.ev(k.value) for k in e.keywords}
        concrete = lambda v: isinstance(v, (list, tuple, set, dict)) and id(v) not in self.escaped
        if isinstance(f, ast.Name) and f.id not in self.env:
            if f.id == "zip" and args and all(concrete(a) for a in args) and set(kws) <= {"strict"}:
                return list(zip(*[list(a) for a in args]))
            if f.id == "enumerate" and len(args) == 1 and concrete(args[0]) and not kws:
                return list(enumerate(list(args[0])))
            if f.id == "range" and args and all(isinstance(a, int) and not isinstance(a, bool) for a in args) and not kws:
                return list(range(*args))
            if f.id in ("set", "list", "tuple", "dict", "OrderedDict") and not kws:
                if not args:
                    return {"set": set, "list": list, "tuple": tuple}.get(f.id, dict)()
                if len(args) == 1 and concrete(args[0]) and f.id in ("set", "list", "tuple"):
                    try:
                        return {"set": set, "list": list, "tuple": tuple}[f.id](args[0])
                    except TypeError:
                        raise _NotConcrete(ast.unparse(e))
            if f.id == "len" and len(args) == 1 and concrete(args[0]):
                return len(args[0])
        if isinstance(f, ast.Attribute):
            recv = self.ev(f.value)
            if isinstance(recv, (list, set, dict)):
                if id(recv) in self.escaped or f.attr not in self.MODELLED or kws:
                    self.escaped.add(id(recv))
                    return _Opaque(ast.unparse(e)[:30])
                try:
                    if f.attr in ("keys", "values", "items") and isinstance(recv, dict) and not args:
                        return list(getattr(recv, f.attr)())
                    if f.attr in ("add", "append", "extend", "update", "get", "copy"):
                        if f.attr in ("add", "get") and any(isinstance(a, _Opaque) for a in args[:1]):
                            raise TypeError
                        if f.attr in ("extend", "update") and not all(concrete(a) for a in args):
                            raise TypeError
                        return getattr(recv, f.attr)(*args)
                except Exception:
                    self.escaped.add(id(recv))
                    return _Opaque(ast.unparse(e)[:30])
        # any other call: the result is not known; containers handed over may be changed by it
        for v in args + list(kws.values()):
            if isinstance(v, (list, set, dict)):
                self.escaped.add(id(v))
        return _Opaque(ast.unparse(e)[:30])


def _storage_dtype(ck, repo):
    """R6: the column a transition value is written into keeps that value.  `add_sample(**sample)` of the replay buffers allocates the
    storage of every column at the first insertion, its first axis the capacity and the remaining axes the shape of the first value; the
    element type of that storage has to be the column's declared type.  An allocation whose `dtype` is the type of the first value
    itself (`np.asarray(v).dtype`, `np.empty_like(v)`), for every column alike, makes the first value decide how all later ones are
    kept: gymnasium only promises a reward that supports float(), an integer-typed first reward followed by fractional rewards is
    truncated by the element assignment - a dataflow fact (value -> dtype of the storage), reported.  A type that is taken from the value only
    under a condition on the column / value, or computed from both, is not read (undecided)."""
    for cq in _COLUMN_STORES:
        m = repo.method(cq, "add_sample") if repo.has(cq) else None
        if m is None:
            continue
        fn = m[1]
        mi = repo.cls(m[0])._module
        site = f"{cq}.add_sample"
        packs = {fn.args.kwarg.arg} if fn.args.kwarg else set()
        roles = {a.arg for a in fn.args.args[1:] + fn.args.kwonlyargs if a.arg in ROLE_OF}
        if not packs and not roles:
            continue
        parent = {}
        for p in ast.walk(fn):
            for c in ast.iter_child_nodes(p):
                parent[id(c)] = p
        # names bound by iterating over the sample (keys / values / items), and plain copies of values
        iter_names, values = set(), set(roles)

        def over_sample(it):
            """'items' / 'values' / 'keys' when the iterable enumerates the sample mapping"""
            if isinstance(it, ast.Name) and it.id in packs:
                return "keys"
            if isinstance(it, ast.Call) and isinstance(it.func, ast.Attribute) and isinstance(it.func.value, ast.Name) and it.func.value.id in packs and it.func.attr in ("items", "values", "keys") and not it.args:
                return it.func.attr
            return None
        for x in ast.walk(fn):
            if isinstance(x, (ast.For, ast.comprehension)):
                iter_names |= _names_in(x.target)
                kind = over_sample(x.iter)
                if kind == "items" and isinstance(x.target, (ast.Tuple, ast.List)) and len(x.target.elts) == 2 and isinstance(x.target.elts[1], ast.Name):
                    values.add(x.target.elts[1].id)
                elif kind == "values" and isinstance(x.target, ast.Name):
                    values.add(x.target.id)

        def same_array(e):
            """through conversions that keep the element type (`np.asarray(x)` and the like, without further arguments)"""
            while isinstance(e, ast.Call) and dotted(e.func) in _SAME_ARRAY and len(e.args) == 1 and not e.keywords and not isinstance(e.args[0], ast.Starred):
                e = e.args[0]
            return e

        def is_value(e, depth=0, strict=False):
            """the expression is a sample value (through value-preserving wrappers and single plain copies); strict: with the element type it arrived
            with (only conversions without a target type, a value name is rebound to such conversions of itself only)"""
            e = same_array(e) if strict else strip_wrappers(e)
            if isinstance(e, ast.Name):
                if e.id in values:
                    if strict:
                        for s_ in ast.walk(fn):
                            tg = s_.targets if isinstance(s_, ast.Assign) else [s_.target] if isinstance(s_, (ast.AugAssign, ast.AnnAssign, ast.NamedExpr)) else []
                            if any(e.id in _names_in(t) for t in tg):
                                v_ = same_array(s_.value) if isinstance(s_, ast.Assign) and len(tg) == 1 and isinstance(tg[0], ast.Name) else None
                                if not (isinstance(v_, ast.Name) and v_.id == e.id):
                                    return False
                    return True
                if strict:
                    ds = [s for s in ast.walk(fn) if isinstance(s, ast.Assign) and any(isinstance(t, ast.Name) and t.id == e.id for t in s.targets)]
                    others = sum(1 for y in ast.walk(fn) if isinstance(y, ast.Name) and y.id == e.id and not isinstance(y.ctx, ast.Load))
                    return depth < 4 and len(ds) == 1 and others == 1 and len(ds[0].targets) == 1 and is_value(ds[0].value, depth + 1, True)
                ds = [s for s in ast.walk(fn) if isinstance(s, ast.Assign) and any(isinstance(t, ast.Name) and t.id == e.id for t in s.targets)]
                others = sum(1 for y in ast.walk(fn) if isinstance(y, ast.Name) and y.id == e.id and not isinstance(y.ctx, ast.Load))
                return depth < 4 and len(ds) == 1 and others == 1 and is_value(ds[0].value, depth + 1)
            if isinstance(e, ast.Subscript) and isinstance(e.value, ast.Name) and e.value.id in packs:
                return True
            return False

        def touches_sample(e):
            return any((isinstance(y, ast.Name) and (y.id in packs or y.id in iter_names or is_value(y))) for y in ast.walk(e))

        self_name = fn.args.args[0].arg if fn.args.args else "self"
        key_names = set()
        for x in ast.walk(fn):
            if isinstance(x, (ast.For, ast.comprehension)):
                kind = over_sample(x.iter)
                if kind == "items" and isinstance(x.target, (ast.Tuple, ast.List)) and len(x.target.elts) == 2 and isinstance(x.target.elts[0], ast.Name):
                    key_names.add(x.target.elts[0].id)
                elif kind == "keys" and isinstance(x.target, ast.Name):
                    key_names.add(x.target.id)
        # the state a default-constructed buffer has when the first sample arrives, and the attributes only the constructor sets
        ctor, changed_elsewhere = None, set()
        try:
            init = repo.method(cq, "__init__")
            if init is not None:
                ctor = _CtorEval(init[1])
                ctor.run(init[1].body)
        except (_NotConcrete, RecursionError):
            ctor = None
        try:
            cnode = repo.lookup(cq)[1]
        except Exception:
            cnode, ctor = None, None
        for meth in (cnode.body if cnode is not None else []):
            if isinstance(meth, ast.FunctionDef) and meth.name != "__init__":
                sn = meth.args.args[0].arg if meth.args.args else None
                for y in ast.walk(meth):
                    if isinstance(y, ast.Attribute) and isinstance(y.value, ast.Name) and y.value.id == sn:
                        if not isinstance(y.ctx, ast.Load):
                            changed_elsewhere.add(y.attr)
                for y in ast.walk(meth):
                    if isinstance(y, ast.Call) and isinstance(y.func, ast.Attribute):
                        r = y.func.value
                        if isinstance(r, ast.Attribute) and isinstance(r.value, ast.Name) and r.value.id == sn and y.func.attr not in ("keys", "values", "items", "get", "copy"):
                            changed_elsewhere.add(r.attr)
                    if isinstance(y, ast.Subscript) and not isinstance(y.ctx, ast.Load) and isinstance(y.value, ast.Attribute) and isinstance(y.value.value, ast.Name) and y.value.value.id == sn:
                        changed_elsewhere.add(y.value.attr)

        def reward_world(test):
            """truth of a test on the column key for the reward column of a default-constructed buffer; None when it is not concrete"""
            if ctor is None or not key_names:
                return None
            read = {y.attr for y in ast.walk(test) if isinstance(y, ast.Attribute) and isinstance(y.value, ast.Name) and y.value.id == self_name}
            if (read & changed_elsewhere) or touches_value(test):
                return None
            w = _CtorEval(fn, {k: "reward" for k in key_names})
            w.attrs, w.escaped = ctor.attrs, ctor.escaped
            try:
                return w.truth(test)
            except (_NotConcrete, RecursionError):
                return None

        def touches_value(e):
            return any(isinstance(y, ast.Name) and (y.id in packs or is_value(y)) for y in ast.walk(e))

        def kinds(e, depth=0):
            """{"declared", "sample", "sample?" (under a condition on the column / value), "mixed"} the dtype expression can be"""
            if isinstance(e, ast.IfExp):
                cond = touches_sample(e.test)
                w = reward_world(e.test) if cond else None
                if w is not None:
                    worlds.append(f"`{short(e.test, 40)}` is {w} for the reward column of a default-constructed buffer")
                    return kinds(e.body if w else e.orelse, depth)
                out = kinds(e.body, depth) | kinds(e.orelse, depth)
                return {("sample?" if k == "sample" and cond else k) for k in out}
            if isinstance(e, ast.Call) and dotted(e.func).rsplit(".", 1)[-1] == "dtype" and len(e.args) == 1 and not e.keywords:
                return kinds(e.args[0], depth)          # np.dtype(t)
            if isinstance(e, ast.Attribute) and e.attr == "dtype" and is_value(e.value, strict=True):
                return {"sample"}
            if isinstance(e, ast.Name) and depth < 4:
                ds = [s for s in ast.walk(fn) if isinstance(s, ast.Assign) and any(isinstance(t, ast.Name) and t.id == e.id for t in s.targets)]
                others = sum(1 for y in ast.walk(fn) if isinstance(y, ast.Name) and y.id == e.id and not isinstance(y.ctx, ast.Load))
                if ds and others == len(ds) and all(len(s.targets) == 1 for s in ds):
                    live = [(s, g) for s, g in ((s, guarded(s)) for s in ds) if g != "dead"]      # definitions the reward column can take
                    out = set()
                    for s, g in live:
                        k2 = kinds(s.value, depth + 1)
                        out |= {("sample?" if k == "sample" and (len(live) > 1 or g) else k) for k in k2}
                    return out or {"mixed"}
            return {"mixed"} if touches_value(e) else {"declared"}          # the column key may be read: the declared type is per column

        def guarded(node):
            """an enclosing test (if / while / conditional expression / comprehension condition) reads the column key or the value"""
            c = node
            while id(c) in parent:
                p = parent[id(c)]
                if isinstance(p, ast.If) and c is not p.test and touches_sample(p.test):
                    w = reward_world(p.test)
                    if w is None:
                        return True
                    if w != any(c is x for x in p.body):
                        return "dead"         # not the branch the reward column takes
                    worlds.append(f"`{short(p.test, 40)}` is {w} for the reward column of a default-constructed buffer")
                elif isinstance(p, (ast.While, ast.IfExp)) and c is not p.test and touches_sample(p.test):
                    return True
                if isinstance(p, ast.comprehension) and any(touches_sample(t) for t in p.ifs):
                    return True
                c = p
            return False

        n = 0
        worlds = []
        for st in ast.walk(fn):
            if not (isinstance(st, ast.Assign) and isinstance(st.value, ast.Call) and isinstance(st.value.func, (ast.Name, ast.Attribute))):
                continue
            del worlds[:]
            tgt = st.targets[0]
            if not (len(st.targets) == 1 and isinstance(tgt, ast.Subscript) and dotted(tgt.value).startswith("self.")):
                continue
            call = st.value
            try:
                q = repo.resolve_expr(mi, call.func) or ""
            except Exception:
                q = ""
            name = q.rsplit(".", 1)[-1]
            if not q.startswith(("numpy.", "jax.numpy.")) or name not in _ALLOCATORS:
                continue
            if any(isinstance(a, ast.Starred) for a in call.args) or any(kw.arg is None for kw in call.keywords) or not call.args:
                continue
            if not touches_sample(call.args[0]):
                continue            # not shaped after a stored value: no column of the transition
            n += 1
            dt = next((kw.value for kw in call.keywords if kw.arg == "dtype"), None)
            if dt is None and len(call.args) > _ALLOCATORS[name]:
                dt = call.args[_ALLOCATORS[name]]
            if dt is None:
                ks = {"sample"} if name.endswith("_like") and is_value(call.args[0], strict=True) else ({"mixed"} if name.endswith("_like") else {"declared"})
            else:
                ks = kinds(dt)
            g = guarded(st)
            if g == "dead":
                continue
            if "sample" in ks and g:
                ks = (ks - {"sample"}) | {"sample?"}
            where = loc(mi, st)
            if "sample" in ks:
                ck.ob("R6-storage-dtype", site, "column-type-declared", False, f"`{short(st, 70)}`",
                      f"the element type of the column storage `{short(tgt, 30)}` is the type of the first value stored (`{short(dt, 40) if dt is not None else name}`)" + (f" ({'; '.join(worlds[:2])})" if worlds else ", for every column") + ": a first reward of integer "
                      f"type (gymnasium: any SupportsFloat) makes an integer column, later fractional rewards are truncated by the element assignment - the stored reward is not the one the environment returned", where)
            elif ks - {"declared"}:
                ck.incomplete.append(f"{site}: whether the element type `{short(dt, 40) if dt is not None else name}` of the column storage `{short(tgt, 30)}` keeps every value stored later is not read "
                                     f"(taken from the stored value under a condition / computed) (unrecognised form)")
            else:
                ck.ob("R6-storage-dtype", site, "column-type-declared", True, f"`{short(st, 70)}`", "", where)
        ck.count("column-allocations", n)


def _read_step_carrier(repo, qual, cfgs):
    """The step result held as a whole - `r = env.step(a)`, `r = tuple(env.step(a))` or a five-field record of the package built from it
    (`r = Rec(*env.step(a))`, `r = Rec._make(env.step(a))`; fields in constructor order are the protocol positions) - and read by
    position afterwards: `r[k]`, `r.<field k>`, `x, y = r[i:j]`, `a, b, c, d, e = r`, also through plain aliases `r2 = r`.  The holder
    and each alias are bound exactly once in the function and every occurrence of them is one of these reads; then
    the function means the same with one variable per position (`r__p0, .., r__p4 = env.step(a)`, an alias copying all five, a read of
    position k being the k-th variable), and the loop is analysed on a private copy written that way (roles stay tuple positions of
    the step result; the parsed tree is not touched).  Copies of positions made by the statements directly after the step statement are
    folded into the unpacking (`x, y = r[:2]; z, u, v = r[2:]` is `x, y, z, u, v = env.step(a)`).  Any other use leaves the function as it is."""
    from ..expand import clone
    from ..nf import NF
    fn = repo.func(qual)
    mi = fn._module
    argnames = {a.arg for a in ast.walk(fn) if isinstance(a, ast.arg)}
    params = set(positional_params(fn)) | {a.arg for a in fn.args.kwonlyargs}

    def is_step(v):
        return isinstance(v, ast.Call) and isinstance(v.func, ast.Attribute) and v.func.attr == "step" and isinstance(v.func.value, ast.Name) and v.func.value.id in params

    def carried(v):
        """(step call, field names or None) when ``v`` is the whole step result / a five-field record constructed from it"""
        if is_step(v):
            return v, None
        if not (isinstance(v, ast.Call) and len(v.args) == 1 and not v.keywords):
            return None
        a, ctor, call = v.args[0], None, None
        if isinstance(a, ast.Starred) and is_step(a.value):
            ctor, call = v.func, a.value
        elif isinstance(v.func, ast.Attribute) and v.func.attr == "_make" and is_step(a):
            ctor, call = v.func.value, a
        elif isinstance(v.func, ast.Name) and v.func.id == "tuple" and "tuple" not in stores and is_step(a):
            return a, None
        if not isinstance(ctor, (ast.Name, ast.Attribute)):
            return None
        try:
            q = repo.resolve_expr(mi, ctor)
            node = repo.lookup(q)[1] if q and repo.has(q) else None
            fields = NF._record_fields(node) if node is not None else None
        except Exception:
            return None
        if fields and len(fields) == 5 and len(set(fields)) == 5:
            return call, list(fields)
        return None

    if sum(1 for x in ast.walk(fn) if is_step(x)) != 1:
        return
    stores = {}
    for x in ast.walk(fn):
        if isinstance(x, ast.Name) and not isinstance(x.ctx, ast.Load):
            stores[x.id] = stores.get(x.id, 0) + 1
        elif isinstance(x, (ast.FunctionDef, ast.AsyncFunctionDef, ast.ClassDef)) and x is not fn:
            stores[x.name] = stores.get(x.name, 0) + 2
        elif isinstance(x, (ast.Global, ast.Nonlocal)):
            for nm in x.names:
                stores[nm] = stores.get(nm, 0) + 2
        elif isinstance(x, ast.alias):
            nm = (x.asname or x.name).split(".")[0]
            stores[nm] = stores.get(nm, 0) + 2
        elif isinstance(x, ast.ExceptHandler) and x.name:
            stores[x.name] = stores.get(x.name, 0) + 2

    def once(nm):
        return stores.get(nm) == 1 and nm not in argnames
    holders = [st for st in ast.walk(fn) if isinstance(st, ast.Assign) and len(st.targets) == 1 and isinstance(st.targets[0], ast.Name) and carried(st.value)]
    if len(holders) != 1 or not once(holders[0].targets[0].id):
        return
    fields = {holders[0].targets[0].id: carried(holders[0].value)[1]}
    grew = True
    while grew:
        grew = False
        for st in ast.walk(fn):
            if isinstance(st, ast.Assign) and len(st.targets) == 1 and isinstance(st.targets[0], ast.Name) and isinstance(st.value, ast.Name) and st.value.id in fields \
                    and st.targets[0].id not in fields and once(st.targets[0].id):
                fields[st.targets[0].id] = fields[st.value.id]
                grew = True
    taken = {x.id for x in ast.walk(fn) if isinstance(x, ast.Name)} | argnames
    if any(f"{c}__p{k}" in taken for c in fields for k in range(5)):
        return

    def pos_name(c, k, ctx, at):
        return ast.copy_location(ast.Name(id=f"{c}__p{k}", ctx=ctx), at)

    def all_five(c, ctx, at):
        return ast.copy_location(ast.Tuple(elts=[pos_name(c, k, ctx, at) for k in range(5)], ctx=ctx), at)

    def const_int(e):
        if isinstance(e, ast.Constant) and isinstance(e.value, int) and not isinstance(e.value, bool):
            return e.value
        if isinstance(e, ast.UnaryOp) and isinstance(e.op, ast.USub) and isinstance(e.operand, ast.Constant) and isinstance(e.operand.value, int) and not isinstance(e.operand.value, bool):
            return -e.operand.value
        return None

    class Rewrite(ast.NodeTransformer):
        def visit_Assign(self, st):
            t = st.targets[0] if len(st.targets) == 1 else None
            if isinstance(t, ast.Name) and t.id in fields:
                got = carried(st.value)
                if got is not None:
                    call = self.generic_visit(got[0])
                    return ast.copy_location(ast.Assign(targets=[all_five(t.id, ast.Store(), t)], value=call), st)
                if isinstance(st.value, ast.Name) and st.value.id in fields:
                    return ast.copy_location(ast.Assign(targets=[all_five(t.id, ast.Store(), t)], value=all_five(st.value.id, ast.Load(), st.value)), st)
            if isinstance(t, (ast.Tuple, ast.List)) and len(t.elts) == 5 and not any(isinstance(x, ast.Starred) for x in t.elts) and isinstance(st.value, ast.Name) and st.value.id in fields:
                st.value = all_five(st.value.id, ast.Load(), st.value)
            return self.generic_visit(st)

        def visit_Attribute(self, e):
            if isinstance(e.ctx, ast.Load) and isinstance(e.value, ast.Name) and fields.get(e.value.id) and e.attr in fields[e.value.id]:
                return pos_name(e.value.id, fields[e.value.id].index(e.attr), ast.Load(), e)
            return self.generic_visit(e)

        def visit_Subscript(self, e):
            if isinstance(e.ctx, ast.Load) and isinstance(e.value, ast.Name) and e.value.id in fields:
                c, s = e.value.id, e.slice
                k = const_int(s)
                if k is not None and -5 <= k < 5:
                    return pos_name(c, k % 5, ast.Load(), e)
                if isinstance(s, ast.Slice) and s.step is None:
                    lo = 0 if s.lower is None or (isinstance(s.lower, ast.Constant) and s.lower.value is None) else const_int(s.lower)
                    hi = 5 if s.upper is None or (isinstance(s.upper, ast.Constant) and s.upper.value is None) else const_int(s.upper)
                    if lo is not None and hi is not None and -5 <= lo <= 5 and -5 <= hi <= 5:
                        lo, hi = (lo + 5 if lo < 0 else lo), (hi + 5 if hi < 0 else hi)
                        return ast.copy_location(ast.Tuple(elts=[pos_name(c, j, ast.Load(), e) for j in range(lo, hi)], ctx=ast.Load()), e)
            return self.generic_visit(e)

    new = Rewrite().visit(clone(fn))
    if any(isinstance(x, ast.Name) and x.id in fields for x in ast.walk(new)):
        return          # the carrier is used as a whole somewhere (passed on, returned, tested ...): not read
    # fold the copies made directly after the step statement into the unpacking
    loads = {}
    for x in ast.walk(new):
        if isinstance(x, ast.Name) and isinstance(x.ctx, ast.Load):
            loads[x.id] = loads.get(x.id, 0) + 1
    for parent in ast.walk(new):
        for fld in ("body", "orelse", "finalbody"):
            block = getattr(parent, fld, None)
            if not isinstance(block, list):
                continue
            for i, a in enumerate(block):
                if not (isinstance(a, ast.Assign) and is_step(a.value) and isinstance(a.targets[0], ast.Tuple)):
                    continue
                tgt = a.targets[0]
                while i + 1 < len(block):
                    b = block[i + 1]
                    if not (isinstance(b, ast.Assign) and len(b.targets) == 1):
                        break
                    t, v = b.targets[0], b.value
                    if isinstance(t, ast.Name) and isinstance(v, ast.Name):
                        pairs = [(t, v)]
                    elif isinstance(t, (ast.Tuple, ast.List)) and isinstance(v, ast.Tuple) and len(t.elts) == len(v.elts):
                        pairs = list(zip(t.elts, v.elts))
                    else:
                        break
                    cur = [x.id for x in tgt.elts]
                    fresh_now = {x.id for x in tgt.elts if any(x.id == f"{c}__p{k}" for c in fields for k in range(5))}
                    if not pairs or not all(isinstance(x, ast.Name) and isinstance(y, ast.Name) and y.id in fresh_now and loads.get(y.id) == 1 and x.id not in cur for x, y in pairs) \
                            or len({x.id for x, _ in pairs}) != len(pairs) or len({y.id for _, y in pairs}) != len(pairs):
                        break
                    for x, y in pairs:
                        tgt.elts[cur.index(y.id)] = ast.copy_location(ast.Name(id=x.id, ctx=ast.Store()), x)
                    del block[i + 1]
    ast.fix_missing_locations(new)
    new._module = fn._module
    new._qual = getattr(fn, "_qual", qual)
    new._parent = getattr(fn, "_parent", None)
    for parent in ast.walk(new):
        for child in ast.iter_child_nodes(parent):
            child._parent = parent
    cfgs[qual] = CFG(new)


def run(ck, repo: Repo, tier: str):
    cfgs = {}
    loops = []
    for q in C01_LOOPS:
        _read_step_projection(repo, q, cfgs)
        if q not in cfgs:
            _read_step_carrier(repo, q, cfgs)
        loops.append(find_env_loop(repo, q, cfgs))
    ck.floor("env-loops", len(loops), 19)
    n_sites = 0
    n_sites_box = [0]

    def one_loop(L):
        n_sites = 0
        cfg, S = L.cfg, L.step_node
        org = Origins(L)
        org.repo = repo
        site = L.qual

        def und(msg):
            """an obligation that cannot be decided: recorded, the remaining obligations of the loop are still evaluated"""
            ck.incomplete.append(msg)
        stores = _store_sites(repo, L, ck)
        n_sites += len(stores)
        n_sites_box[0] += n_sites
        ck.need(stores, f"{site}: no store site found (unrecognised idiom)")
        ovar = _obs_var(L, stores, org)
        ck.need(ovar is not None, f"{site}: cannot identify the observation variable at any store site")
        act = _step_action(L)
        avar = _action_base(L)
        ck.need(avar is not None, f"{site}: env.step argument is not a (wrapped) variable")
        body = cfg.loop_body_nodes(L.outer_header)
        rd = cfg.reaching()
        defs_at_S = rd[S].get(ovar, frozenset())
        eff_at_S = _eff_defs(cfg, S, ovar)
        nextvar = L.pos.get(0)
        used = _obs_uses_in_action(cfg, L, avar, ovar, nextvar, body)
        pol = [u for u in used if u[0] == ovar]
        # `ovar` is known to carry the current observation when the policy reads it or a store site keeps it as the observation; a loop
        # that keeps the observation elsewhere (an attribute of a tracker object, ...) gives no ground for the path obligations on `ovar`
        anchored = [bool(pol)]

        def ob_on_ovar(rule, key, ok, construct, why, where, wit=None):
            if not ok and not anchored[0]:
                und(f"{site}: {rule}/{key} fails for `{ovar}`, but neither the policy nor a store site reads `{ovar}` as the observation (the observation is kept elsewhere: unrecognised form)")
                return
            ck.ob(rule, site, key, ok, construct, why, where, wit)

        def same_as_at_step(p):
            """(ok, why) - does `ovar` on entry to node p hold the value env.step of the same iteration acted on?  None when p and the
            step are not ordered within the iteration."""
            after = cfg.dominates(S, p)
            here = _eff_defs(cfg, p, ovar)
            if after:
                between = _defs_between(cfg, S, p, ovar)
            elif cfg.dominates(p, S):
                between = _defs_between(cfg, p, S, ovar)
            else:
                return None
            ok = here == eff_at_S and not between
            why = ""
            if not ok:
                why = (f"observation `{ovar}` at the store site is defined at lines {_lines(cfg, here)} but env.step acted on the "
                       f"definitions at lines {_lines(cfg, eff_at_S)}" + (f"; redefined between step and store at line(s) {between}" if between else ""))
            return ok, why

        # ---- R1 / R2(store part) --------------------------------------------------------------
        for nid, call, roles, desc in stores:
            where = loc(L.mi, call)
            after_S = cfg.dominates(S, nid)
            for role, arg in sorted(roles.items()):
                if role in STEP_POS:
                    o = org.of_expr(arg, nid)
                    want = {("step", STEP_POS[role])}
                    ok = (o == want) and after_S
                    why = ""
                    if o != want and Origins.unknown(o) and _different_value(org, arg, nid, ("step", STEP_POS[role])) is None:
                        und(f"{site}: the {role} argument `{short(arg, 50)}` of the store cannot be traced to the step results ({sorted(map(str, Origins.unknown(o)))[:2]}) (unrecognised form)")
                        continue
                    if o != want:
                        why = f"origin of the {role} argument is {sorted(map(str, o))}, expected position {STEP_POS[role]} of `{short(L.step_stmt, 60)}`"
                    elif not after_S:
                        why = "store site is not dominated by env.step of the same iteration (value of a previous step)"
                    ck.ob("R1-store-role", site, f"{role}:{desc.split('(')[0]}", ok, f"{role} <- {short(arg, 50)} at {desc}", why, where)
                elif role == "A":
                    # the stored action is the value passed to env.step (same provenance: same definitions, through copies / records)
                    o_st = org.of_expr(arg, nid)
                    o_act = org.of_expr(act, S)
                    ok = bool(o_st) and o_st == o_act
                    why = "" if ok else f"stored action `{short(arg, 40)}` does not have the provenance of the action passed to env.step (`{avar}`): {sorted(map(str, o_st))[:2]} vs {sorted(map(str, o_act))[:2]}"
                    if not ok and any(x[0] in ("unpack", "for", "with", "global", "attr-in") for x in o_st | o_act):
                        und(f"{site}: the stored action `{short(arg, 40)}` cannot be related to the action passed to env.step (unrecognised form)")
                        continue
                    if not ok:
                        # evidence of another value: neither is computed from the other (two separate evaluations).  A stored value that
                        # is computed *from* the action passed to env.step (`action.copy()`, a cast) - or the other way round - is not read here.
                        seen_st, seen_act = set(), set()
                        org.deps(arg, nid, seen_st)
                        org.deps(act, S, seen_act)
                        d_st = {d.key() for nm in _names_in(arg) for d in cfg.defs_of(nid, nm)}
                        d_act = {d.key() for nm in _names_in(act) for d in cfg.defs_of(S, nm)}
                        if (d_act & (seen_st | d_st)) or (d_st & seen_act):
                            und(f"{site}: the stored action `{short(arg, 40)}` and the action passed to env.step `{short(act, 40)}` are computed from one another; whether the value is kept is not read (unrecognised form)")
                            continue
                    ck.ob("R1-store-role", site, f"A:{desc.split('(')[0]}", ok, f"A <- {short(arg, 50)} at {desc}", why, where)
                elif role == "O":
                    b = strip_wrappers(arg)
                    key_o = f"O-same-as-step:{desc.split('(')[0]}"
                    p = _copy_source(cfg, arg, nid, ovar)
                    if p is not None:
                        anchored[0] = True
                        # the stored value is the observation variable as it was on entry to node p (the store itself, or a copy made at p)
                        r = same_as_at_step(p)
                        if r is None:
                            und(f"{site}: the stored observation `{short(arg, 50)}` is read at a point that is not ordered with env.step in the iteration (unrecognised form)")
                            continue
                        ck.ob("R2-obs-provenance", site, key_o, r[0], f"O <- {short(arg, 50)} at {desc}", r[1], where)
                        continue
                    # another variable / a field of a record / another expression: judged by provenance
                    o_st, o_ref = org.of_expr(arg, nid), org.of_name(ovar, S)
                    if Origins.unknown(o_st) or Origins.unknown(o_ref):
                        und(f"{site}: the stored observation `{short(arg, 50)}` cannot be traced (unrecognised form)")
                        continue
                    if o_st == o_ref and isinstance(b, ast.Name):
                        und(f"{site}: the stored observation `{b.id}` has the provenance of `{ovar}` but whether it is the value env.step acted on is not read (unrecognised form)")
                        continue
                    ob_on_ovar("R2-obs-provenance", key_o, o_st == o_ref, f"O <- {short(arg, 50)} at {desc}",
                          "" if o_st == o_ref else f"the stored observation originates in {sorted(map(str, o_st))}, the observation env.step acted on in {sorted(map(str, o_ref))}", where)

        # ---- R2 provenance of every definition reaching S ------------------------------------------
        for dn, nm in sorted(defs_at_S):
            d = cfg.get_def(dn, nm)
            o = org.of_def(d, set())
            bad = [x for x in o if not (x[0] == "reset" and x[1] == 0) and x != ("step", 0) and x[0] != "param"]
            node = cfg.nodes[dn]
            if bad and Origins.unknown(bad) and not (d.value is not None and isinstance(d.value, ast.AST) and not isinstance(d.value, ast.stmt) and _different_value(org, d.value, dn, ("step", 0)) is True
                                                     and _different_value(org, d.value, dn, ("reset", 0)) is True):
                und(f"{site}: observation `{nm}` is defined by `{short(node.ast, 60)}`, whose value cannot be traced to reset / step results (unrecognised form)")
                continue
            if bad and all(x[0] == "const" for x in bad):
                # a placeholder (`obs = None`) reaches env.step only in the flow-insensitive reading of the definitions
                und(f"{site}: observation `{nm}` is initialised by the constant `{short(node.ast, 60)}`; whether that value can reach env.step is not read (unrecognised form)")
                continue
            ob_on_ovar("R2-obs-provenance", f"def:{_def_kind(L, d)}", not bad,
                  f"`{nm}` defined by `{short(node.ast, 60) if node.kind != 'entry' else 'parameter'}`",
                  "" if not bad else f"observation definition originates in {sorted(map(str, bad))} (neither reset()[0], step()[0] nor a parameter)",
                  loc(L.mi, node.ast))
        ck.need(defs_at_S, f"{site}: observation `{ovar}` has no definition reaching env.step")
        # the successor observation object is not changed in place while it is still to be stored / carried
        later = {nid for nid, _c, _r, _d in stores} | {i for i in body for d in cfg.nodes[i].defs if d.name == ovar and ("step", 0) in org.of_def(d, set())}
        spoiled = None
        for i in sorted(body):
            n = cfg.nodes[i]
            for m in sorted(n.mutates):
                if spoiled is None and "." not in m and cfg.dominates(S, i) and _writes_elements(n.ast, m) and _is_step0_object(cfg, L, m, i):
                    for u in sorted(later - {i}):
                        if any(_is_step0_object(cfg, L, x, u) for x in cfg.nodes[u].uses if "." not in x):
                            pth = cfg.paths_avoiding(i, u, {S})
                            if pth is not None:
                                spoiled = (i, m, pth)
                                break
        ck.ob("R2-obs-provenance", site, "successor-object-unchanged", spoiled is None, "no in-place update of the object env.step returned at position 0 before it is stored / carried",
              "" if spoiled is None else f"`{short(cfg.nodes[spoiled[0]].ast, 50)}` updates `{spoiled[1]}` in place, which is the successor observation object returned by env.step (plain assignment / np.asarray do not copy); "
              f"that object is stored / becomes the current observation afterwards", loc(L.mi, cfg.nodes[spoiled[0]].ast) if spoiled else loc(L.mi, L.step_stmt), cfg.describe_path(spoiled[2]) if spoiled else None)

        # ---- R3 boundary -------------------------------------------------------------------------------
        all_defs = [(n.id, d) for n in cfg.nodes for d in n.defs if d.name == ovar]
        in_loop_defs = [(i, d) for i, d in all_defs if i in body]
        bound_resets = []
        for r in L.resets_in:
            rn = cfg.nodes[r]
            d = cfg.get_def(r, ovar)
            binds = d is not None and ("reset", 0, r) in org.of_def(d, set())      # also `obs = env.reset()[0] if done else next_obs`
            r_from = r
            if not binds:
                # bound through copies (helper results, tuple assignments, a temporary that is carried into the observation variable
                # afterwards): a definition of the observation variable that receives this reset's observation
                via = [(i, d2) for i, d2 in in_loop_defs if ("reset", 0, r) in org.of_def(d2, set()) and cfg.paths_avoiding(r, i, {S}) is not None]
                if via:
                    binds = True
                    r_from = via[0][0]
                elif any(Origins.unknown(org.of_def(d2, set())) for i, d2 in in_loop_defs) or not in_loop_defs:
                    und(f"{site}: cannot tell whether `{short(rn.ast, 50)}` binds the observation variable `{ovar}` (values pass through untraceable definitions) (unrecognised form)")
                    continue
            ob_on_ovar("R3-boundary", "reset-binds-observation", binds, f"`{short(rn.ast, 60)}`",
                  "" if binds else f"in-loop reset does not bind the observation variable `{ovar}` (its observation is discarded)", loc(L.mi, rn.ast))
            if not binds:
                continue
            bound_resets.append((r, r_from))
            # no other definition reachable from r without passing S (redefinitions that keep the reset value are not overwrites)
            offenders = []
            for i, d2 in in_loop_defs:
                if i == r or i == S or i == r_from:
                    continue
                if _is_self_wrap(d2) or org.of_def(d2, set()) == {("reset", 0, r)}:
                    continue
                p = cfg.paths_avoiding(r_from, i, {S})
                if p is not None:
                    offenders.append((i, p))
            ok = not offenders
            wit = None
            why = ""
            if offenders:
                i, p = offenders[0]
                why = (f"the reset observation is overwritten by `{short(cfg.nodes[i].ast, 50)}` (line {cfg.nodes[i].lineno}) before the next env.step: "
                       f"the first transition of the new episode starts from a stale observation")
                wit = cfg.describe_path(p)
            ob_on_ovar("R3-boundary", "reset-reaches-next-step", ok, f"`{short(rn.ast, 50)}` -> next `{short(L.step_stmt, 40)}`", why, loc(L.mi, rn.ast), wit)
        # staleness: every cycle S -> S redefines the observation
        defnodes = {i for i, d in all_defs if not _is_self_wrap(d)}
        stale = None
        if S not in defnodes:
            stale = cfg.paths_avoiding(S, S, defnodes)
        if stale is not None and any(ovar in cfg.nodes[i].mutates for i in stale):
            und(f"{site}: the observation `{ovar}` is updated in place on a path from env.step back to env.step (unrecognised form)")
        else:
            ob_on_ovar("R3-boundary", "no-stale-observation", stale is None, f"every path from `{short(L.step_stmt, 40)}` back to itself redefines `{ovar}`",
                  "" if stale is None else f"a path from env.step back to env.step never updates `{ovar}`: the next action and transition use a stale observation",
                  loc(L.mi, L.step_stmt), cfg.describe_path(stale) if stale else None)
        if not L.vector:
            if L.resets_in:
                ck.ob("R3-boundary", site, "has-in-loop-reset", True, f"{len(L.resets_in)} in-loop reset(s)", "", loc(L.mi, L.step_stmt))
            elif _env_confined(L):
                # every use of the environment in the function is `env.<attribute>` and none of them is `env.reset` inside the loop
                ck.ob("R3-boundary", site, "has-in-loop-reset", False, f"0 in-loop reset(s); `{L.env}` is only used through its attributes",
                      "single-environment loop without an in-loop reset", loc(L.mi, L.step_stmt))
            else:
                und(f"{site}: no `{L.env}.reset()` in the loop, but the environment is passed on / aliased: a reset may happen elsewhere (unrecognised form)")

        # ---- R4 act site ----------------------------------------------------------------------------------
        succ = [u for u in used if u[0] == nextvar and u[0] != ovar and any(d.node == S for d in cfg.defs_of(u[1], u[0]))]
        if pol or succ:
            ck.ob("R4-act-on-current", site, "policy-sees-observation", bool(pol), f"action `{avar}` computed from `{ovar}` at {len(pol)} site(s)",
                  "" if pol else f"the definitions of the action reaching env.step read the successor observation `{nextvar}` and never the current observation `{ovar}`", loc(L.mi, L.step_stmt))
        # after an in-loop reset the action of the first step of the new episode is computed anew: a path from the reset to env.step on which
        # the action keeps a value chosen before the reset (it is not recomputed, only copied) is a witness
        fresh, closure = _stale_action_nodes(cfg, L, act)
        kept = None
        for r, r_from in bound_resets:
            pth = cfg.paths_avoiding(r_from, S, fresh)
            if pth is not None:
                kept = (r, pth)
                break
        if bound_resets:
            ck.ob("R4-act-on-current", site, "action-chosen-after-reset", kept is None, f"every path from an in-loop reset to `{short(L.step_stmt, 40)}` recomputes `{avar}`",
                  "" if kept is None else f"after `{short(cfg.nodes[kept[0]].ast, 40)}` the action `{avar}` passed to env.step is not computed again (copies of {sorted(closure)} only): "
                  f"the first action of the new episode was chosen for the previous episode's last observation",
                  loc(L.mi, L.step_stmt), cfg.describe_path(kept[1]) if kept else None)
        carried = None
        if not pol and not succ:
            carried = _carried_policy_input(cfg, L, org, avar, body, bound_resets)
            for V, at_, stale_reset in (carried or []):
                anchored[0] = True
                ok_v = stale_reset is None
                ck.ob("R4-act-on-current", site, f"policy-input-refreshed-after-reset:{V}", ok_v,
                      f"the policy reads `{V}`, a carried copy of the observation (origins: reset()[0] / step()[0])",
                      "" if ok_v else f"after `{short(cfg.nodes[stale_reset[0]].ast, 40)}` no definition gives `{V}` the reset observation before the policy reads it: the first action of "
                      f"the new episode is conditioned on the previous episode's final observation", loc(L.mi, cfg.nodes[at_].ast), cfg.describe_path(stale_reset[1]) if stale_reset else None)
        if not pol and not succ and kept is None and not carried:
            und(f"{site}: no definition of the action `{avar}` made in the same iteration before env.step reads the observation variable `{ovar}` (the observation reaches the policy in an unrecognised form)")
        for name, at, expr in used:
            node = cfg.nodes[at]
            if name == nextvar and name != ovar:
                if not any(d.node == S for d in cfg.defs_of(at, name)):
                    und(f"{site}: `{name}` read by `{short(expr, 50)}` is not the result of env.step there (unrecognised form)")
                    continue
                ck.ob("R4-act-on-current", site, "acts-on-successor", False, f"`{short(expr, 60)}`",
                      f"the action passed to env.step is computed from `{name}` (successor observation of the previous step), not from the current observation", loc(L.mi, node.ast))
                continue
            here = _eff_defs(cfg, at, name)
            between = _defs_between(cfg, at, S, name)
            ok = here == eff_at_S and not between
            ck.ob("R4-act-on-current", site, "same-observation-as-stored", ok, f"`{short(expr, 60)}`",
                  "" if ok else f"the observation read when acting (defs at lines {_lines(cfg, here)}) differs from the one stored (lines {_lines(cfg, eff_at_S)})",
                  loc(L.mi, node.ast))

    for L in loops:
        ck.guard(one_loop, L)
    ck.guard(_episode_record, ck, repo)
    ck.guard(_readout, ck, repo)
    ck.guard(_storage_dtype, ck, repo)
    n_sites = n_sites_box[0]
    ck.count("store-sites", n_sites)
    ck.floor("store-sites", n_sites, 24)


def _lines(cfg, ds):
    return sorted({cfg.nodes[i].lineno for i, _ in ds})


def _def_kind(L, d):
    if d.kind == "param":
        return "param"
    if d.node == L.step_node:
        return "step-binds"
    if d.node in L.resets_in:
        return "in-loop-reset"
    if d.node in L.resets_pre:
        return "pre-loop-reset"
    return f"copy:{ast.unparse(d.value)[:30] if d.value is not None else d.kind}"


def _defs_between(cfg: CFG, a: int, b: int, name: str):
    """Lines of definitions of ``name`` lying on a path a -> b that does not re-enter a (intra-iteration)."""
    out = []
    for n in cfg.nodes:
        if n.id in (a, b):
            continue
        if any(d.name == name and not _is_self_wrap(d) for d in n.defs):
            p1 = cfg.paths_avoiding(a, n.id, {b, a})
            p2 = cfg.paths_avoiding(n.id, b, {a}) if p1 is not None else None
            if p1 is not None and p2 is not None:
                out.append(n.lineno)
    return sorted(out)


def _carried_policy_input(cfg, L, org, avar, body, bound_resets, depth=4):
    """The policy does not read the observation variable itself but another variable that carries the observation (e.g. a device copy
    refreshed from the step result).  [(name, node of the reading definition, None | (reset node, path))]: for every in-loop reset that binds
    the observation, a path from the reset to the reading definition on which the variable never receives that reset's observation is a
    witness that the policy sees the previous episode's last successor.  None when no such variable is found (not read)."""
    H, S = L.loop_header, L.step_node
    pre_S = {n.id for n in cfg.nodes if n.id in body and n.id != S and cfg.paths_avoiding(n.id, S, {H}) is not None}
    work = [(d, 0) for d in cfg.defs_of(S, avar) if d.node in pre_S]
    seen, found = set(), {}
    while work:
        d, k = work.pop()
        if (d.node, d.name) in seen or d.value is None:
            continue
        seen.add((d.node, d.name))
        val = d.value.value if isinstance(d.value, ast.AugAssign) else d.value
        for x in ast.walk(val):
            if not (isinstance(x, ast.Name) and isinstance(x.ctx, ast.Load)):
                continue
            o = org.of_name(x.id, d.node)
            if o and not Origins.unknown(o) and all((y[0] == "reset" and y[1] == 0) or y == ("step", 0) for y in o) and ("step", 0) in o:
                found.setdefault(x.id, d.node)
            elif k < depth:
                for d2 in cfg.defs_of(d.node, x.id):
                    if d2.node in pre_S and d2.kind in ("assign", "unpack"):
                        work.append((d2, k + 1))
    if not found:
        return None
    out = []
    for V, at_ in sorted(found.items()):
        stale = None
        for r, r_from in bound_resets:
            refresh = {n.id for n in cfg.nodes for d in n.defs if d.name == V and ("reset", 0, r) in org.of_def(d, set())}
            pth = cfg.paths_avoiding(r_from, at_, refresh | {S})
            if pth is not None:
                stale = (r, pth)
                break
        out.append((V, at_, stale))
    return out


def _obs_uses_in_action(cfg, L, avar, ovar, nextvar, body, depth=4):
    """Backward slice from the action reaching env.step: (obs-like name, node, expr) uses."""
    out, seen = [], set()
    H = L.loop_header
    # only definitions made earlier in the *same* iteration (S reachable without passing the loop header) are followed
    pre_S = {n.id for n in cfg.nodes if n.id in body and n.id != L.step_node and cfg.paths_avoiding(n.id, L.step_node, {H}) is not None}
    work = [(d, 0) for d in cfg.defs_of(L.step_node, avar) if d.node in pre_S]
    targets = {ovar, nextvar} - {None}
    while work:
        d, k = work.pop()
        if (d.node, d.name) in seen or d.value is None:
            continue
        seen.add((d.node, d.name))
        val = d.value.value if isinstance(d.value, ast.AugAssign) else d.value
        for x in ast.walk(val):
            if isinstance(x, ast.Name) and isinstance(x.ctx, ast.Load):
                if x.id in targets:
                    out.append((x.id, d.node, val))
                elif k < depth:
                    for d2 in cfg.defs_of(d.node, x.id):
                        if d2.node in pre_S and d2.kind in ("assign", "unpack"):
                            work.append((d2, k + 1))
    # de-duplicate
    uniq = {}
    for name, at, e in out:
        uniq[(name, at)] = (name, at, e)
    return list(uniq.values())


# ---- self-validation variants (thorough tier) ------------------------------------------------------------
_TD3 = "rl_blox/algorithm/td3.py"
_RF = "rl_blox/algorithm/reinforce.py"
_OBS = "        observations = []\n        for episode in self.episodes:\n            observations.extend([o for o, _, _, _ in episode])\n        return observations\n"
_NXT = "        next_observations = []\n        for episode in self.episodes:\n            next_observations.extend([s for _, _, s, _ in episode])\n        return next_observations\n"
_PREP_N = "        next_observations = jnp.array(self._nest_observations())\n"
_DQN_STEP = "        next_obs, reward, terminated, truncated, info = env.step(int(action))\n"
_DQN_STORE = "        replay_buffer.add_sample(\n            observation=obs,\n            action=action,\n            reward=reward,\n            next_observation=next_obs,\n            termination=terminated,\n        )\n"
_RET = "        return observations, actions, next_observations, returns, gamma_discount\n"
_ADD = "        dataset.add_sample(observation, action, next_observation, reward)\n"
_TD3_STEP = "        next_obs, reward, termination, truncated, info = env.step(action)\n"
_TD3_REC = ("def train_td3(\n", "from typing import NamedTuple\n\n\nclass StepOutcome(NamedTuple):\n    successor: np.ndarray\n    payoff: float\n    ended: bool\n    cut_off: bool\n    extras: dict\n\n\ndef train_td3(\n")
_DQN_STORE_OUT = "        replay_buffer.add_sample(\n            observation=obs,\n            action=action,\n            reward=out[1],\n            next_observation=out[0],\n            termination=out[%d],\n        )\n"
_RB = "rl_blox/blox/replay_buffer.py"
_RB_ALLOC = "                self.buffer[k] = np.empty(\n                    (self.buffer_size,) + np.asarray(v).shape,\n                    dtype=self.buffer[k].dtype,\n                )\n"
_RB_INIT = "        self.buffer = OrderedDict()\n        for k, t in zip(keys, dtypes, strict=True):\n            self.buffer[k] = np.empty(0, dtype=t)\n"
_RB_ADAPT = ("        self.adaptive = []\n        self.buffer = OrderedDict()\n        for k, t in zip(keys, dtypes, strict=True):\n            self.buffer[k] = np.empty(0, dtype=t)\n"
             "            if %s:\n                self.adaptive.append(k)\n")
_RB_ALLOC_ADAPT = ("                if k in self.adaptive:\n                    kind = np.asarray(v).dtype\n                else:\n                    kind = self.buffer[k].dtype\n"
                   "                self.buffer[k] = np.empty((self.buffer_size,) + np.asarray(v).shape, dtype=kind)\n")
MUTANTS = [
    # the same mapping with the observation in the place of its successor
    {"id": "c01-ddpg-dict-call-mapping-next-is-obs", "file": "rl_blox/algorithm/ddpg.py", "rule": "R",
     "find": "        replay_buffer.add_sample(\n            observation=obs,\n            action=action,\n            reward=reward,\n            next_observation=next_obs,\n            termination=termination,\n        )\n", "replace": "        transition = dict(observation=obs, action=action, reward=reward, next_observation=obs, termination=termination)\n        replay_buffer.add_sample(**transition)\n"},
    # the same record with the observation in the place of its successor
    {"id": "c01-dqn-record-asdict-next-is-obs", "file": "rl_blox/algorithm/dqn.py", "rule": "R", "edits": [
        ("from ..logging.logger import LoggerBase\n", "from ..logging.logger import LoggerBase\nimport typing\n\n\nclass _Transition(typing.NamedTuple):\n    observation: typing.Any\n    action: typing.Any\n    reward: typing.Any\n    next_observation: typing.Any\n    termination: typing.Any\n"),
        ("        replay_buffer.add_sample(\n            observation=obs,\n            action=action,\n            reward=reward,\n            next_observation=next_obs,\n            termination=terminated,\n        )\n", "        transition = _Transition(obs, action, reward, obs, terminated)\n        replay_buffer.add_sample(**transition._asdict())\n")]},
    {"id": "c01-td3-device-copy-not-refreshed-at-reset", "file": _TD3, "rule": "R4", "edits": [('    obs, _ = env.reset(seed=seed)\n', '    obs, _ = env.reset(seed=seed)\n    obs_dev = jnp.asarray(obs)\n'), ('_sample_actions(policy, jnp.asarray(obs), action_key)', '_sample_actions(policy, obs_dev, action_key)'), ('        next_obs, reward, termination, truncated, info = env.step(action)\n', '        next_obs, reward, termination, truncated, info = env.step(action)\n        obs_dev = jnp.asarray(next_obs)\n')]},
    {"id": "c01-td3-carry-before-store", "file": _TD3, "rule": "R2",
     "find": "        steps_per_episode += 1\n        accumulated_reward += reward\n\n        replay_buffer.add_sample(",
     "replace": "        steps_per_episode += 1\n        accumulated_reward += reward\n        obs = next_obs\n\n        replay_buffer.add_sample("},
    {"id": "c01-td3-next-is-obs", "file": _TD3, "rule": "R1", "find": "next_observation=next_obs,", "replace": "next_observation=obs,"},
    {"id": "c01-td3-term-is-trunc", "file": _TD3, "rule": "R1", "find": "termination=termination,", "replace": "termination=truncated,"},
    {"id": "c01-td3-policy-next-obs", "file": _TD3, "rule": "R4", "find": "_sample_actions(policy, jnp.asarray(obs), action_key)", "replace": "_sample_actions(policy, jnp.asarray(next_obs), action_key)"},
    {"id": "c01-td3-reset-discarded", "file": _TD3, "rule": "R3", "find": "            obs, _ = env.reset()\n            steps_per_episode = 0", "replace": "            env.reset()\n            obs = next_obs\n            steps_per_episode = 0"},
    {"id": "c01-sac-unconditional-carry", "file": "rl_blox/algorithm/sac.py", "rule": "R3", "find": "        else:\n            obs = next_obs\n\n        progress.update()", "replace": "        obs = next_obs\n\n        progress.update()"},
    {"id": "c01-dqn-reward-stale", "file": "rl_blox/algorithm/dqn.py", "rule": "R1",
     "find": "        next_obs, reward, terminated, truncated, info = env.step(int(action))\n        accumulated_reward += reward\n        replay_buffer.add_sample(\n            observation=obs,\n            action=action,\n            reward=reward,\n            next_observation=next_obs,\n            termination=terminated,\n        )",
     "replace": "        replay_buffer.add_sample(\n            observation=obs,\n            action=action,\n            reward=reward,\n            next_observation=next_obs,\n            termination=terminated,\n        ) if step > global_step else None\n        next_obs, reward, terminated, truncated, info = env.step(int(action))\n        accumulated_reward += reward"},
    {"id": "c01-qlearning-swapped-obs", "file": "rl_blox/algorithm/q_learning.py", "rule": "R", "find": "            q_table,\n            observation,\n            action,\n            reward,\n            next_observation,\n            next_action,", "replace": "            q_table,\n            next_observation,\n            action,\n            reward,\n            observation,\n            next_action,"},
    {"id": "c01-mc-store-after-step", "file": "rl_blox/algorithm/monte_carlo.py", "rule": "R2",
     "find": "        obs_arr = obs_arr.at[i].set(int(observation))\n        observation, reward, terminated, truncated, info = env.step(int(action))\n",
     "replace": "        observation, reward, terminated, truncated, info = env.step(int(action))\n        obs_arr = obs_arr.at[i].set(int(observation))\n"},
    {"id": "c01-dynaq-no-carry-on-done", "file": "rl_blox/algorithm/dynaq.py", "rule": "R3", "find": "            obs, _ = env.reset()\n            accumulated_reward = 0.0", "replace": "            env.reset()\n            accumulated_reward = 0.0"},
    {"id": "c01-reinforce-stored-action-differs", "file": "rl_blox/algorithm/reinforce.py", "rule": "R1",
     "find": "        dataset.add_sample(observation, action, next_observation, reward)", "replace": "        action = np.asarray(sample(policy, jnp.array(observation), subkey))\n        dataset.add_sample(observation, action, next_observation, reward)"},
    {"id": "c01-a2c-store-next-obs", "file": "rl_blox/algorithm/a2c.py", "rule": "R2", "find": "            obs=obs,\n            actions=action,", "replace": "            obs=next_obs,\n            actions=action,"},
    {"id": "c01-mrq-trunc-term-swap", "file": "rl_blox/algorithm/mrq.py", "rule": "R1", "find": "            terminated=terminated,\n            truncated=truncated,", "replace": "            terminated=truncated,\n            truncated=terminated,"},
    {"id": "c01-sarsa-action-carried-over-reset", "file": "rl_blox/algorithm/sarsa.py", "rule": "R4", "edits": [
        ("    observation, _ = env.reset()\n\n    if logger is not None:\n        logger.start_new_episode()\n\n    steps_per_episode = 0\n",
         "    observation, _ = env.reset()\n    key, subkey = jax.random.split(key)\n    action = epsilon_greedy_policy(q_table, observation, epsilon, subkey)\n\n    if logger is not None:\n        logger.start_new_episode()\n\n    steps_per_episode = 0\n"),
        ("        key, subkey = jax.random.split(key)\n        action = epsilon_greedy_policy(q_table, observation, epsilon, subkey)\n        steps_per_episode += 1\n", "        steps_per_episode += 1\n"),
        ("        else:\n            observation = next_observation\n\n    return q_table", "        else:\n            observation = next_observation\n        action = next_action\n\n    return q_table")]},
    {"id": "c01-ppo-successor-patched-in-place", "file": "rl_blox/algorithm/ppo.py", "rule": "R2", "edits": [
        ("        obs = jnp.copy(next_obs)\n", "        obs = np.asarray(next_obs)\n"), ("                obs = obs.at[i].set(o)\n", "                obs[i] = o\n")]},
    {"id": "c01-reinforce-no-reset", "file": "rl_blox/algorithm/reinforce.py", "rule": "R3", "find": "            observation, _ = env.reset()\n            dataset.start_episode()", "replace": "            dataset.start_episode()"},
    {"id": "c01-td3-first-observation-stored", "file": _TD3, "rule": "R2", "edits": [
        ("    obs, _ = env.reset(seed=seed)\n    steps_per_episode = 0\n", "    obs, _ = env.reset(seed=seed)\n    first_obs = obs\n    steps_per_episode = 0\n"), ("            observation=obs,\n            action=action,", "            observation=first_obs,\n            action=action,")]},
    {"id": "c01-ddpg-stale-sometimes", "file": "rl_blox/algorithm/ddpg.py", "rule": "R3", "find": "        else:\n            obs = next_obs\n\n    return namedtuple(\n        \"DDPGResult\"", "replace": "        elif steps_per_episode % 7 != 0:\n            obs = next_obs\n\n    return namedtuple(\n        \"DDPGResult\""},
    # R5: read-out of the episode record
    {"id": "c01-dataset-successor-is-observation-column", "file": _RF, "rule": "R5", "find": _PREP_N, "replace": "        next_observations = jnp.array(self._observations())\n"},
    {"id": "c01-dataset-successor-shifted-flat-list", "file": _RF, "rule": "R5", "find": _NXT,
     "replace": "        flat = [o for ep in self.episodes for o, _, _, _ in ep]\n        return flat[1:] + [self.episodes[-1][-1][2]]\n"},
    {"id": "c01-dataset-observation-from-shifted-successors", "file": _RF, "rule": "R5", "find": _OBS,
     "replace": "        succ = [s for ep in self.episodes for _, _, s, _ in ep]\n        return [self.episodes[0][0][0]] + succ[:-1]\n"},
    {"id": "c01-dataset-unpack-position-swapped", "file": _RF, "rule": "R5", "find": "next_observations.extend([s for _, _, s, _ in episode])", "replace": "next_observations.extend([s for s, _, _, _ in episode])"},
    {"id": "c01-dataset-zip-columns-swapped", "file": _RF, "rule": "R5", "find": _NXT, "replace": "        s, a, o, r = zip(*[rec for ep in self.episodes for rec in ep])\n        return list(s)\n"},
    # the step result held in a variable and projected; the store's keywords given as a dict display
    {"id": "c01-dqn-step-projection-swapped", "file": "rl_blox/algorithm/dqn.py", "rule": "R1", "find": _DQN_STEP, "replace": "        result = env.step(int(action))\n        reward, next_obs, terminated, truncated = result[:4]\n"},
    {"id": "c01-dqn-splat-successor-is-observation", "file": "rl_blox/algorithm/dqn.py", "rule": "R1", "find": _DQN_STORE,
     "replace": "        sample = {\"observation\": obs, \"action\": action, \"reward\": reward, \"next_observation\": obs, \"termination\": terminated}\n        replay_buffer.add_sample(**sample)\n"},
    {"id": "c01-dataset-result-record-successor-field-holds-observations", "file": _RF, "rule": "R5", "edits": [
        ("class EpisodeDataset:\n", "class PGBatch(NamedTuple):\n    observations: jnp.ndarray\n    actions: jnp.ndarray\n    next_observations: jnp.ndarray\n    returns: jnp.ndarray\n    gamma_discount: jnp.ndarray\n\n\nclass EpisodeDataset:\n"),
        (_RET, "        return PGBatch(observations, actions, observations, returns, gamma_discount)\n")]},
    {"id": "c01-reinforce-star-pack-swapped", "file": _RF, "rule": "R1", "find": _ADD, "replace": "        sample = (next_observation, action, observation, reward)\n        dataset.add_sample(*sample)\n"},
    # the step result held as a whole (tuple / five-field record, aliases) and read by position
    {"id": "c01-dqn-step-two-slices-flags-swapped", "file": "rl_blox/algorithm/dqn.py", "rule": "R1", "find": _DQN_STEP,
     "replace": "        out = env.step(int(action))\n        next_obs, reward = out[:2]\n        truncated, terminated, info = out[2:]\n"},
    {"id": "c01-td3-step-record-flag-fields-swapped", "file": _TD3, "rule": "R1", "edits": [_TD3_REC,
        (_TD3_STEP, "        outcome = StepOutcome(*env.step(action))\n        last = outcome\n        next_obs, reward = last.successor, outcome.payoff\n        termination = outcome.cut_off\n        truncated = last[2]\n")]},
    {"id": "c01-dqn-step-result-indexed-in-store-truncation-as-termination", "file": "rl_blox/algorithm/dqn.py", "rule": "R1", "edits": [
        (_DQN_STEP, "        out = env.step(int(action))\n        next_obs, reward, terminated, truncated = out[0], out[1], out[2], out[-2]\n"), (_DQN_STORE, _DQN_STORE_OUT % 3)]},
    {"id": "c01-td3-step-record-successor-is-payoff", "file": _TD3, "rule": "R1", "edits": [_TD3_REC,
        (_TD3_STEP, "        outcome = StepOutcome._make(env.step(action))\n        reward, next_obs, termination, truncated, info = outcome\n")]},
    # R6: element type of the column storage taken from the first value stored
    {"id": "c01-replay-buffer-column-type-of-first-value", "file": _RB, "rule": "R6", "nth": 0, "find": _RB_ALLOC,
     "replace": "                first = np.asarray(v)\n                self.buffer[k] = np.empty((self.buffer_size,) + first.shape, dtype=first.dtype)\n"},
    {"id": "c01-subtrajectory-buffer-storage-like-first-value", "file": _RB, "rule": "R6", "nth": 1, "find": _RB_ALLOC,
     "replace": "                self.buffer[k] = np.zeros_like(np.asarray(v), shape=(self.buffer_size,) + np.shape(v))\n"},
    {"id": "c01-replay-buffer-float-columns-typed-by-first-value", "file": _RB, "rule": "R6", "nth": 0, "edits": [(_RB_INIT, _RB_ADAPT % "t is float"), (_RB_ALLOC, _RB_ALLOC_ADAPT)]},
]
BENIGN = [
    # the transition built with `dict(...)`, bound once, and handed over as `**transition`
    {"id": "c01-b-ddpg-dict-call-mapping", "file": "rl_blox/algorithm/ddpg.py",
     "find": "        replay_buffer.add_sample(\n            observation=obs,\n            action=action,\n            reward=reward,\n            next_observation=next_obs,\n            termination=termination,\n        )\n", "replace": "        transition = dict(observation=obs, action=action, reward=reward, next_observation=next_obs, termination=termination)\n        replay_buffer.add_sample(**transition)\n"},
    # the transition carried in a class-based NamedTuple and handed over as `**record._asdict()`: the fields of the record, by name
    {"id": "c01-b-dqn-record-asdict", "file": "rl_blox/algorithm/dqn.py", "edits": [
        ("from ..logging.logger import LoggerBase\n", "from ..logging.logger import LoggerBase\nimport typing\n\n\nclass _Transition(typing.NamedTuple):\n    observation: typing.Any\n    action: typing.Any\n    reward: typing.Any\n    next_observation: typing.Any\n    termination: typing.Any\n"),
        ("        replay_buffer.add_sample(\n            observation=obs,\n            action=action,\n            reward=reward,\n            next_observation=next_obs,\n            termination=terminated,\n        )\n", "        transition = _Transition(obs, action, reward, next_obs, terminated)\n        replay_buffer.add_sample(**transition._asdict())\n")]},
    {"id": "c01-b-td3-device-copy-refreshed-at-reset", "file": _TD3, "edits": [('    obs, _ = env.reset(seed=seed)\n', '    obs, _ = env.reset(seed=seed)\n    obs_dev = jnp.asarray(obs)\n'), ('_sample_actions(policy, jnp.asarray(obs), action_key)', '_sample_actions(policy, obs_dev, action_key)'), ('        next_obs, reward, termination, truncated, info = env.step(action)\n', '        next_obs, reward, termination, truncated, info = env.step(action)\n        obs_dev = jnp.asarray(next_obs)\n'), ('            obs, _ = env.reset()\n', '            obs, _ = env.reset()\n            obs_dev = jnp.asarray(obs)\n')]},
    {"id": "c01-b-ddpg-elif-not-truncated", "file": "rl_blox/algorithm/ddpg.py", "find": "        else:\n            obs = next_obs\n\n    return namedtuple(\n        \"DDPGResult\"", "replace": "        elif not truncated:\n            obs = next_obs\n\n    return namedtuple(\n        \"DDPGResult\""},
    {"id": "c01-b-td3-ifexp-carry", "file": _TD3, "find": "        else:\n            obs = next_obs\n\n        bar.update()", "replace": "        else:\n            obs = np.asarray(next_obs)\n\n        bar.update()"},
    {"id": "c01-b-td3-rename", "file": _TD3, "all": True, "find": "next_obs", "replace": "succ_observation"},
    {"id": "c01-b-td3-logging", "file": _TD3, "find": "        steps_per_episode += 1\n        accumulated_reward += reward\n", "replace": "        steps_per_episode += 1\n        accumulated_reward += reward\n        if logger is not None:\n            logger.record_stat(\"r\", reward)\n"},
    {"id": "c01-b-dqn-reward-float", "file": "rl_blox/algorithm/dqn.py", "find": "        accumulated_reward += reward\n        replay_buffer.add_sample(", "replace": "        reward = float(reward)\n        accumulated_reward += reward\n        replay_buffer.add_sample("},
    {"id": "c01-b-sarsa-reset-first", "file": "rl_blox/algorithm/sarsa.py", "find": "            steps_per_episode = 0\n            observation, _ = env.reset()", "replace": "            observation, _ = env.reset()\n            steps_per_episode = 0"},
    {"id": "c01-b-dqn-step-action-keyword", "file": "rl_blox/algorithm/dqn.py", "find": "env.step(int(action))", "replace": "env.step(action=int(action))"},
    {"id": "c01-b-td3-observation-copy-stored", "file": _TD3, "edits": [
        ("        next_obs, reward, termination, truncated, info = env.step(action)\n", "        acted_on = obs\n        next_obs, reward, termination, truncated, info = env.step(action)\n"),
        ("            observation=obs,\n            action=action,", "            observation=acted_on,\n            action=action,")]},
    {"id": "c01-b-sac-reset-into-successor-then-carry", "file": "rl_blox/algorithm/sac.py", "edits": [
        ("            obs, _ = env.reset()\n            steps_per_episode = 0\n            accumulated_reward = 0.0\n\n        else:\n            obs = next_obs\n\n        progress.update()",
         "            next_obs, _ = env.reset()\n            steps_per_episode = 0\n            accumulated_reward = 0.0\n\n        obs = next_obs\n\n        progress.update()")]},
    {"id": "c01-b-dynaq-int-after-reset", "file": "rl_blox/algorithm/dynaq.py", "find": "            obs, _ = env.reset()\n            accumulated_reward = 0.0", "replace": "            obs, _ = env.reset()\n            obs = int(obs)\n            accumulated_reward = 0.0"},
    {"id": "c01-b-mc-update-by-keyword", "file": "rl_blox/algorithm/monte_carlo.py",
     "find": "                rew_arr[start_t : i + 1],\n                obs_arr[start_t : i + 1],\n                act_arr[start_t : i + 1],\n                gamma,",
     "replace": "                observations=obs_arr[start_t : i + 1],\n                actions=act_arr[start_t : i + 1],\n                rewards=rew_arr[start_t : i + 1],\n                gamma=gamma,"},
    {"id": "c01-b-a2c-second-copy-of-successor", "file": "rl_blox/algorithm/a2c.py", "find": "        obs = next_obs\n        global_step += num_envs", "replace": "        obs = next_obs\n        final_obs = next_obs\n        global_step += num_envs"},
    {"id": "c01-b-ddpg-observation-asarray-before-step", "file": "rl_blox/algorithm/ddpg.py",
     "find": "        next_obs, reward, termination, truncated, info = env.step(action)\n        steps_trained", "replace": "        obs = np.asarray(obs)\n        next_obs, reward, termination, truncated, info = env.step(action)\n        steps_trained"},
    {"id": "c01-b-reinforce-add-sample-in-base-class", "file": "rl_blox/algorithm/reinforce.py", "edits": [
        ("class EpisodeDataset:\n    \"\"\"Collects samples batched in episodes.\"\"\"\n", "class _EpisodeStore:\n    \"\"\"Episode-wise storage.\"\"\"\n"),
        ("    def _indices(self) -> list[int]:\n", "\nclass EpisodeDataset(_EpisodeStore):\n    \"\"\"Collects samples batched in episodes.\"\"\"\n\n    def _indices(self) -> list[int]:\n")]},
    {"id": "c01-b-reinforce-keyword-only-record", "file": "rl_blox/algorithm/reinforce.py", "edits": [
        ("    def add_sample(\n        self,\n        observation: jnp.ndarray,", "    def add_sample(\n        self,\n        *,\n        observation: jnp.ndarray,"),
        ("        dataset.add_sample(observation, action, next_observation, reward)", "        dataset.add_sample(reward=reward, observation=observation, action=action, next_observation=next_observation)")]},
    {"id": "c01-b-reinforce-carry-in-else", "file": "rl_blox/algorithm/reinforce.py",
     "find": "        observation = next_observation\n\n        if done:", "replace": "        if not done:\n            observation = next_observation\n\n        if done:"},
    # R5: other spellings of the same gather
    {"id": "c01-b-dataset-nested-comprehension", "file": _RF, "find": _NXT, "replace": "        return [s for episode in self.episodes for _, _, s, _ in episode]\n"},
    {"id": "c01-b-dataset-subscript-append", "file": _RF, "find": _NXT, "replace": "        out = []\n        for ep in self.episodes:\n            for step in ep:\n                out.append(step[2])\n        return out\n"},
    {"id": "c01-b-dataset-range-len", "file": _RF, "find": _NXT,
     "replace": "        out = []\n        for e in range(len(self.episodes)):\n            ep = self.episodes[e]\n            for t in range(len(ep)):\n                out.append(ep[t][2])\n        return out\n"},
    {"id": "c01-b-dataset-accumulate-by-plus", "file": _RF, "find": _NXT, "replace": "        out = []\n        for ep in self.episodes:\n            out = out + [rec[-2] for rec in ep]\n        return out\n"},
    {"id": "c01-b-dataset-per-episode-arrays-joined", "file": _RF, "find": _PREP_N,
     "replace": "        next_observations = jnp.concatenate([jnp.array([s for _, _, s, _ in ep]) for ep in self.episodes], axis=0)\n"},
    {"id": "c01-b-dataset-zip-columns", "file": _RF, "find": _NXT, "replace": "        out = []\n        for ep in self.episodes:\n            o, a, s, r = zip(*ep)\n            out.extend(s)\n        return out\n"},
    {"id": "c01-b-dataset-steps-helper", "file": _RF, "find": _NXT, "replace": "        return [rec[2] for rec in self._all_steps()]\n\n    def _all_steps(self):\n        return [rec for ep in self.episodes for rec in ep]\n"},
    {"id": "c01-b-dataset-namedtuple-record", "file": _RF, "edits": [
        ("class EpisodeDataset:\n", "class Step(NamedTuple):\n    observation: jnp.ndarray\n    action: jnp.ndarray\n    next_observation: jnp.ndarray\n    reward: float\n\n\nclass EpisodeDataset:\n"),
        ("        self.episodes[-1].append(\n            (observation, action, next_observation, reward)\n        )\n", "        self.episodes[-1].append(Step(observation, action, next_observation, reward))\n"),
        (_NXT, "        return [st.next_observation for ep in self.episodes for st in ep]\n"),
        (_OBS, "        return [st.observation for ep in self.episodes for st in ep]\n")]},
    {"id": "c01-b-ac-whole-result-subscripts", "file": "rl_blox/algorithm/actor_critic.py",
     "find": "        observations, actions, next_observations, returns, gamma_discount = (\n            dataset.prepare_policy_gradient_dataset(env.action_space, gamma)\n        )\n",
     "replace": "        batch = dataset.prepare_policy_gradient_dataset(env.action_space, gamma)\n        observations, actions = batch[0], batch[1]\n        next_observations, returns, gamma_discount = batch[2], batch[3], batch[4]\n"},
    {"id": "c01-b-dqn-step-projection", "file": "rl_blox/algorithm/dqn.py", "find": _DQN_STEP, "replace": "        result = env.step(int(action))\n        next_obs, reward, terminated, truncated = result[:4]\n"},
    {"id": "c01-b-dqn-splat-dict", "file": "rl_blox/algorithm/dqn.py", "find": _DQN_STORE,
     "replace": "        sample = {\"observation\": obs, \"action\": action, \"reward\": reward, \"next_observation\": next_obs, \"termination\": terminated}\n        replay_buffer.add_sample(**sample)\n"},
    {"id": "c01-b-dataset-column-helper", "file": _RF, "find": _NXT, "replace": "        return self._column(2)\n\n    def _column(self, k):\n        return [rec[k] for ep in self.episodes for rec in ep]\n"},
    {"id": "c01-b-dataset-empty-guard-return", "file": _RF, "find": "        observations = jnp.array(self._observations())\n",
     "replace": "        if not self.episodes:\n            e = jnp.zeros((0,))\n            return e, e, e, e, e\n        observations = jnp.array(self._observations())\n"},
    {"id": "c01-b-dataset-result-record", "file": _RF, "edits": [
        ("class EpisodeDataset:\n", "class PGBatch(NamedTuple):\n    observations: jnp.ndarray\n    actions: jnp.ndarray\n    next_observations: jnp.ndarray\n    returns: jnp.ndarray\n    gamma_discount: jnp.ndarray\n\n\nclass EpisodeDataset:\n"),
        (_RET, "        return PGBatch(observations, actions, next_observations, returns, gamma_discount)\n")]},
    {"id": "c01-b-reinforce-star-pack", "file": _RF, "find": _ADD, "replace": "        sample = (observation, action, next_observation, reward)\n        dataset.add_sample(*sample)\n"},
    # the step result held as a whole and read by position
    {"id": "c01-b-dqn-step-two-slices", "file": "rl_blox/algorithm/dqn.py", "find": _DQN_STEP,
     "replace": "        out = env.step(int(action))\n        next_obs, reward = out[:2]\n        terminated, truncated, info = out[2:]\n"},
    {"id": "c01-b-td3-step-record-fields-and-alias", "file": _TD3, "edits": [_TD3_REC,
        (_TD3_STEP, "        outcome = StepOutcome(*env.step(action))\n        last = outcome\n        next_obs, reward = last.successor, outcome.payoff\n        termination = outcome.ended\n        truncated = last[3]\n")]},
    {"id": "c01-b-dqn-step-result-indexed-in-store", "file": "rl_blox/algorithm/dqn.py", "edits": [
        (_DQN_STEP, "        out = env.step(int(action))\n        next_obs, reward, terminated, truncated = out[0], out[1], out[2], out[-2]\n"), (_DQN_STORE, _DQN_STORE_OUT % 2)]},
    {"id": "c01-b-td3-step-record-make-unpacked", "file": _TD3, "edits": [_TD3_REC,
        (_TD3_STEP, "        outcome = StepOutcome._make(env.step(action))\n        next_obs, reward, termination, truncated, info = outcome\n")]},
    {"id": "c01-b-dqn-step-tuple-late-reads", "file": "rl_blox/algorithm/dqn.py", "edits": [
        (_DQN_STEP, "        out = tuple(env.step(int(action)))\n        reward = out[1]\n        next_obs = out[0]\n"),
        ("        # housekeeping\n        if terminated or truncated:\n", "        # housekeeping\n        terminated, truncated = out[2:4]\n        if terminated or truncated:\n"),
        ("            termination=terminated,\n        )\n\n        # sample minibatch", "            termination=out[-3],\n        )\n\n        # sample minibatch")]},
    # R6: other spellings of the allocation with the declared column type
    {"id": "c01-b-replay-buffer-declared-type-temporary", "file": _RB, "nth": 0, "find": _RB_ALLOC,
     "replace": "                first = np.asarray(v)\n                declared = self.buffer[k].dtype\n                self.buffer[k] = np.zeros((self.buffer_size, *first.shape), declared)\n"},
    {"id": "c01-b-replay-buffer-allocation-helper", "file": _RB, "edits": [
        (_RB_ALLOC, "                self._allocate_column(k, np.shape(v))\n"),
        ("    def add_sample(self, **sample):\n        \"\"\"Add transition sample to the replay buffer.\n", "    def _allocate_column(self, key, item_shape):\n        self.buffer[key] = np.empty((self.buffer_size,) + tuple(item_shape), dtype=np.dtype(self.buffer[key].dtype))\n\n    def add_sample(self, **sample):\n        \"\"\"Add transition sample to the replay buffer.\n")]},
    {"id": "c01-b-subtrajectory-buffer-values-by-key", "file": _RB, "nth": 1,
     "find": "            for k, v in sample.items():\n                assert k in self.buffer, f\"{k} not in {self.buffer.keys()}\"\n" + _RB_ALLOC,
     "replace": "            for k in sample:\n                assert k in self.buffer, f\"{k} not in {self.buffer.keys()}\"\n                self.buffer[k] = np.empty((self.buffer_size,) + np.asarray(sample[k]).shape, dtype=self.buffer[k].dtype)\n"},
    {"id": "c01-b-replay-buffer-observation-columns-typed-by-first-value", "file": _RB, "nth": 0, "edits": [
        (_RB_INIT, _RB_ADAPT % "t is float and k in (\"observation\", \"next_observation\")"), (_RB_ALLOC, _RB_ALLOC_ADAPT)]},
]
