"""C01 - stored experience equals what the environment produced (role-exact dataflow on the CFG)."""
from __future__ import annotations

import ast

from ..cfg import CFG
from ..loops import ENV_LOOPS, Origins, find_env_loop, strip_wrappers, dotted
from ..repo import Repo, loc, short, positional_params, AnalysisError

EXPLANATION = (
    "For each of the environment-interaction loops of rl_blox the checker builds the statement CFG and reaching "
    "definitions and decides, for every CFG path (merged dataflow), positional role agreement between the results of "
    "env.step/env.reset and every store site (replay-buffer add_sample, EpisodeDataset.add_sample, rollout appends, "
    "Monte-Carlo arrays, tabular/Dyna-Q update calls mapped through the callee signature) and every act site. Roles "
    "are tuple positions of the gymnasium protocol, never variable names. R3 is a path property: from an in-loop reset "
    "definition of the observation no other definition may be reached without passing the step statement."
)
TRUSTED = [
    "gymnasium protocol: env.step returns (next_obs, reward, terminated, truncated, info); env.reset returns (obs, info)",
    "CPython ast semantics; int()/float()/np.asarray()/jnp.array()/jnp.copy()/x[jnp.newaxis] preserve the stored value",
    "vector environments auto-reset (no in-loop reset obligation for a2c/ppo collect_trajectories)",
]
RULES = {
    "R1-store-role": "at every store site the reward / successor observation / terminated / truncated arguments have position "
                     "1/0/2/3 of the step statement of the same iteration as their only origin; the stored action has the "
                     "same reaching definitions as the action passed to env.step",
    "R2-obs-provenance": "every definition of the stored observation that reaches the step statement originates in reset()[0], "
                         "position 0 of the step statement (carry) or a parameter; store site sees the same definitions as the step",
    "R3-boundary": "from every in-loop reset definition of the observation no other definition of it is reachable without passing "
                   "env.step; no path from step back to step leaves the observation undefined-stale; in-loop resets bind the observation",
    "R4-act-on-current": "the observation used to compute the action passed to env.step has the same reaching definitions as "
                         "the stored observation and never is the successor observation",
}

# parameter / keyword names -> role.  Names of *API parameters* of the store callee, not of local variables.
ROLE_OF = {
    "observation": "O", "obs": "O", "observations": "O",
    "action": "A", "actions": "A", "act": "A",
    "reward": "R", "rewards": "R",
    "next_observation": "N", "next_obs": "N",
    "termination": "D", "terminated": "D", "terminations": "D",
    "truncated": "T", "truncations": "T", "truncation": "T",
}
STEP_POS = {"N": 0, "R": 1, "D": 2, "T": 3}

# loops of C01's quantifier (cmaes / generate_rollout keep no transitions: only R3/R4 apply and are run under C11/C13)
C01_LOOPS = [q for q in ENV_LOOPS if not q.endswith(("train_cmaes", "generate_rollout"))]
# store callees resolved through their signature (tabular learners, Dyna-Q, EpisodeDataset)
SIG_STORES = {
    "rl_blox.algorithm.q_learning.train_q_learning": ["rl_blox.algorithm.q_learning._update_policy"],
    "rl_blox.algorithm.sarsa.train_sarsa": ["rl_blox.algorithm.sarsa._update_policy"],
    "rl_blox.algorithm.double_q_learning.train_double_q_learning": ["rl_blox.algorithm.double_q_learning._dql_update"],
    "rl_blox.algorithm.dynaq.train_dynaq": ["rl_blox.algorithm.dynaq.q_learning_update", "rl_blox.algorithm.dynaq.counter_update",
                                           "rl_blox.algorithm.dynaq.model_update"],
    "rl_blox.algorithm.monte_carlo.train_monte_carlo": ["rl_blox.algorithm.monte_carlo.update"],
}


def _store_sites(repo: Repo, L, ck):
    """Yield (node id, call, {role: arg expr}, description)."""
    cfg = L.cfg
    body = cfg.loop_body_nodes(L.outer_header)
    sites = []
    fn_mod = L.mi
    sig_callees = {}
    for q in SIG_STORES.get(L.qual, []):
        f = repo.func(q)
        sig_callees[q.rsplit(".", 1)[1]] = (q, f)
    # Monte-Carlo: arrays filled with .at[i].set(x); role of the array = parameter of `update` it is passed to
    arr_role = {}
    if L.qual.endswith("train_monte_carlo"):
        q, f = sig_callees["update"]
        pp = positional_params(f)
        for n in cfg.nodes:
            if n.ast is None:
                continue
            for c in ast.walk(n.ast):
                if isinstance(c, ast.Call) and isinstance(c.func, ast.Name) and c.func.id == "update":
                    for i, a in enumerate(c.args):
                        b = a
                        while isinstance(b, ast.Subscript):
                            b = b.value
                        if isinstance(b, ast.Name) and i < len(pp) and pp[i] in ROLE_OF:
                            arr_role[b.id] = ROLE_OF[pp[i]]
    # PPO: lists appended per step; role = field of the returned namedtuple the list flows into
    list_role = {}
    for n in cfg.nodes:
        s = n.ast
        if isinstance(s, ast.Return) and isinstance(s.value, ast.Call) and isinstance(s.value.func, ast.Call) and dotted(s.value.func.func) == "namedtuple":
            nt = s.value.func
            if len(nt.args) == 2 and isinstance(nt.args[1], (ast.List, ast.Tuple)):
                fields = [e.value for e in nt.args[1].elts if isinstance(e, ast.Constant)]
                for fld, val in zip(fields, s.value.args):
                    if fld in ROLE_OF:
                        for x in ast.walk(val):
                            if isinstance(x, ast.Name):
                                list_role.setdefault(x.id, ROLE_OF[fld])
    for nid in sorted(body):
        n = cfg.nodes[nid]
        s = n.ast
        if n.kind != "stmt" or s is None:
            continue
        for c in ast.walk(s):
            if not isinstance(c, ast.Call):
                continue
            f = c.func
            if isinstance(f, ast.Attribute) and f.attr == "add_sample":
                roles = {}
                if c.keywords and not c.args:
                    for kw in c.keywords:
                        if kw.arg in ROLE_OF:
                            roles[ROLE_OF[kw.arg]] = kw.value
                        elif kw.arg is not None:
                            ck.note(f"{L.qual}: add_sample keyword {kw.arg!r} has no protocol role (ignored)")
                else:
                    # positional: EpisodeDataset.add_sample(observation, action, next_observation, reward)
                    owner = None
                    for cand in ("rl_blox.algorithm.reinforce.EpisodeDataset",):
                        if repo.has(cand):
                            owner = cand
                    m = repo.method(owner, "add_sample") if owner else None
                    if m is None:
                        raise AnalysisError(f"{L.qual}: positional add_sample but EpisodeDataset.add_sample not found")
                    pp = positional_params(m[1])[1:]
                    for i, a in enumerate(c.args):
                        if i < len(pp) and pp[i] in ROLE_OF:
                            roles[ROLE_OF[pp[i]]] = a
                    for kw in c.keywords:
                        if kw.arg in ROLE_OF:
                            roles[ROLE_OF[kw.arg]] = kw.value
                sites.append((nid, c, roles, f"{dotted(f)}(...)"))
            elif isinstance(f, ast.Name) and f.id in sig_callees and f.id != "update":
                q, fdef = sig_callees[f.id]
                pp = positional_params(fdef)
                roles = {}
                for i, a in enumerate(c.args):
                    if i < len(pp) and pp[i] in ROLE_OF:
                        roles[ROLE_OF[pp[i]]] = a
                for kw in c.keywords:
                    if kw.arg in ROLE_OF:
                        roles[ROLE_OF[kw.arg]] = kw.value
                sites.append((nid, c, roles, f"{f.id}(...) via signature of {q}"))
            elif isinstance(f, ast.Attribute) and f.attr == "set" and isinstance(f.value, ast.Subscript) and isinstance(f.value.value, ast.Attribute) \
                    and f.value.value.attr == "at" and isinstance(f.value.value.value, ast.Name) and f.value.value.value.id in arr_role and c.args:
                arr = f.value.value.value.id
                sites.append((nid, c, {arr_role[arr]: c.args[0]}, f"{arr}.at[i].set(...) -> update({arr})"))
            elif isinstance(f, ast.Attribute) and f.attr == "append" and isinstance(f.value, ast.Name) and f.value.id in list_role and c.args \
                    and L.qual.endswith("ppo.collect_trajectories"):
                sites.append((nid, c, {list_role[f.value.id]: c.args[0]}, f"{f.value.id}.append(...) -> result field"))
    return sites


def _names_in(e):
    return {x.id for x in ast.walk(e) if isinstance(x, ast.Name)}


def _action_base(L):
    a = L.step_call.args[0] if L.step_call.args else None
    if a is None:
        return None
    b = strip_wrappers(a)
    return b.id if isinstance(b, ast.Name) else None


def _obs_var(L, stores, org):
    """The variable holding the *current* observation: bound by a reset (pre-loop or in-loop) or target of a carry
    ``x = <position 0 of step>``; for loops fed through a parameter (A2C/PPO) the carry target."""
    cfg = L.cfg
    cands = {}
    nextvar = L.pos.get(0)
    for n in cfg.nodes:
        for d in n.defs:
            if d.kind == "param":
                continue
            o = org.of_def(d, set())
            if o and all(x[0] == "reset" and x[1] == 0 for x in o):
                cands[d.name] = cands.get(d.name, 0) + 2
            elif o == {("step", 0)} and d.node != L.step_node:
                cands[d.name] = cands.get(d.name, 0) + 1
    if not cands:
        return None
    best = sorted(cands.items(), key=lambda kv: (-kv[1], kv[0]))
    return best[0][0]


def _episode_record(ck, repo):
    """EpisodeDataset keeps one record per step: add_sample must put all four of its arguments (observation, action, successor
    observation, reward) into the element it appends to the current episode.  A representation that keeps one of them elsewhere
    (e.g. only the latest successor) has to reconstruct the per-step value later; that reconstruction is not read here - undecided."""
    from ..nf import NF, Poly
    from ..sympath import enumerate_paths, PathEval
    cq = "rl_blox.algorithm.reinforce.EpisodeDataset"
    m = repo.method(cq, "add_sample")
    if m is None:
        raise AnalysisError(f"{cq}.add_sample not found (anchor vanished)")
    fn = m[1]
    mi = repo.cls(cq)._module
    fn._module = mi
    nf = NF(repo, inline_calls=False)
    cfg = nf.cfg_of(fn)
    params = [p for p in positional_params(fn) if p != "self"]
    if len(params) != 4:
        raise AnalysisError(f"{cq}.add_sample: signature changed (anchor vanished)")
    env0 = {p: Poly.atom(p, {p}, {p}) for p in params}
    for pth in enumerate_paths(cfg, cfg.entry, {cfg.exit}):
        if any(isinstance(cfg.nodes[n_].ast, (ast.Raise, ast.Assert)) and cfg.nodes[n_].kind == "stmt" and isinstance(cfg.nodes[n_].ast, ast.Raise) for n_, _l in pth):
            continue
        pe = PathEval(nf, cfg, mi, cq + ".add_sample", env0).run(pth)
        apps = [v for (_n, key, v) in pe.appended if key.startswith("self.episodes[")]
        if len(apps) != 1:
            raise AnalysisError(f"{cq}.add_sample: {len(apps)} appends to the current episode on a path (unrecognised form)")
        rec = apps[0]
        held = set()
        for el in (rec.elems or [rec]):
            held |= {a for a in el.atoms() if a in params}
        missing = [p for p in params if p not in held]
        if missing:
            raise AnalysisError(f"{cq}.add_sample: the per-step record `{rec.canon()[:80]}` does not hold {missing}: the value is kept elsewhere and reconstructed later (not read by this analysis)")
        ck.ob("R1-store-role", cq + ".add_sample", "record-holds-all-roles", True, f"appends {rec.canon()[:80]}", "", loc(mi, fn))


def _different_value(org, expr, at, wanted) -> bool | None:
    """True when ``expr`` is known to be another value than the protocol value ``wanted``: it depends on other step / reset
    positions.  None when that cannot be told (depends only on the wanted value - possibly an identity wrapper - or on untraceable names)."""
    d = org.deps(expr, at)
    if any(x[0] == "unknown" for x in d):
        return None
    others = {x for x in d if x[0] in ("step", "reset") and x[:2] != wanted[:2]}
    return True if others else None


def run(ck, repo: Repo, tier: str):
    cfgs = {}
    loops = []
    for q in C01_LOOPS:
        loops.append(find_env_loop(repo, q, cfgs))
    ck.floor("env-loops", len(loops), 19)
    n_sites = 0
    n_sites_box = [0]

    def one_loop(L):
        n_sites = 0
        cfg, S = L.cfg, L.step_node
        org = Origins(L)
        org.repo = repo
        site = L.qual
        stores = _store_sites(repo, L, ck)
        n_sites += len(stores)
        ck.need(stores, f"{site}: no store site found (unrecognised idiom)")
        ovar = _obs_var(L, stores, org)
        ck.need(ovar is not None, f"{site}: cannot identify the observation variable at any store site")
        avar = _action_base(L)
        ck.need(avar is not None, f"{site}: env.step argument is not a (wrapped) variable")
        body = cfg.loop_body_nodes(L.outer_header)
        rd = cfg.reaching()
        defs_at_S = rd[S].get(ovar, frozenset())
        act_defs_at_S = rd[S].get(avar, frozenset())

        # ---- R1 / R2(store part) --------------------------------------------------------------
        for nid, call, roles, desc in stores:
            where = loc(L.mi, call)
            after_S = cfg.dominates(S, nid)
            for role, arg in sorted(roles.items()):
                if role in STEP_POS:
                    o = org.of_expr(arg, nid)
                    want = {("step", STEP_POS[role])}
                    ok = (o == want) and after_S
                    why = ""
                    if o != want and Origins.unknown(o) and _different_value(org, arg, nid, ("step", STEP_POS[role])) is None:
                        raise AnalysisError(f"{site}: the {role} argument `{short(arg, 50)}` of the store cannot be traced to the step results ({sorted(map(str, Origins.unknown(o)))[:2]})")
                    if o != want:
                        why = f"origin of the {role} argument is {sorted(map(str, o))}, expected position {STEP_POS[role]} of `{short(L.step_stmt, 60)}`"
                    elif not after_S:
                        why = "store site is not dominated by env.step of the same iteration (value of a previous step)"
                    ck.ob("R1-store-role", site, f"{role}:{desc.split('(')[0]}", ok, f"{role} <- {short(arg, 50)} at {desc}", why, where)
                elif role == "A":
                    # the stored action is the value passed to env.step (same provenance: same definitions, through copies / records)
                    o_st = org.of_expr(arg, nid)
                    o_act = org.of_expr(L.step_call.args[0], S)
                    ok = bool(o_st) and o_st == o_act
                    why = "" if ok else f"stored action `{short(arg, 40)}` does not have the provenance of the action passed to env.step (`{avar}`): {sorted(map(str, o_st))[:2]} vs {sorted(map(str, o_act))[:2]}"
                    if not ok and any(x[0] in ("unpack", "for", "with", "global", "attr-in") for x in o_st | o_act):
                        raise AnalysisError(f"{site}: the stored action `{short(arg, 40)}` cannot be related to the action passed to env.step")
                    ck.ob("R1-store-role", site, f"A:{desc.split('(')[0]}", ok, f"A <- {short(arg, 50)} at {desc}", why, where)
                elif role == "O":
                    b = strip_wrappers(arg)
                    if not isinstance(b, ast.Name):
                        # a field of a record / another expression: judged by provenance
                        o_st, o_ref = org.of_expr(arg, nid), org.of_name(ovar, S)
                        if Origins.unknown(o_st) or Origins.unknown(o_ref):
                            raise AnalysisError(f"{site}: the stored observation `{short(arg, 50)}` cannot be traced (unrecognised form)")
                        ck.ob("R2-obs-provenance", site, f"O-same-as-step:{desc.split('(')[0]}", o_st == o_ref, f"O <- {short(arg, 50)} at {desc}",
                              "" if o_st == o_ref else f"the stored observation originates in {sorted(map(str, o_st))}, the observation env.step acted on in {sorted(map(str, o_ref))}", where)
                        continue
                    if b.id != ovar:
                        ck.ob("R2-obs-provenance", site, f"O-is-current-observation:{desc.split('(')[0]}", False, f"O <- {short(arg, 50)} at {desc}",
                              f"the stored observation is `{b.id}`, not the current-observation variable `{ovar}` the step acted on", where)
                        continue
                    here = rd[nid].get(b.id, frozenset())
                    ref = rd[S].get(b.id, frozenset())
                    between = _defs_between(cfg, S, nid, b.id) if after_S else []
                    if not after_S and cfg.dominates(nid, S):
                        between = _defs_between(cfg, nid, S, b.id)
                    ok = here == ref and not between
                    why = ""
                    if not ok:
                        why = (f"observation `{b.id}` at the store site is defined at lines {_lines(cfg, here)} but env.step acted on the "
                               f"definitions at lines {_lines(cfg, ref)}" + (f"; redefined between step and store at line(s) {between}" if between else ""))
                    ck.ob("R2-obs-provenance", site, f"O-same-as-step:{desc.split('(')[0]}", ok, f"O <- {short(arg, 50)} at {desc}", why, where)

        # ---- R2 provenance of every definition reaching S ------------------------------------------
        for dn, nm in sorted(defs_at_S):
            d = cfg.get_def(dn, nm)
            o = org.of_def(d, set())
            bad = [x for x in o if not (x[0] == "reset" and x[1] == 0) and x != ("step", 0) and x[0] != "param"]
            node = cfg.nodes[dn]
            if bad and Origins.unknown(bad) and not (d.value is not None and isinstance(d.value, ast.AST) and not isinstance(d.value, ast.stmt) and _different_value(org, d.value, dn, ("step", 0)) is True
                                                     and _different_value(org, d.value, dn, ("reset", 0)) is True):
                raise AnalysisError(f"{site}: observation `{nm}` is defined by `{short(node.ast, 60)}`, whose value cannot be traced to reset / step results (unrecognised form)")
            ck.ob("R2-obs-provenance", site, f"def:{_def_kind(L, d)}", not bad,
                  f"`{nm}` defined by `{short(node.ast, 60) if node.kind != 'entry' else 'parameter'}`",
                  "" if not bad else f"observation definition originates in {sorted(map(str, bad))} (neither reset()[0], step()[0] nor a parameter)",
                  loc(L.mi, node.ast))
        ck.need(defs_at_S, f"{site}: observation `{ovar}` has no definition reaching env.step")

        # ---- R3 boundary -------------------------------------------------------------------------------
        all_defs = [(n.id, d) for n in cfg.nodes for d in n.defs if d.name == ovar]
        in_loop_defs = [(i, d) for i, d in all_defs if i in body]
        for r in L.resets_in:
            rn = cfg.nodes[r]
            d = cfg.get_def(r, ovar)
            binds = d is not None and org.of_def(d, set()) == {("reset", 0, r)}
            if not binds:
                # bound through copies (helper results, tuple assignments): a definition of the observation variable whose only origin is this reset
                via = [(i, d2) for i, d2 in in_loop_defs if org.of_def(d2, set()) == {("reset", 0, r)} and cfg.paths_avoiding(r, i, {S}) is not None]
                if via:
                    binds = True
                    r_bind = via[0][0]
                elif any(Origins.unknown(org.of_def(d2, set())) for i, d2 in in_loop_defs):
                    raise AnalysisError(f"{site}: cannot tell whether `{short(rn.ast, 50)}` binds the observation variable `{ovar}` (values pass through untraceable definitions)")
            ck.ob("R3-boundary", site, "reset-binds-observation", binds, f"`{short(rn.ast, 60)}`",
                  "" if binds else f"in-loop reset does not bind the observation variable `{ovar}` (its observation is discarded)", loc(L.mi, rn.ast))
            if not binds:
                continue
            # no other definition reachable from r without passing S
            offenders = []
            r_from = locals().get("r_bind", r) if not (d is not None and org.of_def(d, set()) == {("reset", 0, r)}) else r
            for i, d2 in in_loop_defs:
                if i == r or i == S or i == r_from:
                    continue
                p = cfg.paths_avoiding(r_from, i, {S})
                if p is not None:
                    offenders.append((i, p))
            ok = not offenders
            wit = None
            why = ""
            if offenders:
                i, p = offenders[0]
                why = (f"the reset observation is overwritten by `{short(cfg.nodes[i].ast, 50)}` (line {cfg.nodes[i].lineno}) before the next env.step: "
                       f"the first transition of the new episode starts from a stale observation")
                wit = cfg.describe_path(p)
            ck.ob("R3-boundary", site, "reset-reaches-next-step", ok, f"`{short(rn.ast, 50)}` -> next `{short(L.step_stmt, 40)}`", why, loc(L.mi, rn.ast), wit)
        # staleness: every cycle S -> S redefines the observation
        defnodes = {i for i, _ in all_defs}
        stale = None
        if S not in defnodes:
            stale = cfg.paths_avoiding(S, S, defnodes)
        ck.ob("R3-boundary", site, "no-stale-observation", stale is None, f"every path from `{short(L.step_stmt, 40)}` back to itself redefines `{ovar}`",
              "" if stale is None else f"a path from env.step back to env.step never updates `{ovar}`: the next action and transition use a stale observation",
              loc(L.mi, L.step_stmt), cfg.describe_path(stale) if stale else None)
        if not L.vector:
            ck.ob("R3-boundary", site, "has-in-loop-reset", bool(L.resets_in), f"{len(L.resets_in)} in-loop reset(s)",
                  "" if L.resets_in else "single-environment loop without an in-loop reset", loc(L.mi, L.step_stmt))

        # ---- R4 act site ----------------------------------------------------------------------------------
        nextvar = L.pos.get(0)
        used = _obs_uses_in_action(cfg, L, avar, ovar, nextvar, body)
        pol = [u for u in used if u[0] == ovar]
        if not pol and not any(isinstance(x, ast.Name) and x.id == ovar and isinstance(x.ctx, ast.Load) for nid_ in body if cfg.nodes[nid_].ast is not None for x in ast.walk(cfg.nodes[nid_].ast)):
            raise AnalysisError(f"{site}: the observation variable `{ovar}` is never read in the loop (the observation is kept elsewhere: unrecognised form)")
        ck.ob("R4-act-on-current", site, "policy-sees-observation", bool(pol), f"action `{avar}` computed from `{ovar}` at {len(pol)} site(s)",
              "" if pol else f"no definition of the action reaching env.step reads the current observation `{ovar}`", loc(L.mi, L.step_stmt))
        for name, at, expr in used:
            node = cfg.nodes[at]
            if name == nextvar and name != ovar:
                ck.ob("R4-act-on-current", site, "acts-on-successor", False, f"`{short(expr, 60)}`",
                      f"the action passed to env.step is computed from `{name}` (successor observation of the previous step), not from the current observation", loc(L.mi, node.ast))
                continue
            here = rd[at].get(name, frozenset())
            between = _defs_between(cfg, at, S, name)
            ok = here == defs_at_S and not between
            ck.ob("R4-act-on-current", site, "same-observation-as-stored", ok, f"`{short(expr, 60)}`",
                  "" if ok else f"the observation read when acting (defs at lines {_lines(cfg, here)}) differs from the one stored (lines {_lines(cfg, defs_at_S)})",
                  loc(L.mi, node.ast))
        n_sites_box[0] += n_sites

    for L in loops:
        ck.guard(one_loop, L)
    ck.guard(_episode_record, ck, repo)
    n_sites = n_sites_box[0]
    ck.count("store-sites", n_sites)
    ck.floor("store-sites", n_sites, 24)


def _lines(cfg, ds):
    return sorted({cfg.nodes[i].lineno for i, _ in ds})


def _def_kind(L, d):
    if d.kind == "param":
        return "param"
    if d.node == L.step_node:
        return "step-binds"
    if d.node in L.resets_in:
        return "in-loop-reset"
    if d.node in L.resets_pre:
        return "pre-loop-reset"
    return f"copy:{ast.unparse(d.value)[:30] if d.value is not None else d.kind}"


def _defs_between(cfg: CFG, a: int, b: int, name: str):
    """Lines of definitions of ``name`` lying on a path a -> b that does not re-enter a (intra-iteration)."""
    out = []
    for n in cfg.nodes:
        if n.id in (a, b):
            continue
        if any(d.name == name for d in n.defs):
            p1 = cfg.paths_avoiding(a, n.id, {b, a})
            p2 = cfg.paths_avoiding(n.id, b, {a}) if p1 is not None else None
            if p1 is not None and p2 is not None:
                out.append(n.lineno)
    return sorted(out)


def _obs_uses_in_action(cfg, L, avar, ovar, nextvar, body, depth=4):
    """Backward slice from the action reaching env.step: (obs-like name, node, expr) uses."""
    out, seen = [], set()
    H = L.loop_header
    # only definitions made earlier in the *same* iteration (S reachable without passing the loop header) are followed
    pre_S = {n.id for n in cfg.nodes if n.id in body and n.id != L.step_node and cfg.paths_avoiding(n.id, L.step_node, {H}) is not None}
    work = [(d, 0) for d in cfg.defs_of(L.step_node, avar) if d.node in pre_S]
    targets = {ovar, nextvar} - {None}
    while work:
        d, k = work.pop()
        if (d.node, d.name) in seen or d.value is None:
            continue
        seen.add((d.node, d.name))
        val = d.value.value if isinstance(d.value, ast.AugAssign) else d.value
        for x in ast.walk(val):
            if isinstance(x, ast.Name) and isinstance(x.ctx, ast.Load):
                if x.id in targets:
                    out.append((x.id, d.node, val))
                elif k < depth:
                    for d2 in cfg.defs_of(d.node, x.id):
                        if d2.node in pre_S and d2.kind in ("assign", "unpack"):
                            work.append((d2, k + 1))
    # de-duplicate
    uniq = {}
    for name, at, e in out:
        uniq[(name, at)] = (name, at, e)
    return list(uniq.values())


# ---- self-validation variants (thorough tier) ------------------------------------------------------------
_TD3 = "rl_blox/algorithm/td3.py"
MUTANTS = [
    {"id": "c01-td3-carry-before-store", "file": _TD3, "rule": "R2",
     "find": "        steps_per_episode += 1\n        accumulated_reward += reward\n\n        replay_buffer.add_sample(",
     "replace": "        steps_per_episode += 1\n        accumulated_reward += reward\n        obs = next_obs\n\n        replay_buffer.add_sample("},
    {"id": "c01-td3-next-is-obs", "file": _TD3, "rule": "R1", "find": "next_observation=next_obs,", "replace": "next_observation=obs,"},
    {"id": "c01-td3-term-is-trunc", "file": _TD3, "rule": "R1", "find": "termination=termination,", "replace": "termination=truncated,"},
    {"id": "c01-td3-policy-next-obs", "file": _TD3, "rule": "R4", "find": "_sample_actions(policy, jnp.asarray(obs), action_key)", "replace": "_sample_actions(policy, jnp.asarray(next_obs), action_key)"},
    {"id": "c01-td3-reset-discarded", "file": _TD3, "rule": "R3", "find": "            obs, _ = env.reset()\n            steps_per_episode = 0", "replace": "            env.reset()\n            obs = next_obs\n            steps_per_episode = 0"},
    {"id": "c01-sac-unconditional-carry", "file": "rl_blox/algorithm/sac.py", "rule": "R3", "find": "        else:\n            obs = next_obs\n\n        progress.update()", "replace": "        obs = next_obs\n\n        progress.update()"},
    {"id": "c01-dqn-reward-stale", "file": "rl_blox/algorithm/dqn.py", "rule": "R1",
     "find": "        next_obs, reward, terminated, truncated, info = env.step(int(action))\n        accumulated_reward += reward\n        replay_buffer.add_sample(\n            observation=obs,\n            action=action,\n            reward=reward,\n            next_observation=next_obs,\n            termination=terminated,\n        )",
     "replace": "        replay_buffer.add_sample(\n            observation=obs,\n            action=action,\n            reward=reward,\n            next_observation=next_obs,\n            termination=terminated,\n        ) if step > global_step else None\n        next_obs, reward, terminated, truncated, info = env.step(int(action))\n        accumulated_reward += reward"},
    {"id": "c01-qlearning-swapped-obs", "file": "rl_blox/algorithm/q_learning.py", "rule": "R", "find": "            q_table,\n            observation,\n            action,\n            reward,\n            next_observation,\n            next_action,", "replace": "            q_table,\n            next_observation,\n            action,\n            reward,\n            observation,\n            next_action,"},
    {"id": "c01-mc-store-after-step", "file": "rl_blox/algorithm/monte_carlo.py", "rule": "R2",
     "find": "        obs_arr = obs_arr.at[i].set(int(observation))\n        observation, reward, terminated, truncated, info = env.step(int(action))\n",
     "replace": "        observation, reward, terminated, truncated, info = env.step(int(action))\n        obs_arr = obs_arr.at[i].set(int(observation))\n"},
    {"id": "c01-dynaq-no-carry-on-done", "file": "rl_blox/algorithm/dynaq.py", "rule": "R3", "find": "            obs, _ = env.reset()\n            accumulated_reward = 0.0", "replace": "            env.reset()\n            accumulated_reward = 0.0"},
    {"id": "c01-reinforce-stored-action-differs", "file": "rl_blox/algorithm/reinforce.py", "rule": "R1",
     "find": "        dataset.add_sample(observation, action, next_observation, reward)", "replace": "        action = np.asarray(sample(policy, jnp.array(observation), subkey))\n        dataset.add_sample(observation, action, next_observation, reward)"},
    {"id": "c01-a2c-store-next-obs", "file": "rl_blox/algorithm/a2c.py", "rule": "R2", "find": "            obs=obs,\n            actions=action,", "replace": "            obs=next_obs,\n            actions=action,"},
    {"id": "c01-mrq-trunc-term-swap", "file": "rl_blox/algorithm/mrq.py", "rule": "R1", "find": "            terminated=terminated,\n            truncated=truncated,", "replace": "            terminated=truncated,\n            truncated=terminated,"},
    {"id": "c01-ddpg-stale-sometimes", "file": "rl_blox/algorithm/ddpg.py", "rule": "R3", "find": "        else:\n            obs = next_obs\n\n    return namedtuple(\n        \"DDPGResult\"", "replace": "        elif steps_per_episode % 7 != 0:\n            obs = next_obs\n\n    return namedtuple(\n        \"DDPGResult\""},
]
BENIGN = [
    {"id": "c01-b-ddpg-elif-not-truncated", "file": "rl_blox/algorithm/ddpg.py", "find": "        else:\n            obs = next_obs\n\n    return namedtuple(\n        \"DDPGResult\"", "replace": "        elif not truncated:\n            obs = next_obs\n\n    return namedtuple(\n        \"DDPGResult\""},
    {"id": "c01-b-td3-ifexp-carry", "file": _TD3, "find": "        else:\n            obs = next_obs\n\n        bar.update()", "replace": "        else:\n            obs = np.asarray(next_obs)\n\n        bar.update()"},
    {"id": "c01-b-td3-rename", "file": _TD3, "all": True, "find": "next_obs", "replace": "succ_observation"},
    {"id": "c01-b-td3-logging", "file": _TD3, "find": "        steps_per_episode += 1\n        accumulated_reward += reward\n", "replace": "        steps_per_episode += 1\n        accumulated_reward += reward\n        if logger is not None:\n            logger.record_stat(\"r\", reward)\n"},
    {"id": "c01-b-dqn-reward-float", "file": "rl_blox/algorithm/dqn.py", "find": "        accumulated_reward += reward\n        replay_buffer.add_sample(", "replace": "        reward = float(reward)\n        accumulated_reward += reward\n        replay_buffer.add_sample("},
    {"id": "c01-b-sarsa-reset-first", "file": "rl_blox/algorithm/sarsa.py", "find": "            steps_per_episode = 0\n            observation, _ = env.reset()", "replace": "            observation, _ = env.reset()\n            steps_per_episode = 0"},
    {"id": "c01-b-reinforce-carry-in-else", "file": "rl_blox/algorithm/reinforce.py",
     "find": "        observation = next_observation\n\n        if done:", "replace": "        if not done:\n            observation = next_observation\n\n        if done:"},
]
