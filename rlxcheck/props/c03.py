"""C03 - critic and representation losses implement their documented targets per sample."""
from __future__ import annotations

import ast
import re
from collections import Counter
from fractions import Fraction

from ..effects import expr_path
from ..identity import Ident, has_base, show, alternatives
from ..loops import dotted
from ..nf import NF, Scope, Poly, parse_expr
from ..repo import Repo, loc, short, AnalysisError, bind_call, positional_params, param_names
from ..resolve import Resolver
from ..specialise import load_signatures
from .c05 import grad_sites

EXPLANATION = (
    "Each loss is brought to a normal form by def-use inlining (helpers such as mse_*_loss, _mse_clipped_double_q_loss and any newly "
    "introduced straight-line helper are inlined), with squared errors kept as atoms sq(P - T). Every regression site is destructured "
    "into the part that depends differentiably on the online module (prediction P) and the rest (target T); T is then checked as a "
    "polynomial identity T == R + (1 - D) * gamma * B over the role atoms R = batch[2], D = batch[4] (whatever the syntactic "
    "arrangement), the bootstrap B is compared with the documented kind through a census of its calls (which module on which role "
    "data under which combining operation), and gradient dependence is tracked through stop_gradient / argmax. R7 transfers the "
    "roles to the callers: the module bound to a target role at every train_step call is a target object of that loop. Parameters "
    "take their roles from the recorded signatures (by name, a renamed one by its position). A comparison that fails counts as a "
    "violation only on a value the engine has read completely and that is built from the documented vocabulary (a substituted module, "
    "role, operation, axis, constant or sign); anything else is reported as an unrecognised form (undecided). "
    "R8 reads the MR.Q encoder loss by evaluation instead of by shape: for a horizon of 3 and each of the 8 patterns of termination flags the value the "
    "function returns is computed with the roll-out unrolled step by step (scan carry / broadcast / scanned arguments bound by in_axes, helpers and "
    "masked_mse_loss evaluated through, records and comprehensions read); in a world the flags are numbers, so whatever builds the post-terminal weight "
    "(carried product, cumprod / cumsum tables, where, logical operations, time-major scanning, a weight applied after the scan) folds to a number, while "
    "network outputs and error terms stay symbolic and carry the step they were computed in. The errors of steps after the first terminated one must "
    "vanish, those of the steps up to and including it must be the ones of the world without termination; a world and a step where this fails is the witness. "
    "Carriers are read through: position i / field f of a NamedTuple a helper returns is the constructor argument it was built with (also for the two results of "
    "discounted_n_step_return), nnx.scan(f, in_axes=.., out_axes=..)(args) is the decorator written as a call, and a batch is the result of sample_batch also when "
    "the method was bound to a name, wrapped in functools.partial or chosen by a conditional expression."
)
TRUSTED = [
    "optax.squared_error / l2_loss / huber_loss, jnp semantics of max / minimum / take_along_axis / clip",
    "the sampled Batch field order (observation, action, reward, next_observation, termination) parsed from ReplayBuffer.__init__",
    "jax.lax.stop_gradient blocks differentiation; argmax / comparisons have zero gradient",
    "network outputs and batch fields are 2-d / 1-d arrays: axis=-1 and axis=1 name the same axis",
    "R8: nnx.scan / jax.lax.scan carry-and-stack semantics; the subtrajectory fields are (batch, time) arrays of length encoder_horizon; termination flags are 0/1; "
    "a mean / sum over the batch is linear (the per-sample reading of a reduced term is kept); horizon 3 stands for every horizon; shapes / broadcasting are C07's",
]
RULES = {
    "R1-target-identity": "the regression target is identically r + (1 - terminated) * gamma * B (MR.Q: (G + c*B*s_target)/s); terminated samples carry no bootstrap term",
    "R2-bootstrap-kind": "B consists of exactly the documented calls (module, role data, combining operation): max / double-Q selection / clipped min / entropy term / value clip; "
                         "double-Q: for every order of the online action values (ties included) the bootstrap is the target value of one maximising action",
    "R3-prediction": "the prediction is the online module on (observation, action) and depends on no target-role module",
    "R4-stop-gradient": "nothing but the prediction depends differentiably on the differentiated module",
    "R5-regression-form": "the loss is the documented regression of P onto T (squared error / Huber of |P - T| / importance-weighted), one site per critic head",
    "R6-representation": "SALE: mean sq(zsa(o,a) - sg(zs(o'))); the embedding target is gradient-stopped",
    "R7-caller-roles": "at every call of a critic update in a training loop the target-role parameters receive target objects, the differentiated one the online object, "
                       "the batch comes from sample_batch and gamma is the gamma parameter",
    "R8-rollout-mask": "MR.Q encoder loss: for every pattern of termination flags in a subtrajectory, the errors of the roll-out steps after the first terminated "
                       "transition contribute nothing and the steps up to and including it contribute as if nothing had terminated",
}

L = "rl_blox.blox.losses."
ROLE = {"O": "batch[0]", "A": "batch[1]", "R": "batch[2]", "N": "batch[3]", "D": "batch[4]"}

# loss -> spec (parameter names are those of the recorded signatures).  census entries were generated from the pinned tree and confirmed against the
# docstrings (Appendix A of DESIGN.md); they are compared as sets, layout operations (reshape / squeeze / astype ...) are not part of them.
SPEC = {
    L + "dqn_loss": {"theta": "q", "targets": [], "n_sites": 1, "kind": ["sq"],
                     "census": ["max(axis=1) <- {N}", "q <- {N}"]},
    L + "nature_dqn_loss": {"theta": "q", "targets": ["q_target"], "n_sites": 1, "kind": ["sq"],
                            "census": ["max(axis=1) <- {N}", "q_target <- {N}"]},
    L + "ddqn_loss": {"theta": "q", "targets": ["q_target"], "n_sites": 1, "kind": ["sq"],
                      "census": ["argmax(axis=1) <- {N}", "argmax>q <- {N}", "q_target <- {N}", "take_along_axis(axis=1) <- {N}"]},
    L + "ddqn_per_loss": {"theta": "q", "targets": ["q_target"], "n_sites": 1, "kind": ["sq"], "weight": "is_ratio",
                          "census": ["argmax(axis=1) <- {N}", "argmax>q <- {N}", "q_target <- {N}", "take_along_axis(axis=1) <- {N}"]},
    L + "ddpg_loss": {"theta": "q", "targets": ["q_target_value", "policy_target"], "n_sites": 1, "kind": ["sq"],
                      "census": ["concat(axis=1) <- {N}", "policy_target <- {N}", "q_target_value <- {N}"]},
    L + "td3_loss": {"theta": "q", "targets": ["q_target"], "n_sites": 2, "kind": ["sq"],
                     "census": ["concat(axis=1) <- {N}", "q_target <- {N}"]},
    L + "td3_lap_loss": {"theta": "q", "targets": ["q_target"], "n_sites": 2, "kind": ["huber_abs"],
                         "census": ["concat(axis=1) <- {N}", "q_target <- {N}"]},
    L + "sac_loss": {"theta": "q", "targets": ["q_target"], "n_sites": 2, "kind": ["sq"],
                     "census": ["concat(axis=1) <- {N}", "policy.log_probability <- {N}", "policy.sample <- {N}", "q_target <- {N}"],
                     "entropy": True},
}


# ---- what counts as evidence ----------------------------------------------------------------------------------
_TEMP = re.compile(r"__i\d+\b")                                   # a temporary of the helper expander that stayed a free name
_LEAF = re.compile(r"(batch\[\d+\]|[A-Za-z_]\w*)")                # a role atom or a plain parameter
_MODCALL = re.compile(r"⊥?[A-Za-z_]\w*(\.[A-Za-z_]\w*)*")         # `q`, `q.q1`, `policy.sample`: a (method of a) parameter being called
_RECORD = re.compile(r"(⊥)?rl_blox\.[\w.]+\._?[A-Z]\w*\(")


def _has_record(nf, a, depth=0):
    m = nf.meta.get(a)
    if m is None or depth > 8:
        return False
    if m.get("record"):
        return True
    return any(_has_record(nf, b, depth + 1) for q in list(m.get("args", [])) + list(m.get("kws", {}).values()) for b in q.atoms())


def _unread(nf, *polys):
    """The first atom of the given values that the engine has not read: a merge of definitions φ(..), an opaque expression ⟦..⟧ / λ[..], a
    temporary of the helper expander that is still a free name, a record value, a stop_gradient that was not interpreted.  A comparison
    made on such a value is not evidence of anything."""
    for p in polys:
        if p is None:
            continue
        if p.elems is not None:
            u = _unread(nf, *p.elems)
            if u is not None:
                return u
            continue
        for a in sorted(p.atoms()):
            if "φ(" in a or "⟦" in a or "λ[" in a or _TEMP.search(a) or "stop_gradient" in a or _RECORD.match(a) or _has_record(nf, a):
                return a
    return None


def _nested(nf, p: Poly, leaves):
    """An atom of ``p`` that depends on one of ``leaves`` without being that leaf: the polynomial reading of ``p`` in the leaf is incomplete there
    (`where(terminated, ..)`, `logical_not(terminated)`, `pow(gamma, n)` ...)."""
    for a in sorted(p.atoms()):
        if a not in leaves and (set(leaves) & set(nf.atom_deps(a))):
            return a
    return None


class _Site:
    """Obligations of one rule group.  A failing comparison is recorded as a violation only when every value it was decided on has been read by
    the engine; the undecided ones are collected and raised together when the group is closed (obligations recorded meanwhile stay, so a
    definite violation found next to an unrecognised form is still reported)."""

    def __init__(self, ck, nf, site, where):
        self.ck, self.nf, self.site, self.where, self.und = ck, nf, site, where, []

    def ob(self, rule, key, ok, construct, detail="", read=(), where=None):
        ok = bool(ok)
        if not ok:
            u = _unread(self.nf, *read)
            if u is not None:
                return self.undecided(key, f"decided on a value the engine has not read, `{u[:80]}`")
        self.ck.ob(rule, self.site, key, ok, construct, "" if ok else detail, where or self.where)
        return ok

    def undecided(self, key, msg):
        self.und.append(f"{self.site}: {key}: {msg} (unrecognised form)")
        return None

    def close(self):
        if self.und:
            raise AnalysisError("; ".join(self.und[:4]))


_SIGS = None


def _roles_env(repo, fn, qual):
    """(env, renamed): every parameter bound to an atom that carries the name of the *recorded* signature (the names the tables of this file use).
    A parameter keeps its recorded name where that still exists; one that was renamed takes the role of the recorded parameter at its
    position - only when the two signatures line up one to one (options added later, which the specialise pass reads at their defaults,
    do not count)."""
    global _SIGS
    if _SIGS is None:
        _SIGS = load_signatures()
    rec = _SIGS.get(qual)
    actual = param_names(fn)
    ren = {}
    if rec:
        special = {p for q_, p, _d in (getattr(repo, "specialised", None) or []) if q_ == qual}
        core = [a for a in actual if a not in special]
        if len(core) == len(rec):
            for a, c in zip(core, rec):
                if a != c and a not in rec and c not in actual:
                    ren[a] = c
    env = {}
    for a in actual:
        c = ren.get(a, a)
        env[a] = Poly.atom(c, {c}, {c})
    return env, ren


def _actual(ren, canon):
    return next((a for a, c in ren.items() if c == canon), canon)


def _ret(nf, qual, env):
    try:
        return nf.return_poly(qual, env)
    except ValueError as e:
        raise AnalysisError(f"{e} (unrecognised form)")


class _NF(NF):
    """The normal-form engine with one more reading: position i of a plain record (NamedTuple / dataclass carrier built by a helper and unpacked
    or indexed by the caller) is the i-th constructor argument in field order - the value the helper put there - not an opaque component."""

    def _project(self, p, path):
        for i in path:
            m = self.meta.get(p.single_atom() or "", {}) if p.elems is None else {}
            if isinstance(i, int) and m.get("record") and 0 <= i < len(m.get("args", [])) and len(m["args"]) == len(m["record"]):
                p = m["args"][i]
            else:
                p = super()._project(p, (i,))
        return p


def _loss_of(nf, ret: Poly) -> Poly:
    """The loss value of a returned (loss, aux): first element of the tuple display, first field of a plain record (NamedTuple carrier)."""
    if ret.elems is not None:
        return ret.elems[0]
    m = nf.meta.get(ret.single_atom() or "")
    if m and m.get("record") and m.get("args"):
        return m["args"][0]
    return ret


# ---- census of the bootstrap ------------------------------------------------------------------------------------
_LAYOUT = {"squeeze", "asarray", "array", "reshape", "expand_dims", "astype", "arange", "len", "ravel", "flatten", "atleast_1d", "int", "float", "copy",
           "float32", "float64", "int32", "shape"}
_AXIS_AT = {"max": 1, "min": 1, "argmax": 1, "argmin": 1, "concat": 1, "take_along_axis": 2, "mean": 1, "sum": 1}
_KNOWN_OPS = set(_AXIS_AT) | {"minimum", "maximum", "clip"}
_FAMILY = {"max": "extremum", "min": "extremum", "argmax": "selection", "argmin": "selection", "minimum": "pairwise", "maximum": "pairwise"}
_VALUE_CHANGING = {"tanh", "exp", "log", "log1p", "sqrt", "abs", "square", "sigmoid", "softplus", "relu", "sin", "cos", "sign", "pow", "negative", "logsumexp", "softmax"}


def _norm_fn(fn: str) -> str:
    return {"concatenate": "concat", "hstack": "concat", "column_stack": "concat", "amax": "max", "amin": "min"}.get(fn, fn)


def _axis(fn, name, m):
    ax = m["kws"].get("axis")
    at = _AXIS_AT.get(name)
    pos = None
    if ax is None and at is not None and len(m["args"]) > at and m["args"][at].elems is None and m["args"][at].is_const():
        ax, pos = m["args"][at], at
    if ax is None:
        return ("1" if fn in ("hstack", "column_stack") else None), pos
    txt = ax.canon()
    return ("1" if txt == "-1" else txt), pos       # outputs and batch fields are 2-d: the last axis is axis 1


def census(nf: NF, p: Poly, params: set):
    """(entries, unknown).  entries: sorted set of the calls occurring in poly ``p`` (recursively): '[argmax>]fn(axis=..) <- {roles}' for calls of
    module parameters and for value-carrying library operations (layout operations are skipped; axis read by keyword or position, -1 == 1).
    Module calls nested under an argmax (action *selection*) are marked, so selection and evaluation nets cannot be swapped.
    unknown: what the census could not read (functions outside its vocabulary, subscripts whose index it does not see, opaque atoms)."""
    out, unknown = set(), []
    inv = {v: k for k, v in ROLE.items()}

    def visit_atom(a, ctx):
        m = nf.meta.get(a)
        if m is None:
            if not (re.fullmatch(r"[A-Za-z_][\w.]*|batch\[\d+\]|'.*'", a.lstrip("⊥"))):
                unknown.append(a)
            return
        fn = m["fn"]
        sub = ctx
        skip = None
        if fn == "subscript":
            unknown.append(a)                       # the index expression is not part of the recorded arguments
        elif fn and fn not in ("attr", "proj", "sq"):
            root = fn.lstrip("⊥").split(".")[0]
            roles = sorted({inv[d] for d in m["deps"] if d in inv})
            if (not roles or "batch" in m["deps"]) and ((_MODCALL.fullmatch(fn) and root in params) or (fn.isidentifier() and _norm_fn(fn) not in _LAYOUT)):
                unknown.append(f"{fn} on data whose batch fields are not visible")
            if _MODCALL.fullmatch(fn) and root in params:
                out.add(f"{ctx}{fn.lstrip('⊥')} <- {{{','.join(roles)}}}")
            elif fn.isidentifier():
                name = _norm_fn(fn)
                if name not in _LAYOUT:
                    ax, skip = _axis(fn, name, m)
                    if ax is not None and not re.fullmatch(r"-?\d+", ax):
                        unknown.append(f"{name} along the computed axis {ax[:40]}")
                    if name in ("max", "min") and len(m["args"]) >= 2:
                        unknown.append(f"{name} with positional arguments")      # jnp.max(x, 1) and the builtin max(x, 1) have one normal form (arguments ordered)
                    out.add(f"{name}{'(axis=' + ax + ')' if ax is not None else ''} <- {{{','.join(roles)}}}")
                    if name not in _KNOWN_OPS and name not in _VALUE_CHANGING:
                        unknown.append(name)
                if name in ("argmax", "argmin"):
                    sub = ctx + name + ">"
            else:
                unknown.append(fn)                  # neither a module parameter nor a library function: a helper that was not inlined, a method of a value
        for i, q in enumerate(m["args"]):
            if i != skip:
                visit_poly(q, sub)
        for k, q in m["kws"].items():
            if k != "axis":
                visit_poly(q, sub)

    def visit_poly(q, ctx):
        if q.elems is not None:
            for e in q.elems:
                visit_poly(e, ctx)
            return
        for a in sorted(q.atoms()):
            visit_atom(a, ctx)

    visit_poly(p, "")
    return sorted(out), unknown


def census_verdict(cen, unknown, want, params):
    """True: the documented census.  False: the whole bootstrap was read and differs by a *substitution* inside the documented vocabulary (another
    module / role / selection context, max<->min, another axis) or passes through a value-changing function.  Otherwise a text saying why the
    difference is not evidence (an operation outside the vocabulary, calls missing or added without counterpart)."""
    got, want = set(cen), set(want)
    if got == want:
        return True
    extra, missing = got - want, want - got
    if unknown:
        return f"the bootstrap contains `{str(unknown[0])[:60]}`, which the census does not read"

    def name(e):
        return e.split(" <- ")[0].split(">")[-1].split("(")[0]

    def cat(e):
        n = name(e)
        return "module" if n.split(".")[0] in params else _FAMILY.get(n, n)
    if any(name(e) in _VALUE_CHANGING for e in extra):
        return False
    if extra and missing and Counter(map(cat, extra)) == Counter(map(cat, missing)):
        return False
    return f"bootstrap calls {sorted(got)} are neither the documented {sorted(want)} nor a substitution within them"


# ---- regression sites ----------------------------------------------------------------------------------------------
def regression_sites(nf: NF, Lp: Poly):
    """Destructure a loss poly into [(X, kind, weight atoms, coefficient)], or raise AnalysisError."""
    sites = []
    for mono, c in sorted(Lp.terms.items()):
        if len(mono) != 1 or mono[0][1] != 1:
            raise AnalysisError(f"loss term `{Poly({mono: c}).canon()[:80]}` is not c * mean(...) (unrecognised regression form)")
        m = nf.meta.get(mono[0][0])
        if not m or m["fn"] != "mean":
            raise AnalysisError(f"loss term `{mono[0][0][:80]}` is not a mean (unrecognised regression form)")
        inner = m["args"][0]
        if len(inner.terms) != 1:
            raise AnalysisError(f"loss term `{mono[0][0][:80]}` is not the mean of one product (unrecognised regression form)")
        (imono, ic), = inner.terms.items()
        err, weights = None, []
        for a, e in imono:
            am = nf.meta.get(a)
            fn = am["fn"] if am else ""
            if fn == "sq" and e == 1:
                err = ("sq", am["args"][0], None)
            elif fn == "abs" and e == 2:
                err = ("sq", am["args"][0], None)           # |x|^2 == x^2
            elif fn == "huber" and e == 1:
                # optax.huber_loss(P, T, delta=1.0) read by the engine as huber(|P - T|)
                ab = am["args"][0]
                abm = nf.meta.get(ab.single_atom() or "")
                dl = am["kws"].get("delta", Poly.const(1))
                if abm and abm["fn"] == "abs":
                    err = ("huber_abs", abm["args"][0], dl)
                else:
                    err = ("huber_signed", ab, dl)
            elif fn == "huber_loss" and e == 1 and len(am["args"]) == 3 and not am["kws"]:
                # optax.huber_loss(P, T, delta) with positional delta (takes |P - T| itself)
                err = ("huber_abs", am["args"][0] - am["args"][1], am["args"][2])
            elif fn.endswith("losses.huber_loss") and fn.startswith("rl_blox.") and e == 1 and am["args"]:
                ab = am["args"][0]
                abm = nf.meta.get(ab.single_atom() or "")
                dl = am["args"][1] if len(am["args"]) > 1 else am["kws"].get("delta")
                if abm and abm["fn"] == "abs":
                    err = ("huber_abs", abm["args"][0], dl)
                else:
                    err = ("huber_signed", ab, dl)
            else:
                weights.append((a, e))
        if err is None:
            raise AnalysisError(f"no error atom in loss term `{mono[0][0][:80]}` (unrecognised regression form)")
        sites.append({"kind": err[0], "X": err[1], "delta": err[2], "weights": weights, "coef": c * ic})
    return sites


def split_pt(nf: NF, X: Poly, theta: str):
    """X = +-(P - T): P = the terms depending differentiably on theta."""
    P, rest = Poly({}), Poly({})
    for mono, c in X.terms.items():
        if theta in nf.term_gdeps(mono):
            P = P + Poly({mono: c})
        else:
            rest = rest + Poly({mono: c})
    return P, rest


def _raw_prediction(nf, atom, theta):
    """The atom is an output of the online module itself (a call of `theta` / of one of its heads, possibly indexed), not a function of one."""
    for _ in range(6):
        m = nf.meta.get(atom or "")
        if m is None:
            return False
        fn = m["fn"]
        if fn in ("subscript", "proj", "attr") and m["args"]:
            atom = m["args"][0].single_atom()
            continue
        return bool(_MODCALL.fullmatch(fn)) and fn.lstrip("⊥").split(".")[0] == theta
    return False


def _signed_evidence(nf, X, theta):
    """`huber(X)` with X not |..|: X is the signed error only when the online prediction itself enters it linearly; an X that is some other
    function of the prediction (where / sqrt / maximum ... possibly another way of writing the absolute value) has not been read."""
    P, _ = split_pt(nf, X, theta)
    return bool(P.terms) and all(len(mono) == 1 and mono[0][1] == 1 and _raw_prediction(nf, mono[0][0], theta) for mono in P.terms)


def _kind(S, nf, s, theta, tag):
    if s["kind"] == "huber_signed" and not _signed_evidence(nf, s["X"], theta):
        return S.undecided(f"{tag}:kind", f"Huber of `{s['X'].canon()[:80]}`, which is neither |P - T| nor a signed error P - T")
    return s["kind"]


def _prediction(S, nf, tag, X, theta):
    """(sign, P, rest) for X = sign * (P - T) when exactly the prediction depends differentiably on theta; None when violated / undecided."""
    P, rest = split_pt(nf, X, theta)
    key = f"{tag}:single-differentiable-term"
    if not P.terms:
        return S.undecided(key, f"no term of the regression depends differentiably on `{theta}` as far as the normal form shows")
    if len(P.terms) == 1 and list(P.terms.values())[0] not in (1, -1):
        return S.undecided(key, f"the prediction enters the error scaled: `{P.canon()[:80]}`")
    okp = len(P.terms) == 1
    r = S.ob("R4-stop-gradient", key, okp, f"terms depending differentiably on `{theta}`: {P.canon()[:120]}",
             f"besides the prediction, the target side depends differentiably on `{theta}` (missing stop_gradient): its gradient is not the documented semi-gradient", read=[P])
    if r is not True:
        return None
    return list(P.terms.values())[0], P, rest


def _target_side_frozen(S, nf, tag, rest, frozen_roles):
    """The property's gradient clause: the regression target carries no gradient to target networks, target policies and the bootstrap inputs
    (successor observation, successor action).  Decided on the gradient-dependence sets of the normal form (cleared by stop_gradient, kept by
    every differentiable operation): positive evidence is a role that reaches the target side differentiably."""
    g = nf.gdeps_of(rest)
    leak = sorted(g & set(frozen_roles))
    S.ob("R4-stop-gradient", f"{tag}:target-side-frozen", not leak,
         f"target side depends differentiably on {sorted(g)}" if leak else f"no gradient path from the target side to {sorted(frozen_roles)}",
         f"the regression target depends differentiably on {leak} (stop_gradient missing on the bootstrap): the gradient of the loss with respect to "
         f"target networks / bootstrap inputs is not zero", read=[rest])


def target_identity(T: Poly, gamma="gamma"):
    """Check T == R + (1-D)*gamma*B ; return (ok, B, reason)."""
    R, D = ROLE["R"], ROLE["D"]
    parts = T.degree_split(D)
    if not set(parts) <= {0, 1}:
        return False, None, f"target is not affine in the termination flag (degrees {sorted(parts)})"
    T0, T1 = parts.get(0, Poly({})), parts.get(1, Poly({}))
    Xb = T0 - Poly.atom(R)
    if not (T1 + Xb).is_zero():
        if T1.is_zero():
            return False, None, "the bootstrap term is not multiplied by (1 - terminated): a terminated transition still bootstraps"
        return False, None, f"target is not r + (1 - terminated) * X: the terminated-independent part minus r is `{Xb.canon()[:90]}` but the terminated coefficient is `{T1.canon()[:90]}`"
    if Xb.is_zero():
        return False, None, "no bootstrap term at all"
    gp = Xb.degree_split(gamma)
    if set(gp) != {1}:
        return False, None, f"bootstrap is not scaled by gamma exactly once (gamma degrees {sorted(gp)})"
    return True, gp[1], ""


def _const_call(fn, vals):
    """Value of a call whose arguments are all constants, for the few functions a mask is usually written with; None otherwise."""
    try:
        if fn == "logical_not" and len(vals) == 1:
            return Fraction(0 if vals[0] != 0 else 1)
        if fn in ("minimum", "min") and len(vals) >= 2:
            return min(vals)
        if fn in ("maximum", "max") and len(vals) >= 2:
            return max(vals)
        if fn == "abs" and len(vals) == 1:
            return abs(vals[0])
        if fn == "clip" and len(vals) == 3:
            x, lo = (vals[0], vals[1])          # the engine orders the first two arguments; clip is symmetric in them (max(x, lo))
            return min(max(x, lo), vals[2])
        if fn in ("Eq", "NotEq", "Lt", "LtE") and len(vals) == 2:
            return Fraction(int({"Eq": vals[0] == vals[1], "NotEq": vals[0] != vals[1], "Lt": vals[0] < vals[1], "LtE": vals[0] <= vals[1]}[fn]))
    except Exception:
        return None
    return None


def _at(nf, p: Poly, leaf: str, c: int, depth: int = 0):
    """``p`` with the leaf atom set to the constant c - also inside the arguments of the calls it is built from (a `where` whose condition becomes
    a constant selects its branch, logical_not / comparisons / clip of constants are evaluated).  None where an atom that depends on the leaf
    cannot be rebuilt from recorded arguments (subscripts, projections, opaque values)."""
    if depth > 10:
        return None
    if p.elems is not None:
        es = [_at(nf, e, leaf, c, depth + 1) for e in p.elems]
        if any(e is None for e in es):
            return None
        q = Poly.atom("(" + ", ".join(x.canon() for x in es) + ")")
        q.elems = es
        return q
    out = Poly({})
    for mono, k in p.terms.items():
        term = Poly.const(k)
        for a, e in mono:
            if a.lstrip("⊥") == leaf:
                v = Poly.const(c)
            elif leaf not in nf.atom_deps(a):
                v = Poly({((a, 1),): Fraction(1)})
            else:
                m = nf.meta.get(a)
                fn = (m or {}).get("fn", "")
                if not fn or fn in ("subscript", "proj", "attr", "T") or m.get("record") or m.get("at"):
                    return None
                args = [_at(nf, q, leaf, c, depth + 1) for q in m["args"]]
                kws = {kk: _at(nf, q, leaf, c, depth + 1) for kk, q in m["kws"].items()}
                if any(x is None for x in args) or any(x is None for x in kws.values()):
                    return None
                if fn in ("where", "select") and len(args) == 3 and not kws and args[0].elems is None and args[0].is_const():
                    v = args[1] if args[0].const_value() != 0 else args[2]
                elif fn == "sq" and len(args) == 1:
                    v = nf.square(args[0])
                elif not kws and args and all(x.elems is None and x.is_const() for x in args) and _const_call(fn, [x.const_value() for x in args]) is not None:
                    v = Poly.const(_const_call(fn, [x.const_value() for x in args]))
                elif fn in ("mean", "sum"):
                    v = nf._libcall(fn, args, kws, None)
                else:
                    v = nf._mkcall(fn, args, kws, frozenset(m["deps"]) - {leaf}, frozenset(m["gdeps"]) - {leaf})
            term = term * v.pow(e)
        out = out + term
    return out


def _target(S, nf, tag, T):
    """B for T == R + (1 - D) * gamma * B, None when violated / undecided.  The identity is polynomial in the leaves R, D, gamma: where one of them
    also sits inside an atom (`where(terminated, ..)`, `logical_not(terminated)`) a failed identity says nothing."""
    ok1, B, why1 = target_identity(T)
    key = f"{tag}:r+(1-d)*gamma*B"
    if not ok1:
        a = _nested(nf, T, (ROLE["R"], ROLE["D"], "gamma"))
        if a is not None and _nested(nf, T, (ROLE["D"],)) is not None:
            # the termination flag sits inside calls: read the target at terminated = 1 and at terminated = 0 (the statement of the property itself)
            R, D = ROLE["R"], ROLE["D"]
            T1, T0 = _at(nf, T, D, 1), _at(nf, T, D, 0)
            T1, T0 = (nf.unfreeze(T1) if T1 is not None else None), (nf.unfreeze(T0) if T0 is not None else None)
            if T1 is not None and T0 is not None and D not in nf.deps_of(T1) and D not in nf.deps_of(T0) and _unread(nf, T1, T0) is None \
                    and _nested(nf, T1, (R, "gamma")) is None and _nested(nf, T0, (R, "gamma")) is None:
                keep = T1 - Poly.atom(R)
                if not keep.is_zero():
                    S.ob("R1-target-identity", key, False, f"T = {T.canon()[:140]}", f"a terminated transition is regressed onto r + `{keep.canon()[:100]}`: it still carries a bootstrap term", read=[T])
                    return None
                gp = (T0 - Poly.atom(R)).degree_split("gamma")
                if set(gp) == {1}:
                    S.ob("R1-target-identity", key, True, f"T = {T.canon()[:140]}")
                    return gp[1]
        if a is not None:
            return S.undecided(key, f"reward / termination / gamma enter the target inside `{a[:80]}`, not as polynomial factors")
    r = S.ob("R1-target-identity", key, ok1, f"T = {T.canon()[:140]}", why1, read=[T])
    return B if r is True else None


def analyse_loss(ck, repo, nf: NF, qual: str, spec: dict, env_extra=None, via=None):
    fn = repo.func(qual)
    mi = fn._module
    S = _Site(ck, nf, qual, loc(mi, fn))
    theta = spec["theta"]
    env, ren = _roles_env(repo, fn, qual)
    params = {p.single_atom() for p in env.values()}
    ck.need(theta in params and "batch" in params and "gamma" in params, f"{qual}: parameters changed (anchor vanished): {sorted(params)}")
    for t in spec["targets"] + ([spec["weight"]] if spec.get("weight") else []) + (["alpha", "policy"] if spec.get("entropy") else []):
        ck.need(t in params, f"{qual}: role parameter `{t}` vanished")
    ret = _ret(nf, qual, env)
    Lp = _loss_of(nf, ret)
    sites = regression_sites(nf, Lp)
    S.ob("R5-regression-form", "site-count", len(sites) == spec["n_sites"], f"{len(sites)} regression site(s): {[s['kind'] for s in sites]}",
         f"documented: {spec['n_sites']} (one per critic head)", read=[Lp])
    Ts = []
    for i, s in enumerate(sites):
        _analyse_site(S, nf, spec, params, theta, f"site{i}", s, Ts)
    if len(Ts) == 2:
        S.ob("R5-regression-form", "shared-target", Ts[0] == Ts[1], "both critic heads regress onto the same target", "the two heads use different targets", read=Ts)
    S.close()
    return sites, Ts


def _analyse_site(S, nf, spec, params, theta, tag, s, Ts):
    kind = _kind(S, nf, s, theta, tag)
    if kind is None:
        return          # the error term itself was not read: nothing of this site can be split into prediction and target
    okk = kind in spec["kind"]
    why = f"regression kind `{kind}` instead of {spec['kind']}" + (": Huber applied to a signed error (the quadratic/linear switch then depends on the sign)" if kind == "huber_signed" else "")
    S.ob("R5-regression-form", f"{tag}:kind", okk, f"{kind} of X = {s['X'].canon()[:100]}", why, read=[s["X"]])
    okc = s["coef"] == 1
    S.ob("R5-regression-form", f"{tag}:unit-coefficient", okc, f"coefficient {s['coef']}", "the regression term is scaled: the loss value differs from the documented one")
    got_w = sorted((a.lstrip("⊥"), e) for a, e in s["weights"])
    want_w = [(spec["weight"], 1)] if spec.get("weight") else []
    if got_w != want_w and any(not _LEAF.fullmatch(a) for a, _e in got_w):
        S.undecided(f"{tag}:weights", f"per-sample factor {[a[:60] for a, _e in got_w]} is not a plain argument")
    else:
        S.ob("R5-regression-form", f"{tag}:weights", got_w == want_w, f"per-sample weights {[a if e == 1 else f'{a}^{e}' for a, e in got_w]}", f"documented weights: {[a for a, _e in want_w]}")
    pr = _prediction(S, nf, tag, s["X"], theta)
    if pr is None:
        return
    sign, P, rest = pr
    _target_side_frozen(S, nf, tag, rest, set(spec["targets"]) | {"next_action", ROLE["N"]} | ({"policy"} if spec.get("entropy") else set()))
    T = nf.unfreeze(rest.scale(-1) if sign == 1 else rest)
    Pn = P.scale(sign)
    Ts.append(T)
    # R3 prediction
    pd = nf.deps_of(Pn)
    bad_t = [t for t in spec["targets"] if t in pd]
    okr = {ROLE["O"], ROLE["A"]} <= pd and not bad_t and ROLE["N"] not in pd
    if not okr and not bad_t and ROLE["N"] not in pd and "batch" in pd:
        S.undecided(f"{tag}:prediction-inputs", f"the batch enters the prediction `{Pn.canon()[:80]}` as a whole, its fields are not visible")
    elif not okr and not _raw_prediction(nf, Pn.single_atom(), theta):
        S.undecided(f"{tag}:prediction-inputs", f"the differentiable term `{Pn.canon()[:80]}` is not an output of `{theta}` itself but a function of one")
    else:
        S.ob("R3-prediction", f"{tag}:prediction-inputs", okr, f"P = {Pn.canon()[:100]}",
             ("prediction uses target module(s) " + str(bad_t)) if bad_t else "prediction does not depend on (observation, action) only", read=[Pn])
    # R1
    B = _target(S, nf, tag, T)
    if B is None:
        return
    bd = nf.deps_of(B)
    bad = sorted({ROLE["O"], ROLE["R"]} & bd)
    shown = f"B depends on {sorted(d for d in bd if d.startswith('batch'))}"
    if not bad and (ROLE["D"] in bd or ROLE["N"] not in bd):
        S.undecided(f"{tag}:bootstrap-inputs", f"{shown}: the successor observation is not visible in it / it reads the termination flag again")
    else:
        S.ob("R2-bootstrap-kind", f"{tag}:bootstrap-inputs", not bad, shown, "the bootstrap must depend on the successor observation and not on observation / reward", read=[B])
    cen, unknown = census(nf, B, params)
    v = census_verdict(cen, unknown, spec["census"], params)
    if isinstance(v, str):
        S.undecided(f"{tag}:census", v)
    else:
        S.ob("R2-bootstrap-kind", f"{tag}:census", v, f"B = {B.canon()[:140]}", f"bootstrap calls {cen} differ from the documented kind {sorted(spec['census'])}", read=[B])
    if spec.get("entropy"):
        _entropy_term(S, nf, tag, B)
    else:
        lead_ok = len(B.terms) == 1 and list(B.terms.values())[0] == 1
        S.ob("R2-bootstrap-kind", f"{tag}:unit-bootstrap", lead_ok, f"B = {B.canon()[:100]}", "the bootstrap carries a stray factor or extra term", read=[B])


def _entropy_term(S, nf, tag, B):
    """B = Q' - alpha * log pi(a'|o'): alpha is a polynomial factor of exactly the log-probability term, with coefficient -1."""
    key = f"{tag}:entropy-term"
    al = B.degree_split("alpha")

    def logp(p):
        return [a for a in p.atoms() if (nf.meta.get(a) or {}).get("fn", "").lstrip("⊥") == "policy.log_probability"]
    a0, a1 = al.get(0, Poly({})), al.get(1, Poly({}))
    shown = f"B = {a0.canon()[:60]} + alpha * ({a1.canon()[:60]})"
    one = len(a1.terms) == 1 and len(list(a1.terms)[0]) == 1 and list(a1.terms)[0][0][1] == 1 and bool(logp(a1))     # alpha * c * log pi
    oke = set(al) == {0, 1} and one and list(a1.terms.values())[0] == -1 and not logp(a0)
    nested = _nested(nf, B, ("alpha",))
    if not oke and nested is not None:
        return S.undecided(key, f"alpha enters the bootstrap inside `{nested[:80]}`")
    if not oke and not (set(al) == {0} or (al and max(al) >= 2) or logp(a0) or (set(al) == {0, 1} and one)):
        return S.undecided(key, f"the alpha-dependent part `{a1.canon()[:80]}` is not a multiple of the log-probability of the policy")
    return S.ob("R2-bootstrap-kind", key, oke, shown, "documented bootstrap is min Q'(o', a') - alpha * log pi(a'|o')", read=[B])


def _readable_prediction(nf, P, site, theta):
    """The split into prediction / target was made on terms the engine has read: no term at all, or a term that is a record value /
    opaque comprehension, means the prediction is not visible here (undecided), not that the semi-gradient is wrong."""
    if not P.terms:
        raise AnalysisError(f"{site}: no term of the regression depends differentiably on `{theta}` as far as the normal form shows (unrecognised form)")
    u = _unread(nf, P)
    if u is not None:
        raise AnalysisError(f"{site}: the differentiable part `{u[:80]}` is an unread value (record / comprehension): unrecognised form")


def run(ck, repo: Repo, tier: str):
    ck.opaque_is_unread = True      # a loss term that is an opaque comprehension / record value has not been read by the normal-form engine
    nf = _NF(repo, no_inline={"rl_blox.blox.losses.huber_loss", "rl_blox.blox.return_estimates.discounted_n_step_return"}, inline_depth=4 if tier == "quick" else 6)
    nf.expand_squares = False
    nf.track_sg = True
    # Batch field order from ReplayBuffer.__init__
    order = _batch_order(repo)
    fields = ["observation", "action", "reward", "next_observation", "termination"]
    if order[:5] != fields and sorted(order[:5]) != sorted(fields):
        raise AnalysisError(f"ReplayBuffer.__init__: the default keys {order} do not carry the documented field names, the positional roles of a batch cannot be read (unrecognised form)")
    ck.ob("R7-caller-roles", "rl_blox.blox.replay_buffer.ReplayBuffer.__init__", "batch-field-order", order[:5] == fields,
          f"default keys {order}", "" if order[:5] == fields else "the positional roles of a sampled batch changed", "rl_blox/blox/replay_buffer.py")
    n = 0
    nf.field_order = list(order)     # the losses of the replay-buffer loops may read the sampled Batch by field name: batch.reward == batch[2]
    for q, spec in SPEC.items():
        ck.guard(analyse_loss, ck, repo, nf, q, spec)
        n += 1
    nf.field_order = None
    ck.guard(_double_q, ck, repo, nf)
    ck.guard(_td7, ck, repo, nf)
    ck.guard(_mrq, ck, repo, nf)
    ck.guard(_sale, ck, repo, nf)
    ck.guard(_encoder_rollout, ck, repo)
    ck.guard(_ddqn_selection, ck, repo, order)
    ck.floor("critic-losses", n + 2, 10)
    ck.guard(_callers, ck, repo, order)


def _string_list(mi, e, depth=0):
    """The strings of a list / tuple display, also behind list(..) / tuple(..) and a module-level constant; None otherwise."""
    if isinstance(e, (ast.List, ast.Tuple)) and e.elts and all(isinstance(x, ast.Constant) and isinstance(x.value, str) for x in e.elts):
        return [x.value for x in e.elts]
    if isinstance(e, ast.Call) and isinstance(e.func, ast.Name) and e.func.id in ("list", "tuple") and len(e.args) == 1 and not e.keywords:
        return _string_list(mi, e.args[0], depth + 1)
    if isinstance(e, ast.Name) and depth < 4:
        d = mi.defs.get(e.id)
        if isinstance(d, (ast.Assign, ast.AnnAssign)) and d.value is not None:
            return _string_list(mi, d.value, depth + 1)
    return None


def _batch_order(repo):
    cq = "rl_blox.blox.replay_buffer.ReplayBuffer"
    owner, fn = repo.method(cq, "__init__")
    mi = repo.cls(owner)._module
    _env, ren = _roles_env(repo, fn, f"{cq}.__init__")
    kp = _actual(ren, "keys")         # the parameter that carries the field names (recorded name `keys`)
    found = [s for n in ast.walk(fn) if isinstance(n, ast.Assign) and len(n.targets) == 1 and isinstance(n.targets[0], ast.Name) and n.targets[0].id == kp
             for s in [_string_list(mi, n.value)] if s is not None]
    if len(found) == 1:
        return found[0]
    raise AnalysisError("ReplayBuffer.__init__: default key list not found (anchor vanished)")


# ---- the clipped double-Q network ---------------------------------------------------------------------------------------
def _head_call(nf, q: Poly):
    """('self.q1' | 'self.q2', argument signature) when q is exactly one call of a head."""
    m = nf.meta.get(q.single_atom() or "")
    if m and m["fn"] in ("self.q1", "self.q2"):
        return m["fn"], (tuple(x.canon() for x in m["args"]), tuple(sorted((k, v.canon()) for k, v in m["kws"].items())))
    return None


def _double_q(ck, repo, nf):
    cq = "rl_blox.blox.double_qnet.ContinuousClippedDoubleQNet"
    groups = []
    for meth in ("__call__", "mean"):
        m = repo.method(cq, meth)       # follows the inheritance chain: the method may live in a base class / mixin
        ck.need(m is not None, f"{cq}.{meth} not found")
        owner, fn = m
        fn._module = repo.cls(owner)._module
        S = _Site(ck, nf, f"{cq}.{meth}", loc(fn._module, fn))
        groups.append(S)
        rets = [x for x in ast.walk(fn) if isinstance(x, ast.Return)]
        ck.need(len(rets) == 1 and rets[0].value is not None, f"{cq}.{meth}: expected one return")
        v = rets[0].value
        sc = Scope(nf.cfg_of(fn), fn._module, {}, f"{owner}.{meth}")
        p = nf.poly(v, sc, sc.cfg.node_of(rets[0]).id)
        pm = nf.meta.get(p.single_atom() or "") or {}
        pair = [_head_call(nf, a) for a in pm.get("args", [])] if pm.get("fn") in ("minimum", "maximum") and len(pm.get("args", [])) == 2 and not pm.get("kws") else None
        both = pair is not None and None not in pair and {pair[0][0], pair[1][0]} == {"self.q1", "self.q2"} and pair[0][1] == pair[1][1]
        heads_only = bool(p.terms) and all(len(mono) == 1 and _head_call(nf, Poly({mono: Fraction(1)})) is not None for mono in p.terms)      # a linear combination of head outputs
        if meth == "__call__":
            ok = both and pm["fn"] == "minimum"
            if not ok and not (pair is not None and None not in pair) and not heads_only:
                S.undecided("clipped-min", f"`{p.canon()[:100]}` is neither minimum / maximum of the two heads nor a combination of their outputs")
            else:
                S.ob("R2-bootstrap-kind", "clipped-min", ok, f"return {short(v)}", "the clipped double-Q value must be minimum(q1(x), q2(x))", read=[p])
        else:
            hs = [_head_call(nf, Poly({mono: Fraction(1)})) for mono in p.terms] if heads_only else []
            ok = heads_only and len(hs) == 2 and {h[0] for h in hs} == {"self.q1", "self.q2"} and hs[0][1] == hs[1][1] and all(c == Fraction(1, 2) for c in p.terms.values())
            if not ok and not heads_only and not (pair is not None and None not in pair):
                S.undecided("mean-of-heads", f"`{p.canon()[:100]}` is not a combination of the outputs of the two heads")
            else:
                S.ob("R2-bootstrap-kind", "mean-of-heads", ok, f"return {p.canon()[:90]}", "mean must be 0.5 * (q1(x) + q2(x))", read=[p])
    und = [u for S in groups for u in S.und]
    if und:
        raise AnalysisError("; ".join(und))


# ---- TD7 / MR.Q / SALE --------------------------------------------------------------------------------------------------
def _td7(ck, repo, nf):
    q = "rl_blox.algorithm.td7.td7_update_critic"
    fn = repo.func(q)
    mi = fn._module
    S = _Site(ck, nf, q, loc(mi, fn))
    roles = {"observation": "O", "action": "A", "reward": "R", "next_observation": "N", "terminated": "D"}
    env, ren = _roles_env(repo, fn, q)
    params = [p.single_atom() for p in env.values()]
    for p in list(roles) + ["critic", "critic_target", "fixed_embedding", "fixed_embedding_target", "next_action", "gamma", "q_min", "q_max", "min_priority"]:
        ck.need(p in params, f"{q}: parameter `{p}` vanished")
    for a, pa in list(env.items()):
        r = roles.get(pa.single_atom())
        if r is not None:
            env[a] = Poly.atom(ROLE[r], {ROLE[r]}, {ROLE[r]})
    sites = [s for s in grad_sites(repo, fn, mi)]
    ck.need(len(sites) == 1, f"{q}: expected one value_and_grad site")
    s = sites[0]
    lq = repo.resolve_expr(mi, s["loss"])
    ck.need(lq and repo.has(lq), f"{q}: loss function not resolved")
    lfn = repo.func(lq)
    sc = nf.scope_for(q, env)
    at = sc.cfg.node_of(s["app"]).id
    lp = positional_params(lfn)
    if any(isinstance(a, ast.Starred) for a in s["app"].args) or any(k.arg is None for k in s["app"].keywords) or len(s["app"].args) > len(lp) or s["argnums"][0] >= len(lp):
        raise AnalysisError(f"{q}: application `{short(s['app'], 80)}` of the differentiated loss cannot be bound to its signature (unrecognised form)")
    lenv = {}
    theta = lp[s["argnums"][0]]
    for k, a in bind_call(lfn, s["app"]).items():        # positional and keyword arguments, by the loss's signature
        lenv[k] = nf.poly(a, sc, at)
        if k != theta:
            # only the argument at argnums is differentiated: whatever the caller computed for the other arguments is a constant of the
            # differentiated function (the TD7 target is built outside of it)
            lenv[k] = nf.freeze(lenv[k])
    ck.need(theta in lenv, f"{q}: differentiated argument `{theta}` is not passed")
    ret = _ret(nf, lq, lenv)
    Lp = _loss_of(nf, ret)
    rs = regression_sites(nf, Lp)
    S.ob("R5-regression-form", "site-count", len(rs) == 2, f"{len(rs)} regression sites {[x['kind'] for x in rs]}", "documented: one Huber term per critic head", read=[Lp])
    theta_atom = lenv[theta].single_atom()
    ck.need(theta_atom is not None, f"{q}: differentiated argument is not a plain object")
    Ts = []
    for i, x in enumerate(rs):
        tag = f"site{i}"
        dtxt = nf.unfreeze(x["delta"]).canon() if x["delta"] is not None else None
        kind = _kind(S, nf, x, theta_atom, tag)
        if kind is None:
            continue
        okk = kind == "huber_abs"
        S.ob("R5-regression-form", f"{tag}:kind", okk, f"{kind} delta={dtxt}",
             "Huber applied to a signed error: quadratic instead of linear for large negative errors" if kind == "huber_signed" else "documented regression is Huber(|P - T|, min_priority)", read=[x["X"]])
        okd = dtxt == "min_priority"
        S.ob("R5-regression-form", f"{tag}:delta", okd, f"delta = {dtxt}", "Huber threshold must be min_priority", read=[x["delta"]])
        okw = x["coef"] == 1 and not x["weights"]
        S.ob("R5-regression-form", f"{tag}:unit-coefficient", okw, f"coefficient {x['coef']}, weights {x['weights']}", "scaled / weighted regression term", read=[Poly.atom(a) for a, _e in x["weights"]])
        pr = _prediction(S, nf, tag, x["X"], theta_atom)
        if pr is None:
            continue
        sign, P, rest = pr
        _target_side_frozen(S, nf, tag, rest, {"critic_target", "fixed_embedding_target", "next_action", ROLE["N"]})
        T = nf.unfreeze(rest.scale(-1) if sign == 1 else rest)
        Ts.append(T)
        pd = nf.deps_of(P)
        wrong = sorted(({"critic_target", "fixed_embedding_target", ROLE["N"]} & pd))
        okr = {ROLE["O"], ROLE["A"]} <= pd and not wrong and "fixed_embedding" in pd
        if not okr and not _raw_prediction(nf, P.scale(sign).single_atom(), theta_atom):
            S.undecided(f"{tag}:prediction-inputs", f"the differentiable term `{P.canon()[:80]}` is not an output of the critic itself but a function of one")
            continue
        S.ob("R3-prediction", f"{tag}:prediction-inputs", okr, f"P = {P.canon()[:110]}", "prediction must be critic.q_i(o||a, zsa, zs) with (zsa, zs) from the fixed embedding of (o, a)", read=[P])
        B = _target(S, nf, tag, T)
        if B is None:
            continue
        cen, unknown = census(nf, B, set(params))
        bm = nf.meta.get(B.single_atom() or "")
        okclip = bool(bm) and bm["fn"] == "clip" and len(bm["args"]) == 3 and not bm["kws"] and bm["args"][2].canon() == "q_max" and "q_min" in [a.canon() for a in bm["args"][:2]]
        if not okclip and unknown:
            S.undecided(f"{tag}:value-clip", f"the bootstrap contains `{str(unknown[0])[:60]}`, which this rule does not read")
        else:
            S.ob("R2-bootstrap-kind", f"{tag}:value-clip", okclip, f"B = {B.canon()[:100]}", "documented bootstrap is the target value clipped to [q_min, q_max] with unit coefficient", read=[B])
        want = ["clip <- {N}", "concat(axis=1) <- {N}", "critic_target <- {N}", "fixed_embedding_target <- {N}"]
        v = census_verdict(cen, unknown, want, set(params))
        if isinstance(v, str):
            S.undecided(f"{tag}:census", v)
        else:
            S.ob("R2-bootstrap-kind", f"{tag}:census", v, f"B = {B.canon()[:150]}", f"bootstrap calls {cen} differ from documented {sorted(want)}", read=[B])
    # the returned target equals the regression target
    rets = [n for n in ast.walk(fn) if isinstance(n, ast.Return) and n.value is not None]
    if len(rets) == 1 and Ts:
        rp = nf.poly(rets[0].value, sc, sc.cfg.node_of(rets[0]).id)
        if rp.elems is not None and len(rp.elems) == 3:
            from ..sem import same_ingredients
            got = nf.unfreeze(rp.elems[2])
            same = got == Ts[0]
            if not same and (any(nf.unfreeze(e) == Ts[0] for e in rp.elems if e.elems is None) or not same_ingredients(got, Ts[0])):
                S.undecided("returned-target", f"the third result `{got.canon()[:80]}` is not built from the ingredients of the regression target / the target is returned at another position")
            else:
                S.ob("R5-regression-form", "returned-target", same, "third result is the regression target", "the reported q_target differs from the one regressed onto", read=[rp.elems[2], Ts[0]])
    S.close()


_NSTEP = "rl_blox.blox.return_estimates.discounted_n_step_return"


def _mrq(ck, repo, nf):
    q = "rl_blox.algorithm.mrq.mrq_loss"
    fn = repo.func(q)
    mi = fn._module
    S = _Site(ck, nf, q, loc(mi, fn))
    env, ren = _roles_env(repo, fn, q)
    params = [p.single_atom() for p in env.values()]
    for p in ("q", "q_target", "encoder", "encoder_target", "next_action", "batch", "gamma", "reward_scale", "target_reward_scale"):
        ck.need(p in params, f"{q}: parameter `{p}` vanished")
    ret = _ret(nf, q, env)
    Lp = _loss_of(nf, ret)
    rs = regression_sites(nf, Lp)
    S.ob("R5-regression-form", "site-count", len(rs) == 2, f"{len(rs)} sites {[x['kind'] for x in rs]}", "one Huber term per head documented", read=[Lp])
    for i, x in enumerate(rs):
        tag = f"site{i}"
        kind = _kind(S, nf, x, "q", tag)
        if kind is None:
            continue
        okk = kind == "huber_abs" and x["delta"] is not None and x["delta"].canon() == "1" and x["coef"] == 1 and not x["weights"]
        S.ob("R5-regression-form", f"{tag}:kind", okk, f"{kind} delta={x['delta'].canon() if x['delta'] is not None else None} coef={x['coef']}", "documented: Huber(|P - T|, 1.0), unit weight",
             read=[x["X"], x["delta"]] + [Poly.atom(a) for a, _e in x["weights"]])
        pr = _prediction(S, nf, tag, x["X"], "q")
        if pr is None:
            continue
        sign, P, rest = pr
        _target_side_frozen(S, nf, tag, rest, {"q_target", "encoder_target", "next_action", ROLE["N"]})
        T = nf.unfreeze(rest.scale(-1) if sign == 1 else rest)
        # encoders are held fixed: the prediction must not depend differentiably on the encoder
        pg = set()
        for mono in P.terms:
            pg |= nf.term_gdeps(mono)
        oke = "encoder" not in pg and "encoder_target" not in pg
        S.ob("R4-stop-gradient", f"{tag}:encoder-fixed", oke, f"prediction differentiable in {sorted(pg)}", "the critic loss differentiates through the encoder (stop_gradient missing)", read=[P])
        pdm = nf.deps_of(P)
        wrong = sorted({"q_target", "encoder_target", ROLE["N"]} & pdm)
        okr = {ROLE["O"], ROLE["A"]} <= pdm and not wrong
        if not okr and ((not wrong and "batch" in pdm) or not _raw_prediction(nf, P.scale(sign).single_atom(), "q")):
            S.undecided(f"{tag}:prediction-inputs", "the fields of the batch are not visible in the prediction / the differentiable term is not an output of q itself")
        else:
            S.ob("R3-prediction", f"{tag}:prediction-inputs", okr, f"P = {P.canon()[:100]}", "prediction must be q.q_i(zsa(zs(o), a)) with the online encoder", read=[P])
        B = _mrq_target(S, nf, tag, T)
        if B is not None:
            cen, unknown = census(nf, B, set(params))
            want = ["encoder_target.encode_zs <- {N}", "encoder_target.encode_zsa <- {N}", "q_target <- {N}"]
            v = census_verdict(cen, unknown, want, set(params))
            if isinstance(v, str):
                S.undecided(f"{tag}:census", v)
            else:
                okc = v and len(B.terms) == 1 and list(B.terms.values())[0] == 1
                S.ob("R2-bootstrap-kind", f"{tag}:census", okc, f"B = {B.canon()[:140]}", f"bootstrap calls {cen} differ from documented {sorted(want)} (unit coefficient)", read=[B])
    S.close()


def _mrq_target(S, nf, tag, T):
    """B for T == (G + c * B * target_reward_scale) / reward_scale with (G, c) the two results of discounted_n_step_return(reward, terminated, gamma)."""
    key = f"{tag}:(G+c*B*s_target)/s"
    shown = f"T = {T.canon()[:150]}"
    G, C = f"{_NSTEP}(batch[2], batch[4], gamma)[0]", f"{_NSTEP}(batch[2], batch[4], gamma)[1]"
    a = _nested(nf, T, ("reward_scale", "target_reward_scale"))
    if a is not None:
        return S.undecided(key, f"the reward scales enter the target inside `{a[:80]}`")
    # the n-step calls the target is built from, with their arguments and the position of the result that is read: `res[i]`, an unpacked name,
    # or the field of the record (NamedTuple) the function returns - field f of a record is its position in the constructor order
    calls, pos_of = {}, {}
    fields = _result_fields(nf)
    for at_ in T.atoms():
        m = nf.meta.get(at_) or {}
        ba = m["args"][0].single_atom() if m.get("fn") in ("proj", "attr") and m.get("args") else None
        inner = nf.meta.get(ba or "")
        if inner and inner["fn"] == _NSTEP:
            calls[at_] = [x.canon() for x in inner["args"]] + [f"{k}={v_.canon()}" for k, v_ in sorted(inner["kws"].items())]
            sel = at_[len(ba):]
            mi_ = re.fullmatch(r"\[(\d+)\]", sel)
            if m["fn"] == "proj" and mi_:
                pos_of[at_] = int(mi_.group(1))
            elif m["fn"] == "attr" and fields and sel.startswith(".") and sel[1:] in fields:
                pos_of[at_] = fields.index(sel[1:])
    # a violation is decided only where every value built from an n-step call shows which result it is (`est[-1]`, `g, *rest = ...`, a slice
    # of the result tuple are not read here)
    hidden = sorted(a_ for a_ in T.atoms() if (_NSTEP + "(") in a_ and a_ not in pos_of)
    if hidden:
        return S.undecided(key, f"`{hidden[0][:90]}` is built from a result of discounted_n_step_return, which of the two is not visible")
    mine = {pos_of[a_]: a_ for a_, c in calls.items() if c == ["batch[2]", "batch[4]", "gamma"]}
    G, C = mine.get(0, G), mine.get(1, C)
    if not mine:
        others = [c for c in calls.values() if c != ["batch[2]", "batch[4]", "gamma"]]
        if others and all(_LEAF.fullmatch(x) for c in others for x in c):
            S.ob("R1-target-identity", key, False, shown, f"the n-step return is computed from {others[0]} instead of (reward, terminated, gamma)", read=[T])
            return None
        return S.undecided(key, "the results of discounted_n_step_return(reward, terminated, gamma) are not visible in the target")
    sp = T.degree_split("reward_scale")
    ok1 = set(sp) == {-1}
    why = "" if ok1 else "target is not divided by reward_scale as a whole"
    B = None
    if ok1:
        U = sp[-1]
        cs = U.degree_split(C)
        if set(cs) != {0, 1} or cs[0].canon() != G:
            ok1, why = False, f"target numerator is not n_step_return + discount * ...: `{U.canon()[:120]}`"
        else:
            ts = cs[1].degree_split("target_reward_scale")
            if set(ts) != {1}:
                ok1, why = False, "bootstrap is not scaled by target_reward_scale exactly once"
            else:
                B = ts[1]
    r = S.ob("R1-target-identity", key, ok1, shown, why, read=[T])
    return B if r is True else None


def _result_fields(nf):
    """Field names, in constructor order, of the record discounted_n_step_return returns on every path (None for a plain tuple / anything else)."""
    try:
        fn = nf.repo.func(_NSTEP)
    except Exception:
        return None
    found = []
    for r in (x for x in ast.walk(fn) if isinstance(x, ast.Return)):
        v = r.value
        q = nf.repo.resolve_expr(fn._module, v.func) if isinstance(v, ast.Call) and isinstance(v.func, (ast.Name, ast.Attribute)) else None
        try:
            node = nf.repo.lookup(q)[1] if q else None
        except Exception:
            node = None
        f = nf._record_fields(node) if node is not None else None
        if f is None:
            return None
        found.append(tuple(f))
    return list(found[0]) if found and len(set(found)) == 1 else None


def _sale(ck, repo, nf):
    q = "rl_blox.blox.embedding.sale.state_action_embedding_loss"
    fn = repo.func(q)
    S = _Site(ck, nf, q, loc(fn._module, fn))
    env, ren = _roles_env(repo, fn, q)
    params = [p.single_atom() for p in env.values()]
    ck.need(all(p in params for p in ("embedding", "observation", "action", "next_observation")), f"{q}: signature changed")
    Lp = _ret(nf, q, env)
    rs = regression_sites(nf, Lp)
    ok = len(rs) == 1 and rs[0]["kind"] == "sq" and rs[0]["coef"] == 1 and not rs[0]["weights"]
    S.ob("R6-representation", "mse-form", ok, f"{[x['kind'] for x in rs]}", "documented: mean squared error, unit weight", read=[Lp])
    if ok:
        P, rest = split_pt(nf, rs[0]["X"], "embedding")
        if not P.terms:
            S.undecided("prediction", "no term of the error depends differentiably on the embedding")
        else:
            okp = len(P.terms) == 1 and {"observation", "action"} <= nf.deps_of(P) and "next_observation" not in nf.deps_of(P)
            S.ob("R6-representation", "prediction", okp, f"P = {P.canon()[:100]}", "prediction must be zsa = embedding(observation, action)[0] only (target must be gradient-stopped)", read=[P])
        rest = nf.unfreeze(rest)
        td = nf.deps_of(rest)
        tm = nf.meta.get(next(iter(rest.atoms()), "")) or {} if len(rest.terms) == 1 and len(rest.atoms()) == 1 else {}
        targs = [x.canon() for x in tm.get("args", [])] + [f"{k}={v.canon()}" for k, v in sorted(tm.get("kws", {}).items())]
        okt = tm.get("fn") == "embedding.state_embedding" and targs == ["next_observation"]
        if not okt and not (tm.get("fn") == "embedding.state_embedding" and all(_LEAF.fullmatch(x) for x in targs)):
            S.undecided("target", f"`{rest.canon()[:80]}` is not a call embedding.state_embedding(<argument>)")
        else:
            S.ob("R6-representation", "target", okt, f"T = {rest.canon()[:100]}", "target must be stop_gradient(embedding.state_embedding(next_observation))", read=[rest])
    S.close()


# ---------------------------------------------------------------------------------------------------------
CALLERS = {
    # train function -> (loss qual, target-role loss params, theta param)
    "rl_blox.algorithm.nature_dqn.train_nature_dqn": (L + "nature_dqn_loss", ["q_target"], "q"),
    "rl_blox.algorithm.ddqn.train_ddqn": (L + "ddqn_loss", ["q_target"], "q"),
    "rl_blox.algorithm.per.train_ddqn_per": (L + "ddqn_per_loss", ["q_target"], "q"),
    "rl_blox.algorithm.ddpg.train_ddpg": (L + "ddpg_loss", ["q_target_value", "policy_target"], "q"),
    "rl_blox.algorithm.td3.train_td3": (L + "td3_loss", ["q_target"], "q"),
    "rl_blox.algorithm.td3_lap.train_td3_lap": (L + "td3_lap_loss", ["q_target"], "q"),
    "rl_blox.algorithm.sac.train_sac": (L + "sac_loss", ["q_target"], "q"),
    "rl_blox.algorithm.dqn.train_dqn": (L + "dqn_loss", [], "q"),
}
_RESOLVED = ("param", "clone", "param|clone", "obj", "attr")          # identities of known objects; everything else (phi, call, value, expr ...) is unresolved
_TSWL = "rl_blox.algorithm.dqn.train_step_with_loss"


def _known(ident):
    return all(isinstance(i, tuple) and i and i[0] in _RESOLVED and (i[0] != "attr" or _known(i[1])) for i in alternatives(ident))


def _sample_callee(cfg, f, at, depth=0):
    """The called expression is the `sample_batch` method of some object: the attribute itself, a copy of it, functools.partial(<one>, options..), or a
    conditional expression both arms of which are one (which options are bound does not change what the result is: the sampled batch)."""
    if depth > 6:
        return False
    if isinstance(f, ast.Attribute):
        return f.attr == "sample_batch"
    if isinstance(f, ast.IfExp):
        return _sample_callee(cfg, f.body, at, depth + 1) and _sample_callee(cfg, f.orelse, at, depth + 1)
    if isinstance(f, ast.Call) and dotted(f.func) in ("partial", "functools.partial") and f.args and not isinstance(f.args[0], ast.Starred):
        return _sample_callee(cfg, f.args[0], at, depth + 1)
    if isinstance(f, ast.Name):
        ds = cfg.defs_of(at, f.id)
        return bool(ds) and all(d.kind == "assign" and d.value is not None and _sample_callee(cfg, d.value, d.node, depth + 1) for d in ds)
    return False


def _batch_source(cfg, e, at, depth=0):
    """Where a batch-valued expression comes from: ('sample', defs key, unpack path) for the result of <buffer>.sample_batch(..) reached through plain
    copies, else None."""
    if depth > 6 or not isinstance(e, ast.Name):
        return None
    ds = cfg.defs_of(at, e.id)
    if len(ds) != 1 or ds[0].value is None:
        return None
    d = ds[0]
    v = d.value
    if d.kind == "assign" and isinstance(v, ast.Name):
        return _batch_source(cfg, v, d.node, depth + 1)
    if d.kind == "unpack" and isinstance(v, ast.Name):
        r = _batch_source(cfg, v, d.node, depth + 1)           # `out = buffer.sample_batch(..); batch, ratio = out`
        return (r[0], r[1], tuple(d.path or ())) if r is not None and r[2] == () else None
    if d.kind in ("assign", "unpack") and isinstance(v, ast.Call) and _sample_callee(cfg, v.func, d.node):
        return ("sample", d.node, tuple(d.path or ()) if d.kind == "unpack" else ())
    return None


def _defining_call(cfg, e, at, depth=0):
    """(call, node) that produces the value of ``e``, through plain copies."""
    if isinstance(e, ast.Call):
        return e, at
    if depth < 6 and isinstance(e, ast.Name):
        ds = cfg.defs_of(at, e.id)
        if len(ds) == 1 and ds[0].kind == "assign" and ds[0].value is not None:
            return _defining_call(cfg, ds[0].value, ds[0].node, depth + 1)
    return None


def _batch_field(cfg, e, at, order, depth=0):
    """(batch expression, node to read it at, field position) when ``e`` is a field of a batch: `b.next_observation`, `b[3]`, or a copy of one."""
    if depth > 6:
        return None
    if isinstance(e, ast.Attribute) and e.attr in order:
        return e.value, at, order.index(e.attr)
    if isinstance(e, ast.Subscript) and isinstance(e.slice, ast.Constant) and isinstance(e.slice.value, int) and e.slice.value >= 0:
        return e.value, at, e.slice.value
    if isinstance(e, ast.Name):
        ds = cfg.defs_of(at, e.id)
        if len(ds) == 1 and ds[0].value is not None:
            d = ds[0]
            if d.kind == "assign":
                return _batch_field(cfg, d.value, d.node, order, depth + 1)
            if d.kind == "unpack" and len(d.path or ()) == 1 and isinstance(d.path[0], int) and isinstance(d.value, ast.Name):
                return d.value, d.node, d.path[0]
    return None


def _callers(ck, repo, order):
    from .c06 import HELPERS
    res = Resolver(repo)
    idn = Ident(repo)
    nfc = NF(repo, inline_calls=False)
    tsw = repo.func(_TSWL)
    tp = positional_params(tsw)
    ck.need(len(tp) >= 3 and tsw.args.vararg is not None, f"{_TSWL}: signature changed (anchor vanished)")
    n = 0
    und = []
    for tq, (lq, troles, theta) in CALLERS.items():
        fn = repo.func(tq)
        mi = fn._module
        cfg = res.cfg_of(fn)
        lfn = repo.func(lq)
        lparams = positional_params(lfn)
        _lenv, lren = _roles_env(repo, lfn, lq)
        tenv, _tren = _roles_env(repo, fn, tq)
        # target identities of this loop: second arguments of the target-update helpers
        tids, oids = [], []
        from .c06 import _helper_calls
        # (online, target) argument pairs of every target-update helper call of this loop: keyword calls and loops over literal
        # pairs (also those produced by helper expansion) are resolved by the same routine C06 uses
        for hn, hc, hkind, (oe, te), hkey in _helper_calls(repo, res, fn, cfg):
            oids.append(idn.of(oe, mi, cfg, hn, tq))
            tids.append(idn.of(te, mi, cfg, hn, tq))
        found = False
        if troles and not tids:
            raise AnalysisError(f"{tq}: no target-update helper call is visible in this loop, so its target networks cannot be identified (unrecognised form)")

        def role_of(ident):
            """'target' / 'online' / 'other' for a known object, None for an identity that was not resolved."""
            if not _known(ident):
                return None
            alts = alternatives(ident)

            def among(a, ids):      # the object, one of its sub-modules, or the object it is a sub-module of
                return any(has_base(a, i) or has_base(i, a) for i in ids)
            if all(among(a, tids) for a in alts) and not any(among(a, oids) for a in alts):
                return "target"
            if any(among(a, tids) for a in alts):
                return None
            return "online" if all(among(a, oids) for a in alts) else "other"
        for node in cfg.nodes:
            if node.ast is None or node.kind != "stmt":
                continue
            for c in ast.walk(node.ast):
                if not isinstance(c, ast.Call):
                    continue
                t = res.resolve(c.func, mi, cfg, node.id)
                if not (t and t.qual == _TSWL):
                    continue
                # train_step = partial(train_step_with_loss, <loss>): prefix[0] is the loss
                ck.need(t.prefix and repo.resolve_expr(mi, t.prefix[0]) == lq, f"{tq}: train_step is not bound to {lq} (anchor vanished)")
                found = True
                n += 1
                where = loc(mi, c)
                if any(isinstance(a, ast.Starred) for a in c.args) or any(k.arg is None for k in c.keywords):
                    raise AnalysisError(f"{tq}: train_step call `{short(c, 60)}` unpacks its arguments (unrecognised form)")
                # train_step_with_loss(loss, optimizer, q, *args, **kwargs): the loss receives (q, *args, **kwargs) - bound by the two signatures
                b0 = bind_call(tsw, c, prefix=t.prefix)
                for k, v in t.kwargs.items():
                    b0.setdefault(k, v)
                first = b0.get(tp[2])
                ck.need(first is not None, f"{tq}: train_step call passes no differentiated module")
                b = dict(zip(lparams, [first] + list(b0.get("*" + tsw.args.vararg.arg, []))))
                for k, v in b0.items():
                    if k not in tp and not k.startswith("*"):
                        b[k] = v

                def arg(canon):
                    return b.get(_actual(lren, canon))
                th = arg(theta)
                th_role = role_of(idn.of(th, mi, cfg, node.id, tq)) if th is not None else None
                shown = f"{theta} <- `{short(th) if th is not None else None}`"
                if th is None or th_role is None:
                    und.append(f"{tq}: online:{theta}: the object passed, {shown}, could not be identified (unrecognised form)")
                else:
                    ok = th_role == "online" or (th_role == "other" and not oids)
                    ck.ob("R7-caller-roles", tq, f"online:{theta}", ok, shown,
                          "" if ok else "the differentiated (online) critic parameter receives a target object or an object that is never copied to a target", where)
                for tr in troles:
                    a = arg(tr)
                    a_role = role_of(idn.of(a, mi, cfg, node.id, tq)) if a is not None else None
                    shown = f"{tr} <- `{short(a) if a is not None else None}`"
                    if a is None or a_role is None:
                        und.append(f"{tq}: target:{tr}: the object passed, {shown}, could not be identified (unrecognised form)")
                        continue
                    ok = a_role == "target"
                    ck.ob("R7-caller-roles", tq, f"target:{tr}", ok, shown,
                          "" if ok else f"the target-role parameter `{tr}` of {lq.rsplit('.', 1)[1]} does not receive a target network of this loop (online and target swapped?)", where)
                # gamma: the value passed is the loop's own gamma parameter (read through copies / float() / asarray)
                g = arg("gamma")
                shown = f"gamma <- `{short(g) if g is not None else None}`"
                gp = nfc.poly(g, Scope(cfg, mi, tenv, tq), node.id) if g is not None else None
                ga = gp.single_atom() if gp is not None else None
                tparams = {p.single_atom() for p in tenv.values()}
                if g is None or "gamma" not in tparams or not (gp.is_const() or (ga in tparams)):
                    und.append(f"{tq}: gamma: {shown} is not traced to a parameter of the loop (unrecognised form)")
                else:
                    ok = ga == "gamma"
                    ck.ob("R7-caller-roles", tq, "gamma", ok, shown, "" if ok else "the discount passed to the loss is not the gamma parameter", where)
                # batch: the unmodified result of sample_batch
                bt = arg("batch")
                shown = f"batch <- `{short(bt) if bt is not None else None}`"
                src = _batch_source(cfg, bt, node.id) if bt is not None else None
                if src is None:
                    und.append(f"{tq}: batch: {shown} is not traced to a sample_batch call (unrecognised form)")
                else:
                    okb = src[2] in ((), (0,))
                    ck.ob("R7-caller-roles", tq, "batch", okb, shown, "" if okb else "the batch passed to the loss is not the batch component of the sample_batch result", where)
                # TD3 / TD3-LAP: the smoothed next action comes from the *target* policy on the successor observations of this batch.  Read by dataflow: the
                # call that produces the loss's `next_action` argument receives exactly one network of the loop and exactly one field of the batch
                if "next_action" in {lren.get(p_, p_) for p_ in lparams}:
                    na = arg("next_action")
                    dc = _defining_call(cfg, na, node.id) if na is not None else None
                    key = "smoothed-next-action"
                    if dc is None:
                        und.append(f"{tq}: {key}: `{short(na) if na is not None else None}` is not the result of a visible call (unrecognised form)")
                        continue
                    c2, at2 = dc
                    args2 = [a for a in c2.args if not isinstance(a, ast.Starred)] + [k.value for k in c2.keywords if k.arg]
                    objs = [r for a in args2 for r in [role_of(idn.of(a, mi, cfg, at2, tq))] if r in ("target", "online")]
                    flds = [(f, s_) for a in args2 for f in [_batch_field(cfg, a, at2, order)] if f is not None for s_ in [_batch_source(cfg, f[0], f[1])] if s_ is not None]
                    if len(objs) != 1 or len(flds) != 1 or len(args2) != len(c2.args) + len(c2.keywords) or (src is not None and flds[0][1][1] != src[1]) or flds[0][1][2] not in ((), (0,)):
                        und.append(f"{tq}: {key}: `{short(c2, 70)}`: the policy object or the batch field passed could not be identified (unrecognised form)")
                        continue
                    ok = objs[0] == "target" and flds[0][0][2] == 3
                    ck.ob("R7-caller-roles", tq, key, ok, f"`{short(c2, 70)}`", "" if ok else "target-policy smoothing must use the target policy on the batch's successor observations", loc(mi, c2))
        ck.need(found, f"{tq}: no train_step call found (anchor vanished)")
    ck.floor("train-step-call-sites", n, 8)
    if und:
        raise AnalysisError("; ".join(und[:4]))


# ---- R8: the encoder roll-out, read per termination pattern -------------------------------------------------------------------
# The documented representation loss of MR.Q weights the errors of roll-out step t with the product over the EARLIER steps of (1 - terminated):
# a subtrajectory contributes its steps up to and including the terminated transition and nothing after it.  Whether the mask is carried
# through the scan, precomputed for all steps, scanned time-major, built with cumprod / where / logical operations is a matter of
# organisation.  The rule therefore does not look for a mask: it evaluates the value the loss function returns for a concrete small horizon,
# once per pattern of termination flags (2^H worlds), with the roll-out unrolled step by step.  In a world the flags are numbers, so every
# mask expression folds to a number; network outputs and error terms stay symbolic atoms that carry the step they were computed in.
_ENC = "rl_blox.blox.embedding.model_based_encoder.model_based_encoder_loss"
_HZ = 3                                    # unrolled horizon: every clause needs at most (a terminated step, one before, one after)
_ERRFN = {"squared_error", "l2_loss", "huber_loss", "two_hot_cross_entropy_loss", "softmax_cross_entropy", "softmax_cross_entropy_with_integer_labels",
          "sigmoid_binary_cross_entropy", "log_cosh"}
_IDENT = {"asarray", "array", "astype", "float32", "float64", "float16", "bfloat16", "int32", "int64", "bool_", "stop_gradient", "copy", "float", "int", "bool",
          "device_put", "atleast_1d", "ravel", "flatten", "squeeze", "reshape", "expand_dims", "view", "block_until_ready"}
_METHODS = _IDENT | {"mean", "sum", "prod", "all", "any", "max", "min", "cumprod", "cumsum", "transpose", "swapaxes", "clip"}
_STEP = re.compile(r"§(\d+)")


class _Unread(Exception):
    pass


class _AxisMixup(Exception):
    """Positive evidence found while evaluating: an entry of an array whose rows no longer belong to one sample is used."""


class _V:
    """A value of the roll-out evaluator.  k: 'num' (p: polynomial over symbolic atoms - a scalar or a per-sample vector), 'arr' (cols: one
    polynomial per time step of an array with a time axis; axis: position of the time axis in a (batch, time) / (time, batch) array, None for
    a one-dimensional sequence over time; stacked: the stacked per-step outputs of a scan), 'tup' (items, fields for records), 'batch',
    'fn' (node, ctx), 'ref' (q: dotted name of a module-level / library object), 'none'.  taint: depends on the termination flags."""
    __slots__ = ("k", "p", "cols", "axis", "items", "fields", "taint", "node", "ctx", "q", "stacked", "fill", "mixed", "dec")

    def __init__(self, k, **kw):
        self.k = k
        for s in self.__slots__[1:]:
            setattr(self, s, kw.get(s))
        self.taint = bool(kw.get("taint"))


def _num(p, taint=False, fill=False):
    return _V("num", p=p, taint=taint, fill=fill)


def _cst(c):
    return _num(Poly.const(c))


def _cval(v):
    """The number a value folds to, None otherwise."""
    if v.k == "num" and v.p.elems is None and v.p.is_const():
        return v.p.const_value()
    return None


def _int(v):
    c = _cval(v) if v is not None else None
    return int(c) if c is not None and c.denominator == 1 else None


class _Ctx:
    def __init__(self, ev, fn, mi, bind, tag, parent=None, parent_at=None, depth=0):
        self.fn, self.mi, self.bind, self.tag, self.parent, self.parent_at, self.depth = fn, mi, bind, tag, parent, parent_at, depth
        self.cfg = ev.cfg(fn)
        self.local, self.memo = {}, {}


class _Rollout:
    """Evaluates expressions of the repository in one world (a tuple of termination flags, one per time step)."""

    def __init__(self, repo, world):
        self.repo, self.world = repo, world
        self._cfgs = {}
        self.expand_sq = False          # read optax.squared_error(p, t) as (p - t)^2 instead of as one symbolic error term
        self.abs_of = {}                # symbolic atom standing for |x| -> x
        self.tainted = set()
        self.fuel = 400000

    def cfg(self, fn):
        if id(fn) not in self._cfgs:
            from ..cfg import CFG
            self._cfgs[id(fn)] = CFG(fn)
        return self._cfgs[id(fn)]

    # -- symbolic atoms ------------------------------------------------------------------------------------------
    def opaque(self, e, ctx, taint=False, suffix=""):
        name = f"‹{short(e, 28)}#{getattr(e, 'lineno', 0)}.{getattr(e, 'col_offset', 0)}{suffix}{ctx.tag}›"
        if taint:
            self.tainted.add(name)
        return _num(Poly.atom(name), taint)

    def taint_of(self, exprs, ctx, at):
        t = False
        for a in exprs:
            try:
                t = t or self.vt(self.ev(a.value if isinstance(a, ast.Starred) else a, ctx, at))
            except _Unread:
                t = t or self.syn_taint(a, ctx, at, set())
        return t

    def syn_taint(self, e, ctx, at, seen):
        """Dataflow reading of 'depends on the termination flags' for an expression the evaluator does not read: some name it is computed
        from (through the definitions that reach it) is the termination field of the batch, the batch as a whole, or a value known to depend on them."""
        stack = [e]
        while stack:
            x = stack.pop()
            if isinstance(x, ast.Attribute) and isinstance(x.value, ast.Name):
                try:
                    v = self.name(x.value.id, ctx, at, x.value)
                except _Unread:
                    v = None
                if v is not None and v.k == "batch":
                    if x.attr == "terminated":
                        return True
                    continue
            if isinstance(x, ast.Name):
                if self.name_taint(x.id, ctx, at, seen):
                    return True
                continue
            if isinstance(x, (ast.Lambda, ast.GeneratorExp, ast.ListComp, ast.SetComp, ast.DictComp)):
                if any(isinstance(y, ast.Attribute) and y.attr == "terminated" for y in ast.walk(x)):
                    return True
            stack.extend(ast.iter_child_nodes(x))
        return False

    def name_taint(self, nm, ctx, at, seen):
        if nm in ctx.local:
            return self.vt(ctx.local[nm])
        ds = ctx.cfg.defs_of(at, nm) if at is not None else []
        if not ds:
            return self.name_taint(nm, ctx.parent, ctx.parent_at, seen) if ctx.parent is not None else False
        for d in ds:
            key = (id(ctx), d.node, nm)
            if key in seen:
                continue
            seen.add(key)
            if d.kind == "param":
                if d.name in ctx.bind and self.vt(ctx.bind[d.name]):
                    return True
            elif d.kind in ("funcdef", "classdef", "import"):
                continue
            elif d.value is not None:
                if self.syn_taint(d.value, ctx, d.node, seen):
                    return True
            else:
                return True
        return False

    def vt(self, v):
        if v.k == "tup":
            return any(self.vt(x) for x in v.items)
        return v.taint or v.k == "batch"

    # -- names -------------------------------------------------------------------------------------------------------
    def name(self, nm, ctx, at, node):
        if nm in ctx.local:
            return ctx.local[nm]
        ds = ctx.cfg.defs_of(at, nm) if at is not None else []
        if not ds:
            if ctx.parent is not None:
                return self.name(nm, ctx.parent, ctx.parent_at, node)
            q = self.repo.resolve_name(ctx.mi, nm)
            if q is not None:
                return _V("ref", q=q)
            return _V("ref", q="builtins." + nm)
        key = (nm, tuple(sorted(d.node for d in ds)))
        if key in ctx.memo:
            if ctx.memo[key] is None:
                raise _Unread(f"`{nm}` is defined in terms of itself (a loop)")
            return ctx.memo[key]
        ctx.memo[key] = None
        try:
            vals = [self.defval(d, ctx) for d in ds]
        except BaseException:
            ctx.memo.pop(key, None)
            raise
        v = vals[0]
        if len(vals) > 1:
            if all(self.same(vals[0], x) for x in vals[1:]):
                v = vals[0]
            elif any(x.k != "num" for x in vals):
                raise _Unread(f"`{nm}` has several definitions that are not plain numbers")
            else:
                # the definitions of different branches: which one is taken must not depend on the termination flags; the value is then read as a
                # combination of the branch values with one free symbolic weight per branch (it vanishes only where every branch value vanishes)
                for d in ds:
                    for b, _lab in ctx.cfg.control_deps(d.node):
                        s_ = ctx.cfg.nodes[b].ast
                        if not isinstance(s_, ast.If) or self.taint_of([s_.test], ctx, b):
                            raise _Unread(f"`{nm}` is defined in a loop / under a condition that depends on the termination flags")
                p = Poly({})
                for i, x in enumerate(vals):
                    p = p + self.opaque(node, ctx, False, f"|branch{i}").p * x.p
                v = _num(p, any(x.taint for x in vals))
        ctx.memo[key] = v
        return v

    def same(self, a, b):
        if a.k != b.k:
            return False
        if a.k == "num":
            return a.p == b.p
        if a.k == "arr":
            return a.axis == b.axis and len(a.cols) == len(b.cols) and all(x == y for x, y in zip(a.cols, b.cols))
        if a.k == "tup":
            return len(a.items) == len(b.items) and all(self.same(x, y) for x, y in zip(a.items, b.items))
        return a.k in ("batch", "none") or (a.k == "ref" and a.q == b.q) or (a.k == "fn" and a.node is b.node)

    def defval(self, d, ctx):
        if d.kind == "param":
            if d.name in ctx.bind:
                return ctx.bind[d.name]
            return _num(Poly.atom(f"‹{d.name}{ctx.tag}›"))
        if d.kind == "funcdef":
            return _V("fn", node=d.value, ctx=ctx)
        if d.kind in ("assign", "walrus") and d.value is not None:
            return self.ev(d.value, ctx, d.node)
        if d.kind == "unpack" and d.value is not None:
            v = self.ev(d.value, ctx, d.node)
            for i in d.path:
                v = self.item(v, i, d.value, ctx)
            return v
        if d.kind == "classdef":
            return _V("ref", q=None)
        raise _Unread(f"`{d.name}` is defined by a `{d.kind}` statement")

    def item(self, v, i, e, ctx):
        if isinstance(i, tuple):                 # ('*', k): the starred rest of an unpacking
            if v.k == "tup":
                return _V("tup", items=list(v.items[i[1]:]), taint=v.taint)
            raise _Unread("starred unpacking of a value that is not a tuple")
        if v.k == "tup":
            if -len(v.items) <= i < len(v.items):
                return v.items[i]
            raise _Unread("unpacking position outside the tuple")
        if v.k == "num" and _cval(v) is None:
            a = v.p.single_atom()
            if a is None:
                raise _Unread("unpacking of a computed value")
            name = a[:-1] + f"[{i}]›"
            if v.taint:
                self.tainted.add(name)
            return _num(Poly.atom(name), v.taint)
        if v.k == "arr" and v.axis in (0, None) and isinstance(i, int) and i < len(v.cols):
            return _num(v.cols[i], v.taint)
        raise _Unread(f"unpacking of `{short(e, 40)}`")

    # -- expressions -------------------------------------------------------------------------------------------------
    def ev(self, e, ctx, at):
        self.fuel -= 1
        if self.fuel < 0:
            raise _Unread("evaluation budget exhausted")
        if isinstance(e, ast.Constant):
            if e.value is None:
                return _V("none")
            if isinstance(e.value, (bool, int)):
                return _cst(int(e.value))
            if isinstance(e.value, float):
                return _cst(Fraction(e.value).limit_denominator(10 ** 9))
            return _V("ref", q=None)
        if isinstance(e, ast.Name):
            return self.name(e.id, ctx, at, e)
        if isinstance(e, (ast.Tuple, ast.List)):
            if any(isinstance(x, ast.Starred) for x in e.elts):
                raise _Unread("starred element in a display")
            items = [self.ev(x, ctx, at) for x in e.elts]
            return _V("tup", items=items, taint=any(self.vt(x) for x in items))
        if isinstance(e, ast.Attribute):
            return self.attr(e, ctx, at)
        if isinstance(e, ast.Subscript):
            return self.subscript(e, ctx, at)
        if isinstance(e, ast.BinOp):
            return self.binop(e.op, self.ev(e.left, ctx, at), self.ev(e.right, ctx, at), e, ctx)
        if isinstance(e, ast.UnaryOp):
            v = self.ev(e.operand, ctx, at)
            if isinstance(e.op, ast.USub):
                return self.binop(ast.Mult(), _cst(-1), v, e, ctx)
            if isinstance(e.op, ast.UAdd):
                return v
            return self.logical("logical_not", [v], e, ctx)
        if isinstance(e, ast.Compare) and len(e.ops) == 1:
            return self.compare(type(e.ops[0]).__name__, self.ev(e.left, ctx, at), self.ev(e.comparators[0], ctx, at), e, ctx)
        if isinstance(e, ast.BoolOp):
            vs = [self.ev(x, ctx, at) for x in e.values]
            return self.logical("logical_and" if isinstance(e.op, ast.And) else "logical_or", vs, e, ctx)
        if isinstance(e, ast.IfExp):
            return self.where(self.ev(e.test, ctx, at), lambda: self.ev(e.body, ctx, at), lambda: self.ev(e.orelse, ctx, at), e, ctx)
        if isinstance(e, ast.Call):
            return self.call(e, ctx, at)
        if isinstance(e, ast.Lambda):
            return _V("fn", node=e, ctx=ctx)
        if isinstance(e, (ast.GeneratorExp, ast.ListComp)) and len(e.generators) == 1 and not e.generators[0].ifs and (isinstance(e.generators[0].target, ast.Name)
                                                                                                       or (isinstance(e.generators[0].target, ast.Tuple) and all(isinstance(y, ast.Name) for y in e.generators[0].target.elts))):
            g = e.generators[0]
            it = self.ev(g.iter, ctx, at)
            if it.k != "tup":
                raise _Unread(f"comprehension over `{short(g.iter, 40)}`")
            out = []
            names = [g.target.id] if isinstance(g.target, ast.Name) else [y.id for y in g.target.elts]
            old = dict(ctx.local)
            for x in it.items:
                if isinstance(g.target, ast.Name):
                    ctx.local[names[0]] = x
                elif x.k == "tup" and len(x.items) == len(names):
                    ctx.local.update(zip(names, x.items))
                else:
                    ctx.local = old
                    raise _Unread(f"comprehension `{short(e, 50)}`")
                out.append(self.ev(e.elt, ctx, at))
            ctx.local = old
            return _V("tup", items=out, taint=any(self.vt(x) for x in out))
        if isinstance(e, ast.Slice):
            return _V("ref", q=None)
        if isinstance(e, ast.JoinedStr):
            return _V("ref", q=None)
        raise _Unread(f"expression `{short(e, 50)}`")

    def attr(self, e, ctx, at):
        v = self.ev(e.value, ctx, at)
        if v.k == "ref":
            return _V("ref", q=(v.q + "." + e.attr) if v.q else None)
        if v.k == "batch":
            if e.attr == "terminated":
                return _V("arr", cols=[Poly.const(x) for x in self.world], axis=1, taint=True)
            name = f"‹batch.{e.attr}›"
            return _num(Poly.atom(name))
        if v.k == "tup":
            if v.fields and e.attr in v.fields:
                return v.items[v.fields.index(e.attr)]
            if v.fields and e.attr == "_replace":
                raise _Unread("_replace of a record")
            raise _Unread(f"attribute `{e.attr}` of a tuple")
        if v.k == "arr":
            if e.attr == "T":
                return self.flip(v)
            if e.attr in ("shape", "dtype", "ndim", "size"):
                return self.opaque(e, ctx, False)
            if e.attr == "at":
                return _V("tup", items=[v], fields=["__at__"], taint=v.taint)
            return _V("fn", node=e.attr, ctx=v)            # a bound method of an array
        if v.k == "num":
            if e.attr in ("T", "real"):
                return v
            if e.attr in ("shape", "dtype", "ndim", "size"):
                return self.opaque(e, ctx, False)
            if _cval(v) is not None or (v.p.single_atom() is None) or e.attr in _METHODS:
                return _V("fn", node=e.attr, ctx=v)        # a bound method of a computed value
            a = v.p.single_atom()
            name = a[:-1] + f".{e.attr}›"
            if v.taint:
                self.tainted.add(name)
            return _num(Poly.atom(name), v.taint)
        if v.k == "none":
            raise _Unread("attribute of None")
        raise _Unread(f"attribute `{short(e, 40)}`")

    def flip(self, v):
        if v.axis is None:
            return v
        return _V("arr", cols=v.cols, axis=1 - v.axis, taint=v.taint, stacked=v.stacked, mixed=v.mixed)

    def entry(self, v, p):
        """One time step of array v as a per-sample value."""
        if v.mixed and not v.taint:
            if all(q == v.cols[0] for q in v.cols):
                return _num(p, False)                         # the same value everywhere: which entry is taken does not matter
            raise _Unread(f"`{v.mixed}` reshapes a (batch, time) array to (time, -1)")
        if v.mixed:
            raise _AxisMixup(f"`{v.mixed}` turns a (batch, time) array into (time, -1) by reshaping: that is not the transpose - row t, column b of the result is entry "
                             f"t * batch + b of the flattened array, a termination flag of another sample / step (batch size >= 2, horizon >= 2); the value used "
                             f"for step t of a sample is therefore not that sample's own termination history")
        return _num(p, v.taint)

    def index_parts(self, s, ctx, at):
        """The index of a subscript as a list of ('all',) / ('new',) / ('int', k) / ('slice', python slice) / ('other', tainted)."""
        elts = s.elts if isinstance(s, ast.Tuple) else [s]
        out = []
        for x in elts:
            if isinstance(x, ast.Slice):
                b = []
                for y in (x.lower, x.upper, x.step):
                    if y is None:
                        b.append(None)
                    else:
                        k = _int(self.ev(y, ctx, at))
                        if k is None:
                            b = None
                            break
                        b.append(k)
                if b is None:
                    out.append(("other", self.taint_of([y for y in (x.lower, x.upper, x.step) if y is not None], ctx, at)))
                elif b == [None, None, None]:
                    out.append(("all",))
                else:
                    out.append(("slice", slice(*b)))
                continue
            if isinstance(x, ast.Constant) and x.value is None:
                out.append(("new",))
                continue
            if isinstance(x, ast.Constant) and x.value is Ellipsis:
                out.append(("all",))
                continue
            v = self.ev(x, ctx, at)
            if v.k == "ref" and v.q and v.q.endswith(".newaxis"):
                out.append(("new",))
            elif v.k == "none":
                out.append(("new",))
            elif _int(v) is not None:
                out.append(("int", _int(v)))
            else:
                out.append(("other", self.vt(v)))
        return out

    def pick(self, cols, part):
        if part[0] == "int":
            if -len(cols) <= part[1] < len(cols):
                return cols[part[1]]
            raise _Unread("index outside the time axis")
        return cols[part[1]]

    def subscript(self, e, ctx, at):
        v = self.ev(e.value, ctx, at)
        if v.k == "tup":
            if v.fields == ["__at__"]:
                return _V("tup", items=[v.items[0], e.slice], fields=["__at__", "__idx__"], taint=v.taint)
            k = _int(self.ev(e.slice, ctx, at)) if not isinstance(e.slice, ast.Slice) else None
            if k is not None and -len(v.items) <= k < len(v.items):
                return v.items[k]
            if isinstance(e.slice, ast.Slice):
                parts = self.index_parts(e.slice, ctx, at)
                if parts[0][0] == "slice":
                    return _V("tup", items=v.items[parts[0][1]], taint=v.taint)
                if parts[0][0] == "all":
                    return v
            raise _Unread(f"subscript of a tuple `{short(e, 40)}`")
        if v.k == "batch":
            raise _Unread(f"positional field of the batch `{short(e, 40)}`")
        parts = self.index_parts(e.slice, ctx, at)
        if v.k == "num":
            if all(p[0] in ("all", "new", "slice") for p in parts):
                return v                                    # layout of a per-sample value / of a filled array
            if v.fill and _cval(v) is not None:
                return v
            t = v.taint or any(p[0] == "other" and p[1] for p in parts)
            if t:
                raise _Unread(f"subscript `{short(e, 50)}` of a value that depends on the termination flags")
            return self.opaque(e, ctx, False)
        if v.k == "arr":
            real = [p for p in parts if p[0] != "new"]
            if len(real) != len(parts):
                raise _Unread(f"new axis in `{short(e, 50)}`")
            if any(p[0] == "other" for p in real):
                raise _Unread(f"index of `{short(e, 50)}` is not a number in the unrolled roll-out")
            if v.axis is None:
                if len(real) != 1:
                    raise _Unread(f"subscript `{short(e, 50)}`")
                sel = [real[0]]
                tpos = 0
            else:
                tpos = v.axis
                sel = real + [("all",)] * (2 - len(real))
                if len(sel) != 2:
                    raise _Unread(f"subscript `{short(e, 50)}`")
                if sel[1 - tpos][0] != "all":
                    raise _Unread(f"`{short(e, 50)}` selects along the batch axis")
            tp = sel[tpos if v.axis is not None else 0]
            if tp[0] == "all":
                return v
            if tp[0] == "int":
                return self.entry(v, self.pick(v.cols, tp))
            return _V("arr", cols=list(v.cols[tp[1]]), axis=v.axis, taint=v.taint, stacked=v.stacked, mixed=v.mixed)
        if v.k == "ref":
            return _V("ref", q=None)
        raise _Unread(f"subscript `{short(e, 50)}`")

    # -- arithmetic ----------------------------------------------------------------------------------------------------
    def lift(self, f, a, b, e, ctx):
        """Apply a binary operation on polynomials element-wise over numbers and time arrays."""
        t = a.taint or b.taint
        if a.k == "num" and b.k == "num":
            return _num(f(a.p, b.p), t)
        if a.k == "arr" and b.k == "arr":
            if a.axis != b.axis or len(a.cols) != len(b.cols):
                raise _Unread(f"`{short(e, 50)}` combines arrays of different layout")
            return _V("arr", cols=[f(x, y) for x, y in zip(a.cols, b.cols)], axis=a.axis, taint=t, stacked=a.stacked and b.stacked, mixed=a.mixed or b.mixed)
        if a.k == "arr" and b.k == "num":
            if _cval(b) is None and not a.stacked:
                raise _Unread(f"`{short(e, 50)}` combines a (batch, time) array with a per-sample value")
            return _V("arr", cols=[f(x, b.p) for x in a.cols], axis=a.axis, taint=t, stacked=a.stacked, mixed=a.mixed)
        if a.k == "num" and b.k == "arr":
            if _cval(a) is None and not b.stacked:
                raise _Unread(f"`{short(e, 50)}` combines a (batch, time) array with a per-sample value")
            return _V("arr", cols=[f(a.p, y) for y in b.cols], axis=b.axis, taint=t, stacked=b.stacked, mixed=b.mixed)
        raise _Unread(f"operands of `{short(e, 50)}`")

    def binop(self, op, a, b, e, ctx):
        if a.k not in ("num", "arr") or b.k not in ("num", "arr"):
            if a.k == "tup" and b.k == "tup" and isinstance(op, ast.Add):
                return _V("tup", items=a.items + b.items, taint=a.taint or b.taint)
            if self.vt(a) or self.vt(b):
                raise _Unread(f"operands of `{short(e, 50)}`")
            return self.opaque(e, ctx, False)
        if isinstance(op, ast.Add):
            return self.lift(lambda x, y: x + y, a, b, e, ctx)
        if isinstance(op, ast.Sub):
            return self.lift(lambda x, y: x - y, a, b, e, ctx)
        if isinstance(op, ast.Mult):
            return self.lift(lambda x, y: x * y, a, b, e, ctx)
        if isinstance(op, ast.BitAnd):
            return self.logical("logical_and", [a, b], e, ctx)
        if isinstance(op, ast.BitOr):
            return self.logical("logical_or", [a, b], e, ctx)
        if isinstance(op, ast.Div):
            def div(x, y):
                if y.is_const():
                    if y.const_value() == 0:
                        raise _Unread(f"division by zero in `{short(e, 50)}`")
                    return x.scale(1 / y.const_value())
                if len(y.terms) == 1:
                    return x * y.inv()
                raise _Unread(f"division by a sum in `{short(e, 50)}`")
            return self.lift(div, a, b, e, ctx)
        if isinstance(op, ast.Pow):
            k = _int(b)
            if k is not None and k in (2, 4) and a.k == "num" and a.p.single_atom() in self.abs_of:
                return _num(self.abs_of[a.p.single_atom()].pow(k), a.taint)        # |x|^2 == x^2
            if k is not None and 0 <= k <= 4 and a.k in ("num", "arr"):
                return self.lift(lambda x, _y: x.pow(k), a, _cst(0), e, ctx)
        ca, cb = _cval(a), _cval(b)
        if ca is not None and cb is not None:
            try:
                if isinstance(op, ast.FloorDiv):
                    return _num(Poly.const(ca // cb), a.taint or b.taint)
                if isinstance(op, ast.Mod):
                    return _num(Poly.const(ca % cb), a.taint or b.taint)
            except ZeroDivisionError:
                pass
        if a.taint or b.taint:
            raise _Unread(f"operation `{short(e, 50)}` on a value that depends on the termination flags")
        return self.opaque(e, ctx, False)

    def fold(self, f, vs, e, ctx):
        """Element-wise operation that is only read on numbers: f(list of Fractions) -> Fraction."""
        def g(*ps):
            cs = [p.const_value() if p.is_const() else None for p in ps]
            if any(c is None for c in cs):
                raise KeyError
            return Poly.const(f(cs))
        try:
            if len(vs) == 1:
                return self.lift(lambda x, _y: g(x), vs[0], _cst(0), e, ctx)
            if len(vs) == 2:
                return self.lift(lambda x, y: g(x, y), vs[0], vs[1], e, ctx)
        except KeyError:
            pass
        if any(self.vt(v) for v in vs):
            raise _Unread(f"`{short(e, 50)}` on a symbolic value that depends on the termination flags")
        return self.opaque(e, ctx, False)

    def compare(self, op, a, b, e, ctx):
        table = {"Eq": lambda c: c[0] == c[1], "NotEq": lambda c: c[0] != c[1], "Lt": lambda c: c[0] < c[1], "LtE": lambda c: c[0] <= c[1],
                 "Gt": lambda c: c[0] > c[1], "GtE": lambda c: c[0] >= c[1]}
        if op in table and a.k in ("num", "arr") and b.k in ("num", "arr"):
            return self.fold(lambda c: Fraction(int(table[op](c))), [a, b], e, ctx)
        if self.vt(a) or self.vt(b):
            raise _Unread(f"comparison `{short(e, 50)}`")
        return self.opaque(e, ctx, False)

    def logical(self, fn, vs, e, ctx):
        if any(v.k not in ("num", "arr") for v in vs):
            if any(self.vt(v) for v in vs):
                raise _Unread(f"`{short(e, 50)}`")
            return self.opaque(e, ctx, False)
        if fn == "logical_not":
            return self.fold(lambda c: Fraction(int(c[0] == 0)), vs, e, ctx)
        out = vs[0]
        for v in vs[1:]:
            out = self.fold((lambda c: Fraction(int(c[0] != 0 and c[1] != 0))) if fn == "logical_and" else (lambda c: Fraction(int(c[0] != 0 or c[1] != 0))), [out, v], e, ctx)
        return out

    def where(self, c, fa, fb, e, ctx):
        cc = _cval(c)
        if cc is not None:
            return fa() if cc != 0 else fb()
        a, b = fa(), fb()
        if c.k == "arr" and all(p.is_const() for p in c.cols):
            def colsof(v):
                if v.k == "arr" and v.axis == c.axis and len(v.cols) == len(c.cols):
                    return v.cols
                if v.k == "num" and _cval(v) is not None:
                    return [v.p] * len(c.cols)
                raise _Unread(f"branches of `{short(e, 50)}`")
            ca, cb = colsof(a), colsof(b)
            return _V("arr", cols=[x if k.const_value() != 0 else y for k, x, y in zip(c.cols, ca, cb)], axis=c.axis, taint=True)
        if c.k == "num" and not c.taint and a.k == "num" and b.k == "num":
            # a symbolic condition that does not depend on the flags (environment_terminates): both branches, weighted by the condition
            return _num(c.p * a.p + (Poly.const(1) - c.p) * b.p, a.taint or b.taint)
        if self.same(a, b):
            return a
        raise _Unread(f"selection `{short(e, 50)}` on a symbolic condition")

    # -- calls ---------------------------------------------------------------------------------------------------------
    def args_of(self, c, ctx, at):
        if any(k.arg is None for k in c.keywords):
            raise _Unread(f"`{short(c, 50)}` passes packed keyword arguments")
        args = []
        for a in c.args:
            if isinstance(a, ast.Starred):
                v = self.ev(a.value, ctx, at)
                if v.k == "tup":
                    args += v.items
                elif self.vt(v):
                    raise _Unread(f"`{short(c, 50)}` unpacks a value that depends on the termination flags")
                else:
                    args.append(self.opaque(a, ctx, False))
            else:
                args.append(self.ev(a, ctx, at))
        return args, {k.arg: self.ev(k.value, ctx, at) for k in c.keywords}

    def call(self, c, ctx, at):
        r = self.at_update(c, ctx, at)
        if r is not None:
            return r
        f = self.ev(c.func, ctx, at)
        if f.k == "fn" and isinstance(f.node, str):                       # method of an array / computed value
            args, kws = self.args_of(c, ctx, at)
            return self.lib(f.node, [f.ctx] + args, kws, c, ctx, at)
        if f.k == "fn":
            return self.apply(f, c, ctx, at)
        if f.k == "tup" and f.fields == ["__at__", "__idx__"]:
            raise _Unread("bare .at[...]")
        if f.k == "mod":
            args, kws = self.args_of(c, ctx, at)
            return f.node(self, args, kws, c, ctx)
        if f.k == "ref":
            q = f.q or ""
            if q.startswith("rl_blox."):
                return self.repo_call(q, c, ctx, at)
            short_name = q.rsplit(".", 1)[-1]
            if q == "flax.nnx.scan" and len(c.args) == 1 and not isinstance(c.args[0], ast.Starred):
                return self.lifted_scan_value(c, ctx, at)
            if q in ("flax.nnx.scan", "jax.lax.scan") and c.args:
                return self.lax_or_lifted_scan(q, c, ctx, at)
            if self.expand_sq and short_name in ("squared_error", "l2_loss") and q.startswith("optax."):
                args, kws = self.args_of(c, ctx, at)
                pr = kws.get("predictions", args[0] if args else None)
                tg = kws.get("targets", args[1] if len(args) > 1 else None)
                if pr is None or tg is None or len(args) + len(kws) != 2:
                    raise _Unread(f"`{short(c, 50)}`")
                d = self.binop(ast.Sub(), pr, tg, c, ctx)
                sq = self.binop(ast.Mult(), d, d, c, ctx)
                return sq if short_name == "squared_error" else self.binop(ast.Mult(), _cst(Fraction(1, 2)), sq, c, ctx)
            if short_name in _ERRFN:
                return self.opaque(c, ctx, False)
            args, kws = self.args_of(c, ctx, at)
            return self.lib(short_name, args, kws, c, ctx, at)
        if f.k == "num":
            # a call of a symbolic object (a module, a method of one): a new symbolic value
            return self.opaque(c, ctx, self.taint_of(list(c.args) + [k.value for k in c.keywords], ctx, at))
        raise _Unread(f"call `{short(c, 50)}`")

    def at_update(self, c, ctx, at):
        """x.at[idx].set(v) / .multiply(v) on a time array."""
        fv = c.func
        if not (isinstance(fv, ast.Attribute) and isinstance(fv.value, ast.Subscript) and isinstance(fv.value.value, ast.Attribute) and fv.value.value.attr == "at"):
            return None
        x = self.ev(fv.value.value.value, ctx, at)
        if x.k != "arr" or x.axis is None or len(c.args) != 1 or c.keywords or fv.attr not in ("set", "multiply", "add", "mul"):
            if self.vt(x):
                raise _Unread(f"functional update `{short(c, 50)}`")
            return self.opaque(c, ctx, self.taint_of(c.args, ctx, at))
        parts = self.index_parts(fv.value.slice, ctx, at)
        sel = parts + [("all",)] * (2 - len(parts))
        if len(sel) != 2 or sel[1 - x.axis][0] != "all" or sel[x.axis][0] not in ("int", "slice"):
            raise _Unread(f"functional update `{short(c, 50)}`")
        v = self.ev(c.args[0], ctx, at)
        if _cval(v) is None:
            raise _Unread(f"functional update `{short(c, 50)}` with a symbolic value")
        idx = list(range(len(x.cols)))
        try:
            idx = [idx[sel[x.axis][1]]] if sel[x.axis][0] == "int" else idx[sel[x.axis][1]]
        except IndexError:
            raise _Unread("index outside the time axis")
        cols = list(x.cols)
        for i in idx:
            cols[i] = v.p if fv.attr == "set" else (cols[i] * v.p if fv.attr in ("multiply", "mul") else cols[i] + v.p)
        return _V("arr", cols=cols, axis=x.axis, taint=True)

    def time_axis(self, v, ax):
        """Does the axis argument ``ax`` (a value or None) name the time axis of array v?"""
        k = _int(ax) if ax is not None else None
        if v.axis is None:
            return ax is None or k in (0, -1)
        if k is None:
            return False
        return k % 2 == v.axis

    def lib(self, fn, args, kws, c, ctx, at):
        fn = {"concatenate": "concat", "hstack": "concat1", "column_stack": "concat1", "vstack": "concat0", "amax": "max", "amin": "min", "cumulative_prod": "cumprod", "cumulative_sum": "cumsum",
              "bitwise_not": "logical_not", "invert": "logical_not", "bitwise_and": "logical_and", "bitwise_or": "logical_or", "product": "prod", "mul": "multiply",
              "swapaxes": "transpose", "moveaxis": "transpose", "permute_dims": "transpose", "matrix_transpose": "transpose"}.get(fn, fn)
        x = args[0] if args else None
        anyt = any(self.vt(v) for v in list(args) + list(kws.values()))

        def unread(why=""):
            if anyt:
                raise _Unread(f"`{short(c, 60)}`{why}")
            return self.opaque(c, ctx, False)
        if x is None:
            return unread()
        if any(v.k == "arr" and v.mixed for v in list(args) + list(kws.values())) and fn not in ("astype", "asarray", "array", "stop_gradient", "transpose", "T", "copy"):
            return unread(": an operation on a reshaped (time, -1) array")
        if fn in _IDENT:
            if x.k == "arr" and fn == "reshape" and x.axis == 1 and not x.stacked and len(x.cols) >= 2:
                shp = args[1].items if len(args) == 2 and args[1].k == "tup" else args[1:]
                dims = [_int(v) if v.k == "num" else None for v in shp]
                if len(dims) == 2 and not kws and dims == [-1, len(x.cols)] and not x.mixed:
                    return x                                  # (batch, time) -> (-1, time): the same array
                if len(dims) == 2 and not kws and dims == [len(x.cols), -1] and not x.mixed:
                    # (batch, time) -> (time, -1): NOT the transpose.  Entry [t, b] of the result is entry t * batch + b of the row-major flattened array,
                    # i.e. [(t * batch + b) // time, (t * batch + b) % time] of the original: for batch >= 2 and time >= 2 a flag of another sample / step
                    return _V("arr", cols=list(x.cols), axis=0, taint=x.taint, mixed=short(c, 70))
            if x.k == "arr" and fn in ("reshape", "ravel", "flatten", "expand_dims", "view"):
                return unread(": the layout of an array with a time axis is changed")
            if x.k == "arr" and fn == "squeeze" and len(x.cols) == 1:
                return _num(x.cols[0], x.taint)
            return x if x.k in ("num", "arr") else unread()
        if fn in ("ones_like", "zeros_like", "full_like", "ones", "zeros", "full", "empty_like"):
            val = Poly.const(1 if fn.startswith("ones") else 0)
            if fn.startswith("full"):
                fv = args[1] if len(args) > 1 else kws.get("fill_value")
                if fv is None or _cval(fv) is None:
                    return unread()
                val = fv.p
            if fn.endswith("_like") and x.k == "arr":
                return _V("arr", cols=[val] * len(x.cols), axis=x.axis)
            return _num(val, False, fill=True)
        if fn == "arange" and len(args) == 1 and not kws and _int(x) is not None and 0 < _int(x) <= 16:
            return _V("arr", cols=[Poly.const(i) for i in range(_int(x))], axis=None)
        if fn in ("cumprod", "cumsum") and x.k == "arr":
            ax = kws.get("axis", args[1] if len(args) > 1 else None)
            if not self.time_axis(x, ax) or (ax is None and x.axis is not None) or kws.get("reverse") is not None:
                return unread(": not along the time axis")
            cols, acc = [], None
            for p in x.cols:
                acc = p if acc is None else (acc * p if fn == "cumprod" else acc + p)
                cols.append(acc)
            return _V("arr", cols=cols, axis=x.axis, taint=x.taint)
        if fn in ("prod", "sum", "mean", "all", "any", "max", "min"):
            ax = kws.get("axis", args[1] if len(args) > 1 else None)
            if x.k == "num":
                if x.taint and _cval(x) not in (None, 0) and fn in ("sum", "mean", "prod"):
                    return unread(": a statistic over the batch of a weight that depends on the termination flags")
                if fn in ("sum", "mean") or _cval(x) is not None:
                    return x                                 # a reduction over the batch is linear: the per-sample reading is kept
                return unread()
            if x.k == "tup" and fn == "sum" and len(args) == 1 and not kws and all(v.k == "num" for v in x.items):
                tot = Poly({})
                for v in x.items:
                    tot = tot + v.p
                return _num(tot, anyt)
            if x.k != "arr":
                return unread()
            if fn in ("sum", "mean") and ((x.stacked and (ax is None or _int(ax) == 0)) or (ax is None and not x.taint)):
                # the stacked per-step outputs of the roll-out (one number per step, or one per step and sample) summed over the steps
                tot = Poly({})
                for p in x.cols:
                    tot = tot + p
                return _num(tot.scale(Fraction(1, len(x.cols))) if fn == "mean" else tot, x.taint)
            if fn in ("sum", "mean") and not x.stacked and x.axis is not None and ax is not None and _int(ax) is not None and _int(ax) % 2 == 1 - x.axis:
                # reduction over the batch axis of a (batch, time) / (time, batch) array: linear, one value per step stays
                return _V("arr", cols=list(x.cols), axis=0, taint=x.taint, stacked=True)
            if ax is None or not self.time_axis(x, ax) or x.stacked:
                return unread(": reduction of an array with a time axis not along that axis")
            if fn in ("sum", "mean", "prod"):
                acc = None
                for p in x.cols:
                    acc = p if acc is None else (acc * p if fn == "prod" else acc + p)
                if acc is None:
                    acc = Poly.const(1 if fn == "prod" else 0)
                return _num(acc.scale(Fraction(1, max(1, len(x.cols)))) if fn == "mean" else acc, x.taint)
            if all(p.is_const() for p in x.cols) and x.cols:
                cs = [p.const_value() for p in x.cols]
                r = {"all": Fraction(int(all(k != 0 for k in cs))), "any": Fraction(int(any(k != 0 for k in cs))), "max": max(cs), "min": min(cs)}[fn]
                return _num(Poly.const(r), x.taint)
            return unread()
        if fn in ("concat", "concat1", "concat0", "stack"):
            ax = kws.get("axis", args[1] if len(args) > 1 else None)
            if x.k != "tup" or not x.items or any(v.k != "arr" for v in x.items) or len({v.axis for v in x.items}) != 1 or fn == "stack":
                return unread()
            a0 = x.items[0]
            named = _cst(1) if fn == "concat1" else (_cst(0) if fn == "concat0" or ax is None else ax)
            if a0.axis is None and fn == "concat1":
                named = _cst(0)
            if not self.time_axis(a0, named):
                return unread(": arrays joined along the batch axis")
            return _V("arr", cols=[p for v in x.items for p in v.cols], axis=a0.axis, taint=any(v.taint for v in x.items))
        if fn in ("transpose", "T"):
            if x.k == "arr":
                return self.flip(x)
            return x if x.k == "num" else unread()
        if fn == "roll" and x.k == "arr" and len(x.cols):
            sh = _int(kws.get("shift", args[1] if len(args) > 1 else None))
            ax = kws.get("axis", args[2] if len(args) > 2 else None)
            if sh is None or not self.time_axis(x, ax) or (ax is None and x.axis is not None):
                return unread()
            n = len(x.cols)
            return _V("arr", cols=[x.cols[(i - sh) % n] for i in range(n)], axis=x.axis, taint=x.taint)
        if fn == "flip" and x.k == "arr":
            ax = kws.get("axis", args[1] if len(args) > 1 else None)
            if not self.time_axis(x, ax) or (ax is None and x.axis is not None):
                return unread()
            return _V("arr", cols=x.cols[::-1], axis=x.axis, taint=x.taint)
        if fn in ("where", "select") and len(args) == 3 and not kws:
            return self.where(args[0], lambda: args[1], lambda: args[2], c, ctx)
        if fn in ("logical_not", "logical_and", "logical_or"):
            return self.logical(fn, args, c, ctx)
        if fn in ("multiply", "add", "subtract", "divide", "true_divide", "power") and len(args) == 2:
            op = {"multiply": ast.Mult(), "add": ast.Add(), "subtract": ast.Sub(), "divide": ast.Div(), "true_divide": ast.Div(), "power": ast.Pow()}[fn]
            return self.binop(op, args[0], args[1], c, ctx)
        if fn in ("minimum", "maximum") and len(args) == 2:
            return self.fold((lambda cs: min(cs)) if fn == "minimum" else (lambda cs: max(cs)), args, c, ctx)
        if fn in ("equal", "not_equal", "less", "less_equal", "greater", "greater_equal") and len(args) == 2:
            op = {"equal": "Eq", "not_equal": "NotEq", "less": "Lt", "less_equal": "LtE", "greater": "Gt", "greater_equal": "GtE"}[fn]
            return self.compare(op, args[0], args[1], c, ctx)
        if fn in ("square", "negative") and len(args) == 1 and x.k in ("num", "arr"):
            return self.binop(ast.Mult(), x, x if fn == "square" else _cst(-1), c, ctx)
        if fn in ("abs", "absolute") and len(args) == 1 and x.k == "num" and _cval(x) is None:
            v = self.opaque(c, ctx, False, "|abs")
            self.abs_of[v.p.single_atom()] = x.p
            v.taint = x.taint
            return v
        if fn in ("argmax", "argmin") and x.k == "arr" and x.cols and all(p.is_const() for p in x.cols):
            ax = kws.get("axis", args[1] if len(args) > 1 else None)
            if (ax is None and x.axis is not None) or not self.time_axis(x, ax):
                return unread()
            cs = [p.const_value() for p in x.cols]
            return _num(Poly.const(cs.index(max(cs) if fn == "argmax" else min(cs))), x.taint)
        if fn == "take_along_axis" and x.k == "arr" and len(args) >= 2:
            k = _int(args[1])
            ax = kws.get("axis", args[2] if len(args) > 2 else None)
            if k is None or ax is None or not self.time_axis(x, ax) or not 0 <= k < len(x.cols):
                return unread()
            return _num(x.cols[k], x.taint or args[1].taint)
        if fn in ("abs", "absolute", "sign") and len(args) == 1:
            f = {"abs": abs, "absolute": abs, "sign": lambda k: Fraction((k > 0) - (k < 0))}[fn]
            return self.fold(lambda cs: f(cs[0]), args, c, ctx)
        if fn == "clip" and len(args) == 3 and all(_cval(v) is not None for v in args):
            return _num(Poly.const(min(max(_cval(args[0]), _cval(args[1])), _cval(args[2]))), anyt)
        if fn in ("tuple", "list") and len(args) == 1 and x.k == "tup":
            return x
        if fn == "zip" and args and not kws and all(v.k == "tup" for v in args) and len({len(v.items) for v in args}) == 1:
            return _V("tup", items=[_V("tup", items=[v.items[i] for v in args], taint=any(self.vt(v.items[i]) for v in args)) for i in range(len(x.items))], taint=anyt)
        if fn in ("take", "dynamic_index_in_dim") and x.k == "arr" and len(args) >= 2:
            k = _int(args[1])
            ax = kws.get("axis", args[2] if len(args) > 2 else None)
            kd = kws.get("keepdims", args[3] if len(args) > 3 and fn == "dynamic_index_in_dim" else None)
            if k is None or ax is None or not self.time_axis(x, ax) or not 0 <= k < len(x.cols) or (fn == "dynamic_index_in_dim" and (kd is None or _cval(kd) != 0)) or (fn == "take" and kd is not None):
                return unread()
            return _num(x.cols[k], x.taint)
        return unread()

    # -- functions of the repository, closures, scans ---------------------------------------------------------------------------
    def returns(self, fn, ctx):
        if isinstance(fn, ast.Lambda):
            ctx.local.update(ctx.bind)
            return self.ev(fn.body, ctx, None)
        rets = []
        stack = list(fn.body)
        while stack:
            s = stack.pop()
            if isinstance(s, (ast.FunctionDef, ast.AsyncFunctionDef, ast.ClassDef, ast.Lambda)):
                continue
            if isinstance(s, ast.Return):
                rets.append(s)
            stack.extend(ast.iter_child_nodes(s))
        if not rets or any(r.value is None for r in rets):
            raise _Unread(f"`{getattr(fn, 'name', 'lambda')}` has no value-returning statement")
        vals = [self.ev(r.value, ctx, ctx.cfg.node_of(r).id) for r in rets]
        if all(self.same(vals[0], v) for v in vals[1:]):
            return vals[0]
        raise _Unread(f"`{fn.name}` returns different values on different paths")

    def bind(self, fn, c, ctx, at, extra_first=None):
        if any(isinstance(a, ast.Starred) for a in c.args) or any(k.arg is None for k in c.keywords):
            raise _Unread(f"`{short(c, 50)}` passes packed arguments")
        a = fn.args
        if a.vararg or a.kwarg:
            raise _Unread(f"`{getattr(fn, 'name', 'lambda')}` takes packed parameters")
        names = [x.arg for x in a.posonlyargs + a.args]
        if len(c.args) > len(names):
            raise _Unread(f"`{short(c, 50)}`: too many arguments")
        out = {}
        for n_, e in zip(names, c.args):
            out[n_] = self.ev(e, ctx, at)
        for k in c.keywords:
            out[k.arg] = self.ev(k.value, ctx, at)
        # defaults
        pos_defaults = dict(zip(names[len(names) - len(a.defaults):], a.defaults))
        for n_, d in list(pos_defaults.items()) + [(x.arg, d) for x, d in zip(a.kwonlyargs, a.kw_defaults) if d is not None]:
            if n_ not in out:
                out[n_] = self.ev(d, ctx, None) if isinstance(d, ast.Constant) else self.opaque(d, ctx, False)
        return out

    def repo_call(self, q, c, ctx, at):
        repo = self.repo
        short_name = q.rsplit(".", 1)[-1]
        if short_name in _ERRFN:
            return self.opaque(c, ctx, False)
        try:
            mi, node = repo.lookup(q)
        except Exception:
            node = None
        if isinstance(node, ast.ClassDef):
            fields = [s.target.id for s in node.body if isinstance(s, ast.AnnAssign) and isinstance(s.target, ast.Name)]
            is_record = any((isinstance(b, ast.Name) and b.id == "NamedTuple") or (isinstance(b, ast.Attribute) and b.attr == "NamedTuple") for b in node.bases)
            if is_record and fields:
                args, kws = self.args_of(c, ctx, at)
                if len(args) + len(kws) == len(fields) and all(k in fields for k in kws):
                    items = list(args) + [None] * (len(fields) - len(args))
                    for k, v in kws.items():
                        items[fields.index(k)] = v
                    if all(v is not None for v in items):
                        return _V("tup", items=items, fields=fields, taint=any(self.vt(v) for v in items))
            raise _Unread(f"construction `{short(c, 50)}`")
        if not isinstance(node, ast.FunctionDef):
            t = self.taint_of(list(c.args) + [k.value for k in c.keywords], ctx, at)
            if t:
                raise _Unread(f"call `{short(c, 50)}` with arguments that depend on the termination flags")
            return self.opaque(c, ctx, False)
        node._module = mi
        f = _V("fn", node=node, ctx=None)
        f.q = mi
        try:
            return self.apply(f, c, ctx, at)
        except _Unread:
            if self.taint_of(list(c.args) + [k.value for k in c.keywords], ctx, at):
                raise
            return self.opaque(c, ctx, False)

    def scan_decorator(self, fn, dctx):
        """The nnx.scan(...) decorator of a function, None for an undecorated / jit-compiled one."""
        found = None
        for d in getattr(fn, "decorator_list", []) or []:
            head = d.func if isinstance(d, ast.Call) else d
            q = self.repo.resolve_expr(dctx.mi, head) if isinstance(head, (ast.Name, ast.Attribute)) else None
            if q == "functools.partial" and isinstance(d, ast.Call) and d.args and isinstance(d.args[0], (ast.Name, ast.Attribute)):
                q = self.repo.resolve_expr(dctx.mi, d.args[0])
                if q == "flax.nnx.scan":
                    raise _Unread("scan bound through functools.partial")
            if q in ("jax.jit", "flax.nnx.jit"):
                continue
            if q == "flax.nnx.scan" and isinstance(d, ast.Call) and found is None:
                found = d
                continue
            raise _Unread(f"decorator `{short(d, 40)}` of `{fn.name}`")
        return found

    def apply(self, f, c, ctx, at):
        fn = f.node
        if ctx.depth > 6:
            raise _Unread("call depth")
        dctx = f.ctx
        mi = dctx.mi if dctx is not None else f.q
        dec = self.scan_decorator(fn, dctx if dctx is not None else _Ctx(self, fn, mi, {}, "", None, None, ctx.depth + 1)) if isinstance(fn, ast.FunctionDef) else None
        own = getattr(f, "dec", None)           # the function value is nnx.scan(fn, in_axes=.., out_axes=..): the call form of the decorator
        if own is not None and dec is not None:
            raise _Unread(f"scan of the scanned function `{fn.name}`")
        binding = self.bind(fn, c, ctx, at)
        parent_at = None
        if dctx is not None:
            parent_at = at if dctx is ctx else (dctx.cfg.node_of(fn).id if isinstance(fn, ast.FunctionDef) else None)
        if own is not None:
            dec, actx, dat = own
            kw = {k.arg: k.value for k in dec.keywords}
            if set(kw) - {"in_axes", "out_axes", "length"}:
                raise _Unread(f"scan options `{short(dec, 60)}`")
            names = [x.arg for x in fn.args.posonlyargs + fn.args.args]
            ia = self.axes(kw.get("in_axes"), actx, len(names), dat)
            oa = self.axes(kw.get("out_axes"), actx, None, dat)
            if any(n_ not in binding for n_ in names):
                raise _Unread(f"`{short(c, 50)}` does not pass every argument of the scanned function")
            length = _int(self.ev(kw["length"], actx, dat)) if "length" in kw else None
            if "length" in kw and length is None:
                raise _Unread(f"scan length `{short(kw['length'], 40)}`")
            return self.scan(fn, mi, dctx, parent_at, names, [binding[n_] for n_ in names], ia, oa, ctx, c, length)
        if dec is None:
            sub = _Ctx(self, fn, mi, binding, ctx.tag + f"/{getattr(c, 'lineno', 0)}.{getattr(c, 'col_offset', 0)}", dctx, parent_at, ctx.depth + 1)
            return self.returns(fn, sub)
        kw = {k.arg: k.value for k in dec.keywords}
        if dec.args or set(kw) - {"in_axes", "out_axes", "length"}:
            raise _Unread(f"scan options `{short(dec, 60)}`")
        names = [x.arg for x in fn.args.posonlyargs + fn.args.args]
        dat = dctx.cfg.node_of(fn).id if dctx is not None and dctx.fn is not fn else None
        actx = dctx if dctx is not None else _Ctx(self, fn, mi, {}, "", None, None, ctx.depth + 1)
        ia = self.axes(kw.get("in_axes"), actx, len(names), dat)
        oa = self.axes(kw.get("out_axes"), actx, None, dat)
        if any(n_ not in binding for n_ in names):
            raise _Unread(f"`{short(c, 50)}` does not pass every argument of the scanned function")
        length = _int(self.ev(kw["length"], actx, dat)) if "length" in kw else None
        if "length" in kw and length is None:
            raise _Unread(f"scan length `{short(kw['length'], 40)}`")
        return self.scan(fn, mi, dctx, parent_at, names, [binding[n_] for n_ in names], ia, oa, ctx, c, length)

    def axes(self, e, dctx, n, at=None):
        """in_axes / out_axes as a list of 'carry' / None / int."""
        if e is None:
            return ["carry", 0] if n in (None, 2) else None
        if isinstance(e, ast.Tuple):
            vals = [(x, self.ev(x, dctx, at)) for x in e.elts]
        else:
            tv = self.ev(e, dctx, at)           # the axes kept in a local / module-level name
            if tv.k != "tup" or tv.fields:
                raise _Unread(f"scan axes `{short(e, 40)}`")
            vals = [(e, x) for x in tv.items]
        out = []
        for x, v in vals:
            if v.k == "ref" and v.q and v.q.endswith(".Carry"):
                out.append("carry")
            elif v.k == "none":
                out.append(None)
            elif _int(v) is not None:
                out.append(_int(v))
            else:
                raise _Unread(f"scan axis `{short(x, 30)}`")
        if n is not None and len(out) != n:
            raise _Unread("scan in_axes do not match the parameters of the scanned function")
        return out

    def step_of(self, v, ax, t, e):
        if v.k == "tup":
            return _V("tup", items=[self.step_of(x, ax, t, e) for x in v.items], fields=v.fields, taint=v.taint)
        if v.k == "arr":
            if v.axis is None and ax in (0, -1) or v.axis is not None and ax % 2 == v.axis:
                return self.entry(v, v.cols[t])
            raise _Unread(f"`{short(e, 50)}` scans an array with a time axis along its batch axis")
        if v.k == "num" and not v.taint:
            a = v.p.single_atom()
            if a is not None:
                return _num(Poly.atom(a[:-1] + f"[{t}]›"))
        raise _Unread(f"`{short(e, 50)}` scans over a value whose time axis is not visible")

    def length_of(self, v, ax):
        if v.k == "tup":
            ls = {self.length_of(x, ax) for x in v.items} - {None}
            return ls.pop() if len(ls) == 1 else (None if not ls else -1)
        if v.k == "arr":
            return len(v.cols)
        return None

    def stack(self, vals, e):
        v0 = vals[0]
        if all(v.k == "num" for v in vals):
            return _V("arr", cols=[v.p for v in vals], axis=0, stacked=True, taint=any(v.taint for v in vals))
        if all(v.k == "tup" and len(v.items) == len(v0.items) for v in vals):
            return _V("tup", items=[self.stack([v.items[i] for v in vals], e) for i in range(len(v0.items))], fields=v0.fields, taint=any(v.taint for v in vals))
        raise _Unread(f"per-step outputs of `{short(e, 50)}`")

    def scan(self, fn, mi, dctx, parent_at, names, vals, ia, oa, ctx, c, length=None):
        if ia is None or ia.count("carry") != 1:
            raise _Unread("scan without exactly one carried argument")
        lens = ({self.length_of(v, a) for v, a in zip(vals, ia) if isinstance(a, int)} | {length}) - {None}
        if len(lens) != 1 or -1 in lens:
            raise _Unread(f"`{short(c, 50)}`: the number of roll-out steps is not visible")
        steps = lens.pop()
        if not 0 < steps <= 8:
            raise _Unread("number of roll-out steps")
        ci = ia.index("carry")
        carry = vals[ci]
        outs = []
        for t in range(steps):
            b = {}
            for n_, v, a in zip(names, vals, ia):
                b[n_] = carry if a == "carry" else (v if a is None else self.step_of(v, a, t, c))
            sub = _Ctx(self, fn, mi, b, ctx.tag + f"§{t}", dctx, parent_at, ctx.depth + 1)
            r = self.returns(fn, sub)
            if r.k != "tup" or len(r.items) != len(oa) or oa.count("carry") != 1:
                raise _Unread(f"`{getattr(fn, 'name', 'lambda')}` does not return (carry, outputs...) as its out_axes say")
            carry = r.items[oa.index("carry")]
            outs.append([x for x, a in zip(r.items, oa) if a != "carry"])
            if any(a is None for a in oa):
                raise _Unread("scan output that is not stacked")
        res, k = [], 0
        for a in oa:
            if a == "carry":
                res.append(carry)
            else:
                res.append(self.stack([o[k] for o in outs], c))
                k += 1
        return _V("tup", items=res, taint=any(self.vt(x) for x in res))

    def lifted_scan_value(self, c, ctx, at):
        """nnx.scan(f, in_axes=.., out_axes=..) as a value: the function f, to be applied with the scan options of this call (the decorator, written as a call)."""
        if any(k.arg is None for k in c.keywords):
            raise _Unread(f"scan options `{short(c, 60)}`")
        f = self.ev(c.args[0], ctx, at)
        if f.k == "ref" and (f.q or "").startswith("rl_blox."):
            try:
                mi, node = self.repo.lookup(f.q)
            except Exception:
                node = None
            if not isinstance(node, ast.FunctionDef):
                raise _Unread(f"scanned function `{short(c.args[0], 40)}`")
            node._module = mi
            f = _V("fn", node=node, ctx=None)
            f.q = mi
        if f.k != "fn" or isinstance(f.node, str) or getattr(f, "dec", None) is not None:
            raise _Unread(f"scanned function `{short(c.args[0], 40)}`")
        g = _V("fn", node=f.node, ctx=f.ctx, dec=(c, ctx, at))
        g.q = f.q
        return g

    def lax_or_lifted_scan(self, q, c, ctx, at):
        """jax.lax.scan(f, init, xs) with f(carry, x) -> (carry, y)."""
        if q != "jax.lax.scan":
            raise _Unread(f"`{short(c, 50)}`")
        kw = {k.arg: k.value for k in c.keywords}
        pos = list(c.args) + [None] * 3
        f_e, init_e, xs_e = pos[0], kw.get("init", pos[1]), kw.get("xs", pos[2])
        if len(c.args) > 3 or set(kw) - {"init", "xs"} or init_e is None or xs_e is None:
            raise _Unread(f"scan options `{short(c, 60)}`")
        f = self.ev(f_e, ctx, at)
        if f.k != "fn" or isinstance(f.node, str):
            raise _Unread(f"scanned function `{short(f_e, 40)}`")
        fn = f.node
        names = [x.arg for x in fn.args.posonlyargs + fn.args.args]
        if len(names) != 2:
            raise _Unread("scanned function must take (carry, x)")
        dctx = f.ctx
        parent_at = at if dctx is ctx else (dctx.cfg.node_of(fn).id if isinstance(fn, ast.FunctionDef) else None)
        return self.scan(fn, dctx.mi, dctx, parent_at, names, [self.ev(init_e, ctx, at), self.ev(xs_e, ctx, at)], ["carry", 0], ["carry", 0], ctx, c)


def _leaves(v, path=()):
    if v.k == "tup":
        out = []
        for i, x in enumerate(v.items):
            out += _leaves(x, path + ((v.fields[i] if v.fields else i),))
        return out
    if v.k == "num":
        return [(path, v.p)]
    raise _Unread("the result of the loss is not a (nested) tuple of numbers")


def _by_step(p: Poly):
    """{step: sub-polynomial of the monomials that contain an atom computed in that roll-out step}; monomials without one under None."""
    out = {}
    for mono, c in p.terms.items():
        steps = {int(m.group(1)) for a, _k in mono for m in [_STEP.search(a)] if m}
        if len(steps) > 1:
            raise _Unread("a term of the loss mixes symbolic values of different roll-out steps")
        k = steps.pop() if steps else None
        out[k] = out.get(k, Poly({})) + Poly({mono: c})
    return out


def _encoder_rollout(ck, repo):
    from itertools import product
    fn = repo.func(_ENC)
    mi = fn._module
    where = loc(mi, fn)
    _env, ren = _roles_env(repo, fn, _ENC)
    bp, hp = _actual(ren, "batch"), _actual(ren, "encoder_horizon")
    ps = param_names(fn)
    ck.need(bp in ps and hp in ps, f"{_ENC}: parameters `batch` / `encoder_horizon` vanished (anchor vanished)")
    res = {}
    for w in product((0, 1), repeat=_HZ):
        ev = _Rollout(repo, w)
        bind = {bp: _V("batch"), hp: _cst(_HZ)}
        try:
            ctx = _Ctx(ev, fn, mi, bind, "")
            leaves = _leaves(ev.returns(fn, ctx))
            bad = sorted(a for _p, p in leaves for a in p.atoms() if a in ev.tainted)
            if bad:
                raise _Unread(f"the loss contains `{bad[0][:70]}`, a value that depends on the termination flags in a way this rule does not read")
            res[w] = [(path, _by_step(p)) for path, p in leaves]
        except _AxisMixup as e:
            ck.ob("R8-rollout-mask", _ENC, "per-sample-weight", False, f"terminated[b, :] = {list(w)}", str(e), where)
            return
        except _Unread as e:
            raise AnalysisError(f"{_ENC}: {e} (unrecognised form)")
        except (RecursionError, KeyError, IndexError, AttributeError, TypeError, ValueError, ZeroDivisionError) as e:
            raise AnalysisError(f"{_ENC}: the roll-out evaluator could not read the function ({type(e).__name__}: {str(e)[:80]}) (unrecognised form)")
    w0 = (0,) * _HZ
    base = res[w0]
    if any([p for p, _ in res[w]] != [p for p, _ in base] for w in res):
        raise AnalysisError(f"{_ENC}: the shape of the result depends on the termination flags (unrecognised form)")
    checked = 0
    for li, (path, b) in enumerate(base):
        steps = sorted(k for k in b if k is not None)
        if not steps:
            continue
        name = "result" + "".join(f"[{x}]" if isinstance(x, int) else f".{x}" for x in path)
        if steps != list(range(_HZ)):
            raise AnalysisError(f"{_ENC}: {name} shows roll-out steps {steps} of {_HZ} (unrecognised form)")
        checked += 1
        bad = None
        for w in sorted(res):
            if w == w0:
                continue
            first = w.index(1)
            got = res[w][li][1]
            for t in steps:
                g, b0 = got.get(t, Poly({})), b[t]
                if t > first and not g.is_zero():
                    bad = (w, t, f"a subtrajectory whose step {first} is terminated still contributes the errors of the later step {t}: `{g.canon()[:110]}`")
                elif t == first and g.is_zero():
                    bad = (w, t, f"the errors of the terminated transition itself (step {t}) are weighted 0: the weight of step t must be the product of (1 - terminated) over the EARLIER steps only")
                elif t < first and g != b0:
                    bad = (w, t, f"the contribution of step {t} changes with the termination flag of the later step {first}: `{g.canon()[:80]}` instead of `{b0.canon()[:80]}`")
                if bad:
                    break
            if bad:
                break
        shown = f"{name}: steps after the first terminated one vanish, the steps up to and including it count, for all {2 ** _HZ} termination patterns of a horizon of {_HZ}"
        ck.ob("R8-rollout-mask", _ENC, f"post-terminal-weight:{name}", bad is None, shown if bad is None else f"{name} with terminated[b, :] = {list(bad[0])}, roll-out step {bad[1]}",
              "" if bad is None else bad[2], where)
    if not checked:
        raise AnalysisError(f"{_ENC}: no component of the result shows the errors of the roll-out steps (unrecognised form)")


# ---- double-Q selection, read per order of the online action values ------------------------------------------------------------
def _ddqn_selection(ck, repo, order):
    """The double-Q bootstrap is the target value of ONE action, a maximiser of the online values.  Read by evaluation: the online values at the
    successor observation are numbers (one world per order pattern of three actions, ties included), the target values symbolic.  With a unique
    maximiser a the loss must be the same function of T_a in every world; in a world with ties it must be the loss of one of the tied actions.
    A loss the evaluator does not read is left to the census (nothing is claimed here)."""
    unique = {(2, 1, 0): 0, (0, 2, 1): 1, (0, 1, 2): 2}
    ties = {(1, 1, 0): (0, 1), (0, 1, 1): (1, 2), (1, 0, 1): (0, 2), (1, 1, 1): (0, 1, 2)}
    for qual in (L + "ddqn_loss", L + "ddqn_per_loss"):
        fn = repo.func(qual)
        mi = fn._module
        _env, ren = _roles_env(repo, fn, qual)
        qn, qt, bn = _actual(ren, "q"), _actual(ren, "q_target"), _actual(ren, "batch")
        if not {qn, qt, bn} <= set(param_names(fn)):
            continue
        vals = {}
        try:
            for w in list(unique) + list(ties):
                ev = _Rollout(repo, ())
                ev.expand_sq = True
                succ = "‹successor›"

                def module(sym, w=w, succ=succ):
                    def call(ev_, args, kws, c, ctx):
                        if len(args) == 1 and not kws and args[0].k == "num" and args[0].p.single_atom() == succ:
                            if sym is None:
                                return _V("arr", cols=[Poly.const(x) for x in w], axis=1, taint=True)
                            return _V("arr", cols=[Poly.atom(f"‹{sym}{i}›") for i in range(len(w))], axis=1)
                        if any(ev_.vt(a) for a in list(args) + list(kws.values())):
                            raise _Unread("a network applied to a value that depends on the online action values")
                        return ev_.opaque(c, ctx, False)
                    return call
                items = [_num(Poly.atom(f"‹{f}›")) for f in order[:5]]
                items[3] = _num(Poly.atom(succ))
                bind = {qn: _V("mod", node=module(None)), qt: _V("mod", node=module("T")), bn: _V("tup", items=items, fields=list(order[:5]))}
                r = ev.returns(fn, _Ctx(ev, fn, mi, bind, ""))
                loss = _leaves(r)[0][1]
                if any(a in ev.abs_of or a in ev.tainted for a in loss.atoms()):
                    raise _Unread("the loss keeps a symbolic term that hides the bootstrap")
                vals[w] = loss
        except (_Unread, RecursionError, KeyError, IndexError, AttributeError, TypeError, ValueError, ZeroDivisionError):
            continue
        ts = [f"‹T{i}›" for i in range(3)]
        X = Poly.atom("‹T›")
        if not any(t in vals[w].atoms() for w in vals for t in ts):
            continue                       # the target values do not reach the loss as far as this reading shows: nothing to compare
        where = loc(mi, fn)
        forms = {w: vals[w].subst({ts[a]: X}) for w, a in unique.items()}
        ref = forms[(2, 1, 0)]
        bad = next((w for w in forms if forms[w] != ref or any(t in forms[w].atoms() for t in ts)), None)
        ck.ob("R2-bootstrap-kind", qual, "selection-follows-online-maximum", bad is None,
              "with a unique maximal online value the loss is one function of the target value of that action" if bad is None else f"online values at the successor = {list(bad)}",
              "" if bad is None else f"the bootstrap is not the target value of the action with the largest online value: loss `{vals[bad].canon()[:140]}`", where)
        if bad is not None:
            continue
        bad = next((w for w, acts in ties.items() if not any(vals[w] == ref.subst({"‹T›": Poly.atom(ts[a])}) for a in acts)), None)
        ck.ob("R2-bootstrap-kind", qual, "selection-under-ties", bad is None,
              "with tied maximal online values the loss is that of one of the tied actions" if bad is None else f"online values at the successor = {list(bad)} (tie)",
              "" if bad is None else f"with tied maximal online values the bootstrap is not the target value of a single maximising action: loss `{vals[bad].canon()[:160]}`", where)


# ---- self-validation variants -------------------------------------------------------------------------------
_F = "rl_blox/blox/losses.py"
_EF = "rl_blox/blox/embedding/model_based_encoder.py"
_DDQN_SEL = "    indices = jnp.argmax(next_q, axis=1).reshape(-1, 1)\n    next_q_t = jax.lax.stop_gradient(q_target(next_obs))\n    next_vals = jnp.take_along_axis(next_q_t, indices, axis=1).squeeze()\n"
_TD3T = "    q_next = jax.lax.stop_gradient(q_target(next_obs_act).squeeze())\n    q_target_value = reward + (1 - terminated) * gamma * q_next\n    return _mse_clipped_double_q_loss(q_target_value, q, action, observation)\n\n\ndef _mse"
# round 2: the scan written as a call, records carried across helpers, the sampling method bound to a name
_SCAN_DEC = "    @nnx.scan(\n        in_axes=(nnx.Carry, None, None, None, None, None, None, 0),\n        out_axes=(nnx.Carry, 0, 0, 0, 0),\n    )\n    def model_rollout(\n"
_SCAN_APP = "    _, dynamics_loss, reward_loss, done_loss, reward_mse = model_rollout(\n"
_SCAN_CALL_FORM = [
    (_SCAN_DEC, "    def rollout_step(\n"),
    (_SCAN_APP, "    unrolled = nnx.scan(\n        rollout_step,\n        out_axes=(nnx.Carry, 0, 0, 0, 0),\n        in_axes=(nnx.Carry, None, None, None, None, None, None, 0),\n    )\n"
                "    _, dynamics_loss, reward_loss, done_loss, reward_mse = unrolled(\n")]
_NAT_BODY = ("    obs, action, reward, next_obs, terminated = batch\n\n    next_q = jax.lax.stop_gradient(q_target(next_obs))\n    max_next_q = jnp.max(next_q, axis=1)\n\n"
             "    target = jnp.array(reward) + (1 - terminated) * gamma * max_next_q\n\n    return mse_discrete_action_value_loss(obs, action, target, q)\n")
_NAT_HELPER = ("class _Regression(NamedTuple):\n    y: jnp.ndarray\n    o: jnp.ndarray\n    a: jnp.ndarray\n\n\n"
               "def _nature_regression(q_target, batch, gamma):\n    obs, action, reward, next_obs, terminated = batch\n"
               "    best = jnp.max(jax.lax.stop_gradient(q_target(next_obs)), axis=1)\n"
               "    return _Regression(o=obs, a=action, y=jnp.array(reward) + (1 - terminated) * gamma * best)\n\n\n@nnx.jit\ndef nature_dqn_loss(\n")
_NAT_RECORD = [
    ("import chex\n", "from typing import NamedTuple\n\nimport chex\n"),
    ("@nnx.jit\ndef nature_dqn_loss(\n", _NAT_HELPER),
    (_NAT_BODY, "    target, obs, action = _nature_regression(q_target, batch, gamma)\n    return mse_discrete_action_value_loss(obs, action, target, q)\n")]
_PER_SAMPLE = "                transition_batch, is_ratio = replay_buffer.sample_batch(batch_size, rng, beta[step])\n"
MUTANTS = [
    {"id": "c03-td3-mask-dropped", "file": _F, "rule": "R1", "find": _TD3T, "replace": _TD3T.replace("reward + (1 - terminated) * gamma * q_next", "reward + gamma * q_next")},
    {"id": "c03-td3-one-plus-d", "file": _F, "rule": "R1", "find": _TD3T, "replace": _TD3T.replace("(1 - terminated)", "(1 + terminated)")},
    {"id": "c03-td3-gamma-dropped", "file": _F, "rule": "R1", "find": _TD3T, "replace": _TD3T.replace("(1 - terminated) * gamma * q_next", "(1 - terminated) * q_next")},
    {"id": "c03-td3-reward-in-mask", "file": _F, "rule": "R1", "find": _TD3T, "replace": _TD3T.replace("reward + (1 - terminated) * gamma * q_next", "(1 - terminated) * (reward + gamma * q_next)")},
    {"id": "c03-td3-factor-two", "file": _F, "rule": "R2", "find": _TD3T, "replace": _TD3T.replace("gamma * q_next", "gamma * 2 * q_next")},
    {"id": "c03-td3-online-bootstrap", "file": _F, "rule": "R", "find": _TD3T, "replace": _TD3T.replace("q_target(next_obs_act)", "q(next_obs_act)")},
    {"id": "c03-td3-obs-bootstrap", "file": _F, "rule": "R2", "find": "    next_obs_act = jnp.concatenate((next_observation, next_action), axis=-1)\n    q_next = jax.lax.stop_gradient(q_target(next_obs_act).squeeze())\n    q_target_value = reward + (1 - terminated) * gamma * q_next\n    return _mse_clipped",
     "replace": "    next_obs_act = jnp.concatenate((observation, next_action), axis=-1)\n    q_next = jax.lax.stop_gradient(q_target(next_obs_act).squeeze())\n    q_target_value = reward + (1 - terminated) * gamma * q_next\n    return _mse_clipped"},
    {"id": "c03-dqn-no-stop-gradient", "file": _F, "rule": "R4", "find": "    next_q = jax.lax.stop_gradient(q(next_obs))\n    max_next_q = jnp.max(next_q, axis=1)\n\n    q_target_values", "replace": "    next_q = q(next_obs)\n    max_next_q = jnp.max(next_q, axis=1)\n\n    q_target_values"},
    {"id": "c03-dqn-min", "file": _F, "rule": "R2", "find": "    max_next_q = jnp.max(next_q, axis=1)\n\n    q_target_values", "replace": "    max_next_q = jnp.min(next_q, axis=1)\n\n    q_target_values"},
    {"id": "c03-nature-axis0", "file": _F, "rule": "R2", "find": "    next_q = jax.lax.stop_gradient(q_target(next_obs))\n    max_next_q = jnp.max(next_q, axis=1)", "replace": "    next_q = jax.lax.stop_gradient(q_target(next_obs))\n    max_next_q = jnp.max(next_q, axis=0)"},
    {"id": "c03-ddqn-swapped-nets", "file": _F, "rule": "R", "nth": 0, "find": "    next_q = jax.lax.stop_gradient(q(next_obs))\n    indices = jnp.argmax(next_q, axis=1).reshape(-1, 1)\n    next_q_t = jax.lax.stop_gradient(q_target(next_obs))",
     "replace": "    next_q = jax.lax.stop_gradient(q_target(next_obs))\n    indices = jnp.argmax(next_q, axis=1).reshape(-1, 1)\n    next_q_t = jax.lax.stop_gradient(q(next_obs))"},
    {"id": "c03-ddqn-select-at-obs", "file": _F, "rule": "R2", "nth": 0, "find": "    next_q = jax.lax.stop_gradient(q(next_obs))\n    indices = jnp.argmax(next_q, axis=1)", "replace": "    next_q = jax.lax.stop_gradient(q(obs))\n    indices = jnp.argmax(next_q, axis=1)"},
    {"id": "c03-per-unweighted", "file": _F, "rule": "R5", "find": "    weighted_loss = is_ratio * (td_error**2)", "replace": "    weighted_loss = td_error**2"},
    {"id": "c03-ddpg-online-policy", "file": _F, "rule": "R", "find": "    next_actions = jax.lax.stop_gradient(policy_target(next_observation))", "replace": "    next_actions = jax.lax.stop_gradient(policy_target(observation))"},
    {"id": "c03-sac-plus-entropy", "file": _F, "rule": "R2", "find": "        q_target(next_obs_act).squeeze() - alpha * next_log_pi", "replace": "        q_target(next_obs_act).squeeze() + alpha * next_log_pi"},
    {"id": "c03-sac-entropy-outside-mask", "file": _F, "rule": "R1", "find": "    q_next_target = jax.lax.stop_gradient(\n        q_target(next_obs_act).squeeze() - alpha * next_log_pi\n    )\n    q_target_value = reward + (1 - terminated) * gamma * q_next_target",
     "replace": "    q_next_target = jax.lax.stop_gradient(q_target(next_obs_act).squeeze())\n    q_target_value = (\n        reward\n        - gamma * alpha * next_log_pi\n        + (1 - terminated) * gamma * q_next_target\n    )"},
    {"id": "c03-lap-one-head", "file": _F, "rule": "R5", "find": "        huber_loss(td_error1, min_priority).mean()\n        + huber_loss(td_error2, min_priority).mean(),", "replace": "        2.0 * huber_loss(td_error1, min_priority).mean(),"},
    {"id": "c03-lap-signed-huber", "file": _F, "rule": "R5", "find": "    td_error1 = jnp.abs(q1_predicted - q_target_value)", "replace": "    td_error1 = q1_predicted - q_target_value"},
    {"id": "c03-clipped-max", "file": "rl_blox/blox/double_qnet.py", "rule": "R2", "find": "        return jnp.minimum(self.q1(*args, **kwargs), self.q2(*args, **kwargs))", "replace": "        return jnp.maximum(self.q1(*args, **kwargs), self.q2(*args, **kwargs))"},
    {"id": "c03-td7-no-clip", "file": "rl_blox/algorithm/td7.py", "rule": "R2", "find": "    q_next_target = jnp.clip(q_next_target, q_min, q_max)\n", "replace": ""},
    {"id": "c03-td7-target-embedding-online", "file": "rl_blox/algorithm/td7.py", "rule": "R2", "find": "    next_zsa, next_zs = fixed_embedding_target(next_observation, next_action)", "replace": "    next_zsa, next_zs = fixed_embedding(next_observation, next_action)"},
    {"id": "c03-td7-signed-huber", "file": "rl_blox/algorithm/td7.py", "rule": "R5", "edits": [
        ("        optax.huber_loss(\n            predictions=q1_pred, targets=q_target, delta=min_priority\n        ).mean()", "        huber_loss(q1_pred - q_target, min_priority).mean()"),
        ("from ..blox.replay_buffer import LAP, lap_priority", "from ..blox.losses import huber_loss\nfrom ..blox.replay_buffer import LAP, lap_priority")]},
    {"id": "c03-mrq-no-sg-encoder", "file": "rl_blox/algorithm/mrq.py", "rule": "R4", "find": "    zsa = jax.lax.stop_gradient(encoder.encode_zsa(zs, action))", "replace": "    zsa = encoder.encode_zsa(zs, action)"},
    {"id": "c03-mrq-scale-swapped", "file": "rl_blox/algorithm/mrq.py", "rule": "R1", "find": "        n_step_return + discount * q_next * target_reward_scale\n    ) / reward_scale", "replace": "        n_step_return + discount * q_next * reward_scale\n    ) / target_reward_scale"},
    {"id": "c03-mrq-online-encoder-target", "file": "rl_blox/algorithm/mrq.py", "rule": "R2", "find": "    next_zs = jax.lax.stop_gradient(encoder_target.encode_zs(next_observation))", "replace": "    next_zs = jax.lax.stop_gradient(encoder.encode_zs(next_observation))"},
    {"id": "c03-sale-no-sg", "file": "rl_blox/blox/embedding/sale.py", "rule": "R6", "find": "    zsp = jax.lax.stop_gradient(embedding.state_embedding(next_observation))", "replace": "    zsp = embedding.state_embedding(next_observation)"},
    {"id": "c03-td3-swapped-at-call", "file": "rl_blox/algorithm/td3.py", "rule": "R7", "find": "                    q_optimizer,\n                    q,\n                    q_target,\n                    next_actions,", "replace": "                    q_optimizer,\n                    q_target,\n                    q,\n                    next_actions,"},
    {"id": "c03-td3-online-smoothing", "file": "rl_blox/algorithm/td3.py", "rule": "R7", "find": "                    policy_target, batch.next_observation, sampling_key", "replace": "                    policy, batch.next_observation, sampling_key"},
    {"id": "c03-sac-wrong-gamma", "file": "rl_blox/algorithm/sac.py", "rule": "R7", "find": "                batch,\n                gamma,\n            )\n            stats = {\"q loss\"", "replace": "                batch,\n                tau,\n            )\n            stats = {\"q loss\""},
    # evidence paths added by the audit: mask read semantically, weights with exponents, dataflow reading of the smoothing call, n-step arguments, wrong tuple component
    {"id": "c03-td3-where-swapped", "file": _F, "rule": "R1", "find": _TD3T, "replace": _TD3T.replace("reward + (1 - terminated) * gamma * q_next", "jnp.where(terminated, reward + gamma * q_next, reward)")},
    {"id": "c03-td7-mask-inside-clip", "file": "rl_blox/algorithm/td7.py", "rule": "R1", "edits": [
        ("    q_next_target = jnp.clip(q_next_target, q_min, q_max)\n", "    q_next_target = jnp.clip((1 - terminated) * q_next_target, q_min, q_max)\n"),
        ("    q_target = reward + (1 - terminated) * gamma * q_next_target", "    q_target = reward + gamma * q_next_target")]},
    {"id": "c03-per-weight-squared", "file": _F, "rule": "R5", "find": "    weighted_loss = is_ratio * (td_error**2)", "replace": "    weighted_loss = is_ratio**2 * (td_error**2)"},
    {"id": "c03-td3-smoothing-at-obs", "file": "rl_blox/algorithm/td3.py", "rule": "R7", "find": "                    policy_target, batch.next_observation, sampling_key", "replace": "                    policy_target, batch.observation, sampling_key"},
    {"id": "c03-per-batch-wrong-component", "file": "rl_blox/algorithm/per.py", "rule": "R7", "find": "                transition_batch, is_ratio = replay_buffer.sample_batch(", "replace": "                is_ratio, transition_batch = replay_buffer.sample_batch("},
    {"id": "c03-mrq-nstep-args-swapped", "file": "rl_blox/algorithm/mrq.py", "rule": "R1", "find": "    n_step_return, discount = discounted_n_step_return(\n        reward, terminated, gamma\n    )", "replace": "    n_step_return, discount = discounted_n_step_return(\n        terminated, reward, gamma\n    )"},
    {"id": "c03-sale-target-at-obs", "file": "rl_blox/blox/embedding/sale.py", "rule": "R6", "find": "    zsp = jax.lax.stop_gradient(embedding.state_embedding(next_observation))", "replace": "    zsp = jax.lax.stop_gradient(embedding.state_embedding(observation))"},
    {"id": "c03-dq-mean-difference", "file": "rl_blox/blox/double_qnet.py", "rule": "R2", "find": "        return 0.5 * (self.q1(*args, **kwargs) + self.q2(*args, **kwargs))", "replace": "        return 0.5 * (self.q1(*args, **kwargs) - self.q2(*args, **kwargs))"},
    {"id": "c03-dq-same-head-twice", "file": "rl_blox/blox/double_qnet.py", "rule": "R2", "find": "        return jnp.minimum(self.q1(*args, **kwargs), self.q2(*args, **kwargs))", "replace": "        return jnp.minimum(self.q1(*args, **kwargs), self.q1(*args, **kwargs))"},
    {"id": "c03-td7-returned-target-unmasked", "file": "rl_blox/algorithm/td7.py", "rule": "R5", "find": "    return q_loss_value, max_abs_td_error, q_target\n", "replace": "    return q_loss_value, max_abs_td_error, reward + gamma * q_next_target\n"},
    {"id": "c03-ddpg-bootstrap-tanh", "file": _F, "rule": "R2", "find": "    q_next = jax.lax.stop_gradient(q_target_value(next_obs_act).squeeze())", "replace": "    q_next = jax.lax.stop_gradient(jnp.tanh(q_target_value(next_obs_act).squeeze()))"},
    {"id": "c03-lap-bootstrap-not-frozen", "file": _F, "rule": "R4", "nth": 1, "find": '    q_next = jax.lax.stop_gradient(q_target(next_obs_act).squeeze())\n    q_target_value = reward + (1 - terminated) * gamma * q_next\n', "replace": '    q_next = q_target(next_obs_act).squeeze()\n    q_target_value = reward + (1 - terminated) * gamma * q_next\n'},
    {"id": "c03-td3-bootstrap-not-frozen", "file": _F, "rule": "R4", "nth": 0, "find": '    q_next = jax.lax.stop_gradient(q_target(next_obs_act).squeeze())\n    q_target_value = reward + (1 - terminated) * gamma * q_next\n', "replace": '    q_next = q_target(next_obs_act).squeeze()\n    q_target_value = reward + (1 - terminated) * gamma * q_next\n'},
    {"id": "c03-sac-next-value-not-frozen", "file": _F, "rule": "R4", "find": "    q_next_target = jax.lax.stop_gradient(\n        q_target(next_obs_act).squeeze() - alpha * next_log_pi\n    )\n", "replace": "    q_next_target = q_target(next_obs_act).squeeze() - jax.lax.stop_gradient(alpha * next_log_pi)\n"},
    {"id": "c03-mrq-target-not-frozen", "file": "rl_blox/algorithm/mrq.py", "rule": "R4", "find": "    q_next = jax.lax.stop_gradient(", "replace": "    q_next = (", "accept_error": True},
    # double-Q selection read per order of the online action values (ties included)
    {"id": "c03-ddqn-all-maximisers-summed", "file": _F, "rule": "R2", "nth": 0, "find": _DDQN_SEL,
     "replace": "    greedy = (next_q >= next_q.max(axis=1, keepdims=True)).astype(next_q.dtype)\n    next_q_t = jax.lax.stop_gradient(q_target(next_obs))\n    next_vals = (greedy * next_q_t).sum(axis=1)\n"},
    {"id": "c03-per-maximisers-averaged", "file": _F, "rule": "R2", "nth": 1, "find": _DDQN_SEL,
     "replace": "    greedy = (next_q >= next_q.max(axis=1, keepdims=True)).astype(next_q.dtype)\n    next_q_t = jax.lax.stop_gradient(q_target(next_obs))\n    next_vals = (greedy * next_q_t).sum(axis=1) / greedy.sum(axis=1)\n"},
    # R8: the weight of roll-out step t of the encoder loss, read per termination pattern
    {"id": "c03-enc-current-flag-in-dynamics-weight", "file": _EF, "rule": "R8", "find": "        dynamics_loss = masked_mse_loss(pred_zs_t, target_zs_t, prev_not_done)", "replace": "        dynamics_loss = masked_mse_loss(pred_zs_t, target_zs_t, not_done[:, t] * prev_not_done)"},
    {"id": "c03-enc-weight-forgets-earlier-steps", "file": _EF, "rule": "R8", "find": "        prev_not_done = not_done[:, t] * prev_not_done\n", "replace": "        prev_not_done = jnp.minimum(not_done[:, t], 1.0)\n"},
    {"id": "c03-enc-first-step-weight-is-first-flag", "file": _EF, "rule": "R8", "find": "    prev_not_done = jnp.ones_like(not_done[:, 0])", "replace": "    prev_not_done = not_done[:, 0]"},
    {"id": "c03-enc-done-term-unweighted", "file": _EF, "rule": "R8", "find": "                target_done_t[:, jnp.newaxis],\n                prev_not_done,\n", "replace": "                target_done_t[:, jnp.newaxis],\n                jnp.ones_like(prev_not_done),\n"},
    {"id": "c03-enc-precomputed-previous-step-only", "file": _EF, "rule": "R8", "edits": [
        ("    prev_not_done = jnp.ones_like(not_done[:, 0])\n", "    prev_not_done = jnp.ones_like(not_done[:, 0])\n    alive = jnp.concatenate([jnp.ones_like(not_done[:, :1]), not_done[:, :-1]], axis=1)\n"),
        ("        pred_zs_t, prev_not_done = zs_t_and_prev_not_done\n", "        pred_zs_t, _carried = zs_t_and_prev_not_done\n        prev_not_done = not_done[:, t]\n"),
        ("        next_zs,\n        not_done,\n        environment_terminates,\n        jnp.arange(encoder_horizon),", "        next_zs,\n        alive,\n        environment_terminates,\n        jnp.arange(encoder_horizon),")]},
    {"id": "c03-enc-time-major-by-reshape", "file": _EF, "rule": "R8", "edits": [
        ("        in_axes=(nnx.Carry, None, None, None, None, None, None, 0),", "        in_axes=(nnx.Carry, None, None, None, None, 0, None, 0),"),
        ("        prev_not_done = not_done[:, t] * prev_not_done\n", "        prev_not_done = prev_not_done * not_done\n"),
        ("        next_zs,\n        not_done,\n        environment_terminates,\n        jnp.arange(encoder_horizon),", "        next_zs,\n        jnp.reshape(not_done, (encoder_horizon, -1)),\n        environment_terminates,\n        jnp.arange(encoder_horizon),")]},
    {"id": "c03-enc-where-mask-inverted", "file": _EF, "rule": "R8", "accept_error": True, "find": "        prev_not_done = not_done[:, t] * prev_not_done\n", "replace": "        prev_not_done = jnp.where(batch.terminated[:, t] > 0, prev_not_done, jnp.zeros_like(prev_not_done))\n"},
    # round 2
    {"id": "c03-enc-scan-call-form-mask-not-carried", "file": _EF, "rule": "R8", "edits": _SCAN_CALL_FORM + [
        ("        prev_not_done = not_done[:, t] * prev_not_done\n", "        prev_not_done = not_done[:, t]\n")]},
    {"id": "c03-nature-record-carrier-mask-dropped", "file": _F, "rule": "R1", "edits": _NAT_RECORD[:1] + [
        (_NAT_RECORD[1][0], _NAT_HELPER.replace("(1 - terminated) * gamma * best", "gamma * best")), _NAT_RECORD[2]]},
    {"id": "c03-nature-record-carrier-unpacked-in-keyword-order", "file": _F, "rule": "R", "edits": _NAT_RECORD[:2] + [
        (_NAT_BODY, "    obs, action, target = _nature_regression(q_target, batch, gamma)\n    return mse_discrete_action_value_loss(obs, action, target, q)\n")]},
    {"id": "c03-per-bound-sampler-ratio-as-batch", "file": "rl_blox/algorithm/per.py", "rule": "R7", "find": _PER_SAMPLE,
     "replace": "                draw = partial(replay_buffer.sample_batch, batch_size)\n                is_ratio, transition_batch = draw(rng, beta[step])\n"},
    {"id": "c03-mrq-nstep-results-by-index-swapped", "file": "rl_blox/algorithm/mrq.py", "rule": "R1", "find": "    n_step_return, discount = discounted_n_step_return(\n        reward, terminated, gamma\n    )\n",
     "replace": "    est = discounted_n_step_return(reward, terminated, gamma)\n    n_step_return, discount = est[1], est[0]\n"},
    {"id": "c03-per-sampled-pair-copied-then-unpacked-swapped", "file": "rl_blox/algorithm/per.py", "rule": "R7", "find": _PER_SAMPLE,
     "replace": "                sampled = replay_buffer.sample_batch(batch_size, rng, beta[step])\n                is_ratio, transition_batch = sampled\n"},
]


BENIGN = [
    {"id": "c03-b-lap-whole-target-frozen", "file": _F, "nth": 1, "find": '    q_next = jax.lax.stop_gradient(q_target(next_obs_act).squeeze())\n    q_target_value = reward + (1 - terminated) * gamma * q_next\n', "replace": '    q_next = q_target(next_obs_act).squeeze()\n    q_target_value = jax.lax.stop_gradient(reward + (1 - terminated) * gamma * q_next)\n'},
    {"id": "c03-b-td3-sg-alias", "file": _F, "nth": 0, "find": '    q_next = jax.lax.stop_gradient(q_target(next_obs_act).squeeze())\n    q_target_value = reward + (1 - terminated) * gamma * q_next\n', "replace": '    sg = jax.lax.stop_gradient\n    q_next = sg(q_target(next_obs_act)).squeeze()\n    q_target_value = reward + (1 - terminated) * gamma * q_next\n'},
    {"id": "c03-b-td3-not-done", "file": _F, "find": _TD3T, "replace": _TD3T.replace("    q_target_value = reward + (1 - terminated) * gamma * q_next", "    not_done = 1 - terminated\n    q_target_value = reward + gamma * not_done * q_next")},
    {"id": "c03-b-td3-expanded", "file": _F, "find": _TD3T, "replace": _TD3T.replace("reward + (1 - terminated) * gamma * q_next", "reward + gamma * q_next - terminated * gamma * q_next")},
    {"id": "c03-b-td3-helper", "file": _F, "find": _TD3T, "replace": "    q_next = jax.lax.stop_gradient(q_target(next_obs_act).squeeze())\n    q_target_value = _td(reward, terminated, gamma, q_next)\n    return _mse_clipped_double_q_loss(q_target_value, q, action, observation)\n\n\ndef _td(r, d, g, b):\n    return r + (1 - d) * g * b\n\n\ndef _mse"},
    {"id": "c03-b-dqn-method-max", "file": _F, "find": "    next_q = jax.lax.stop_gradient(q(next_obs))\n    max_next_q = jnp.max(next_q, axis=1)\n\n    q_target_values", "replace": "    next_q = jax.lax.stop_gradient(q(next_obs))\n    max_next_q = next_q.max(axis=1)\n\n    q_target_values"},
    {"id": "c03-b-ddpg-hstack", "file": _F, "find": "    next_obs_act = jnp.concatenate((next_observation, next_actions), axis=-1)\n    q_next = jax.lax.stop_gradient(q_target_value(next_obs_act).squeeze())", "replace": "    next_obs_act = jnp.concatenate([next_observation, next_actions], axis=-1)\n    q_next = jax.lax.stop_gradient(q_target_value(next_obs_act).squeeze())"},
    {"id": "c03-b-mse-manual", "file": _F, "find": "    q1_loss = optax.squared_error(\n        predictions=q1_predicted, targets=q_target_value\n    ).mean()", "replace": "    q1_loss = jnp.mean((q_target_value - q1_predicted) ** 2)"},
    {"id": "c03-b-sac-sg-split", "file": _F, "find": "    q_next_target = jax.lax.stop_gradient(\n        q_target(next_obs_act).squeeze() - alpha * next_log_pi\n    )", "replace": "    q_next_target = jax.lax.stop_gradient(\n        q_target(next_obs_act).squeeze()\n    ) - alpha * next_log_pi"},
    # refactoring kinds the rules were made tolerant to by the audit (each is behaviour preserving)
    {"id": "c03-b-dqn-axis-last", "file": _F, "find": "    next_q = jax.lax.stop_gradient(q(next_obs))\n    max_next_q = jnp.max(next_q, axis=1)\n\n    q_target_values", "replace": "    next_q = jax.lax.stop_gradient(q(next_obs))\n    max_next_q = jnp.max(next_q, axis=-1)\n\n    q_target_values"},
    {"id": "c03-b-ddqn-newaxis-positional-axis", "file": _F, "nth": 0, "find": "    indices = jnp.argmax(next_q, axis=1).reshape(-1, 1)", "replace": "    indices = jnp.expand_dims(jnp.argmax(next_q, 1), 1)"},
    {"id": "c03-b-per-signed-square", "file": _F, "edits": [("    td_error = jnp.abs(pred - target)\n", "    delta = pred - target\n    td_error = jnp.abs(delta)\n"), ("    weighted_loss = is_ratio * (td_error**2)", "    weighted_loss = jax.lax.stop_gradient(is_ratio) * delta**2")]},
    {"id": "c03-b-td3-batch-fields-renamed-params", "file": _F, "nth": 0, "edits": [
        ("    next_action: jnp.ndarray,\n    batch: tuple[\n        jnp.ndarray, jnp.ndarray, jnp.ndarray, jnp.ndarray, jnp.ndarray\n    ],\n    gamma: float,\n) -> tuple[float, float]:",
         "    next_action: jnp.ndarray,\n    transitions: tuple[\n        jnp.ndarray, jnp.ndarray, jnp.ndarray, jnp.ndarray, jnp.ndarray\n    ],\n    discount: float,\n) -> tuple[float, float]:"),
        ("    observation, action, reward, next_observation, terminated = batch\n    next_obs_act = jnp.concatenate((next_observation, next_action), axis=-1)\n    q_next = jax.lax.stop_gradient(q_target(next_obs_act).squeeze())\n    q_target_value = reward + (1 - terminated) * gamma * q_next\n    return _mse_clipped",
         "    observation, action = transitions.observation, transitions.action\n    reward, next_observation, terminated = transitions.reward, transitions.next_observation, transitions.termination\n    next_obs_act = jnp.concatenate((next_observation, next_action), axis=-1)\n    q_next = jax.lax.stop_gradient(q_target(next_obs_act).squeeze())\n    q_target_value = reward + (1 - terminated) * discount * q_next\n    return _mse_clipped")]},
    {"id": "c03-b-td3-where-mask", "file": _F, "find": _TD3T, "replace": _TD3T.replace("reward + (1 - terminated) * gamma * q_next", "jnp.where(terminated, reward, reward + gamma * q_next)")},
    {"id": "c03-b-td3-logical-not-mask", "file": _F, "find": _TD3T, "replace": _TD3T.replace("reward + (1 - terminated) * gamma * q_next", "reward + jnp.logical_not(terminated) * gamma * q_next")},
    {"id": "c03-b-lap-delta-keyword", "file": _F, "find": "        huber_loss(td_error1, min_priority).mean()\n        + huber_loss(td_error2, min_priority).mean(),", "replace": "        huber_loss(td_error1, delta=min_priority).mean()\n        + huber_loss(abs_errors=td_error2, delta=min_priority).mean(),"},
    {"id": "c03-b-sac-hstack", "file": _F, "find": "    next_obs_act = jnp.concatenate((next_observation, next_actions), axis=-1)\n    q_next_target = jax.lax.stop_gradient(", "replace": "    next_obs_act = jnp.hstack((next_observation, next_actions))\n    q_next_target = jax.lax.stop_gradient("},
    {"id": "c03-b-dq-methods-in-mixin", "file": "rl_blox/blox/double_qnet.py", "edits": [
        ("class ContinuousClippedDoubleQNet(nnx.Module):", "class _TwoHeads:\n    def __call__(self, *args, **kwargs) -> jnp.ndarray:\n        first = self.q1(*args, **kwargs)\n        second = self.q2(*args, **kwargs)\n        return jnp.minimum(second, first)\n\n    def mean(self, *args, **kwargs) -> jnp.ndarray:\n        return (self.q1(*args, **kwargs) + self.q2(*args, **kwargs)) / 2\n\n\nclass ContinuousClippedDoubleQNet(_TwoHeads, nnx.Module):"),
        ("    def __call__(self, *args, **kwargs) -> jnp.ndarray:\n        return jnp.minimum(self.q1(*args, **kwargs), self.q2(*args, **kwargs))\n\n    def mean(self, *args, **kwargs) -> jnp.ndarray:\n        \"\"\"Predict mean of both Q networks.\"\"\"\n        return 0.5 * (self.q1(*args, **kwargs) + self.q2(*args, **kwargs))\n", "    n_heads = 2\n")]},
    {"id": "c03-b-td7-optax-positional-delta", "file": "rl_blox/algorithm/td7.py", "find": "        optax.huber_loss(\n            predictions=q1_pred, targets=q_target, delta=min_priority\n        ).mean()", "replace": "        optax.huber_loss(q1_pred, q_target, min_priority).mean()"},
    {"id": "c03-b-sac-float-gamma", "file": "rl_blox/algorithm/sac.py", "find": "                batch,\n                gamma,\n            )\n            stats = {\"q loss\"", "replace": "                batch,\n                float(gamma),\n            )\n            stats = {\"q loss\""},
    {"id": "c03-b-td3-call-keywords-copies", "file": "rl_blox/algorithm/td3.py", "edits": [
        ("                    policy_target, batch.next_observation, sampling_key", "                    policy_target, batch[3], sampling_key"),
        ("                q_loss_value, q_mean = train_step(\n                    q_optimizer,\n                    q,\n                    q_target,\n                    next_actions,\n                    batch,\n                    gamma,\n                )",
         "                discount = gamma\n                transitions = batch\n                q_loss_value, q_mean = train_step(\n                    q_optimizer,\n                    q,\n                    q_target,\n                    next_actions,\n                    batch=transitions,\n                    gamma=discount,\n                )")]},
    {"id": "c03-b-buffer-keys-constant", "file": "rl_blox/blox/replay_buffer.py", "nth": 0, "edits": [
        ("            keys = [\n                \"observation\",\n                \"action\",\n                \"reward\",\n                \"next_observation\",\n                \"termination\",\n            ]\n", "            keys = list(_DEFAULT_KEYS)\n"),
        ("import copy\n", "import copy\n\n_DEFAULT_KEYS = (\"observation\", \"action\", \"reward\", \"next_observation\", \"termination\")\n")]},
    {"id": "c03-b-ddqn-method-argmax-last-axis", "file": _F, "nth": 0, "find": _DDQN_SEL,
     "replace": "    indices = next_q.argmax(axis=-1).reshape(-1, 1)\n    next_q_t = jax.lax.stop_gradient(q_target(next_obs))\n    next_vals = jnp.take_along_axis(next_q_t, indices, axis=-1).squeeze()\n"},
    {"id": "c03-b-per-selection-expand-dims", "file": _F, "nth": 1, "find": _DDQN_SEL,
     "replace": "    next_q_t = jax.lax.stop_gradient(q_target(next_obs))\n    greedy_action = jnp.argmax(next_q, axis=1)\n    next_vals = jnp.take_along_axis(next_q_t, jnp.expand_dims(greedy_action, 1), axis=1).squeeze()\n"},
    # R8: other ways to organise the post-terminal weight of the encoder roll-out
    {"id": "c03-b-enc-precomputed-exclusive-weight", "file": _EF, "edits": [
        ("    prev_not_done = jnp.ones_like(not_done[:, 0])\n", "    prev_not_done = jnp.ones_like(not_done[:, 0])\n    alive = jnp.concatenate([jnp.ones_like(not_done[:, :1]), jnp.cumprod(not_done, axis=1)[:, :-1]], axis=1)\n"),
        ("        pred_zs_t, prev_not_done = zs_t_and_prev_not_done\n", "        pred_zs_t, _carried = zs_t_and_prev_not_done\n        prev_not_done = not_done[:, t]\n"),
        ("        next_zs,\n        not_done,\n        environment_terminates,\n        jnp.arange(encoder_horizon),", "        next_zs,\n        alive,\n        environment_terminates,\n        jnp.arange(encoder_horizon),")]},
    {"id": "c03-b-enc-flags-scanned-time-major", "file": _EF, "edits": [
        ("        in_axes=(nnx.Carry, None, None, None, None, None, None, 0),", "        in_axes=(nnx.Carry, None, None, None, None, 0, None, 0),"),
        ("        prev_not_done = not_done[:, t] * prev_not_done\n", "        prev_not_done = prev_not_done * not_done\n"),
        ("        next_zs,\n        not_done,\n        environment_terminates,\n        jnp.arange(encoder_horizon),", "        next_zs,\n        jnp.transpose(not_done),\n        environment_terminates,\n        jnp.arange(encoder_horizon),")]},
    {"id": "c03-b-enc-flags-reshaped-to-same-layout", "file": _EF, "find": "    not_done = 1 - batch.terminated\n", "replace": "    not_done = (1 - batch.terminated).reshape(-1, encoder_horizon)\n"},
    {"id": "c03-b-enc-where-mask-update", "file": _EF, "find": "        prev_not_done = not_done[:, t] * prev_not_done\n", "replace": "        prev_not_done = jnp.where(batch.terminated[:, t] > 0, jnp.zeros_like(prev_not_done), prev_not_done)\n"},
    {"id": "c03-b-enc-logical-not-flags", "file": _EF, "find": "    not_done = 1 - batch.terminated\n", "replace": "    not_done = jnp.logical_not(batch.terminated).astype(jnp.float32)\n"},
    {"id": "c03-b-enc-done-term-python-branch", "file": _EF, "find": "        done_loss = jnp.where(\n            environment_terminates,\n            masked_mse_loss(\n                pred_done_t[:, jnp.newaxis],\n                target_done_t[:, jnp.newaxis],\n                prev_not_done,\n            ),\n            0.0,\n        )\n",
     "replace": "        if environment_terminates:\n            done_loss = masked_mse_loss(\n                pred_done_t[:, jnp.newaxis],\n                target_done_t[:, jnp.newaxis],\n                prev_not_done,\n            )\n        else:\n            done_loss = jnp.zeros(())\n"},
    {"id": "c03-b-enc-reward-term-weighted-mean-by-hand", "file": _EF, "find": "        reward_loss = jnp.mean(\n            two_hot_cross_entropy_loss(\n                the_bins, pred_reward_logits_t, target_reward_t\n            )\n            * prev_not_done\n        )\n",
     "replace": "        per_sample_ce = two_hot_cross_entropy_loss(\n            the_bins, pred_reward_logits_t, target_reward_t\n        )\n        reward_loss = jnp.sum(jnp.multiply(prev_not_done, per_sample_ce)) / per_sample_ce.shape[0]\n"},
    {"id": "c03-b-enc-done-error-by-hand", "file": _EF, "find": "            masked_mse_loss(\n                pred_done_t[:, jnp.newaxis],\n                target_done_t[:, jnp.newaxis],\n                prev_not_done,\n            ),\n            0.0,\n",
     "replace": "            jnp.mean(jnp.square(pred_done_t - target_done_t) * prev_not_done),\n            0.0,\n"},
    # round 2
    {"id": "c03-b-enc-scan-call-form", "file": _EF, "edits": _SCAN_CALL_FORM},
    {"id": "c03-b-nature-record-carrier", "file": _F, "edits": _NAT_RECORD},
    {"id": "c03-b-per-bound-sampler", "file": "rl_blox/algorithm/per.py", "find": _PER_SAMPLE,
     "replace": "                draw = partial(replay_buffer.sample_batch, batch_size)\n                transition_batch, is_ratio = draw(rng, beta[step])\n"},
    {"id": "c03-b-per-sampler-chosen-by-flag", "file": "rl_blox/algorithm/per.py", "find": _PER_SAMPLE,
     "replace": "                draw = replay_buffer.sample_batch if step > 0 else partial(replay_buffer.sample_batch, beta=beta[step])\n                transition_batch, is_ratio = draw(batch_size, rng, beta[step])\n"},
    {"id": "c03-b-nstep-returns-record", "file": "rl_blox/blox/return_estimates.py", "edits": [
        ("import jax.numpy as jnp\n", "from typing import NamedTuple\n\nimport jax.numpy as jnp\n\n\nclass _Estimate(NamedTuple):\n    value: jnp.ndarray\n    remaining_discount: jnp.ndarray\n"),
        ("    return n_step_return, discount\n", "    return _Estimate(remaining_discount=discount, value=n_step_return)\n")]},
    {"id": "c03-b-mrq-nstep-results-by-index", "file": "rl_blox/algorithm/mrq.py", "find": "    n_step_return, discount = discounted_n_step_return(\n        reward, terminated, gamma\n    )\n",
     "replace": "    est = discounted_n_step_return(gamma=gamma, terminated=terminated, reward=reward)\n    discount, n_step_return = est[1], est[0]\n"},
    {"id": "c03-b-per-sampled-pair-copied-then-unpacked", "file": "rl_blox/algorithm/per.py", "find": _PER_SAMPLE,
     "replace": "                sampler = replay_buffer.sample_batch\n                sampled = sampler(batch_size, rng, beta=beta[step])\n                transition_batch, is_ratio = sampled\n"},
    {"id": "c03-b-enc-scan-call-form-axes-named-applied-inline", "file": _EF, "edits": [
        (_SCAN_DEC, "    def rollout_step(\n"),
        (_SCAN_APP, "    ins = (nnx.Carry, None, None, None, None, None, None, 0)\n    outs = (nnx.Carry, 0, 0, 0, 0)\n"
                    "    _, dynamics_loss, reward_loss, done_loss, reward_mse = nnx.scan(rollout_step, in_axes=ins, out_axes=outs)(\n")]},
]
