"""C03 - critic and representation losses implement their documented targets per sample."""
from __future__ import annotations

import ast
import re
from fractions import Fraction

from ..effects import expr_path
from ..identity import Ident, has_base, show
from ..loops import dotted
from ..nf import NF, Scope, Poly, parse_expr
from ..repo import Repo, loc, short, AnalysisError, bind_call, positional_params, param_names
from ..resolve import Resolver
from .c05 import grad_sites

EXPLANATION = (
    "Each loss is brought to a normal form by def-use inlining (helpers such as mse_*_loss, _mse_clipped_double_q_loss and any newly "
    "introduced straight-line helper are inlined), with squared errors kept as atoms sq(P - T). Every regression site is destructured "
    "into the part that depends differentiably on the online module (prediction P) and the rest (target T); T is then checked as a "
    "polynomial identity T == R + (1 - D) * gamma * B over the role atoms R = batch[2], D = batch[4] (whatever the syntactic "
    "arrangement), the bootstrap B is compared with the documented kind through a census of its calls (which module on which role "
    "data under which combining operation), and gradient dependence is tracked through stop_gradient / argmax. R7 transfers the "
    "roles to the callers: the module bound to a target role at every train_step call is a target object of that loop."
)
TRUSTED = [
    "optax.squared_error / l2_loss / huber_loss, jnp semantics of max / minimum / take_along_axis / clip",
    "the sampled Batch field order (observation, action, reward, next_observation, termination) parsed from ReplayBuffer.__init__",
    "jax.lax.stop_gradient blocks differentiation; argmax / comparisons have zero gradient",
]
RULES = {
    "R1-target-identity": "the regression target is identically r + (1 - terminated) * gamma * B (MR.Q: (G + c*B*s_target)/s); terminated samples carry no bootstrap term",
    "R2-bootstrap-kind": "B consists of exactly the documented calls (module, role data, combining operation): max / double-Q selection / clipped min / entropy term / value clip",
    "R3-prediction": "the prediction is the online module on (observation, action) and depends on no target-role module",
    "R4-stop-gradient": "nothing but the prediction depends differentiably on the differentiated module",
    "R5-regression-form": "the loss is the documented regression of P onto T (squared error / Huber of |P - T| / importance-weighted), one site per critic head",
    "R6-representation": "SALE: mean sq(zsa(o,a) - sg(zs(o'))); the embedding target is gradient-stopped",
    "R7-caller-roles": "at every call of a critic update in a training loop the target-role parameters receive target objects, the differentiated one the online object, "
                       "the batch comes from sample_batch and gamma is the gamma parameter",
}

L = "rl_blox.blox.losses."
ROLE = {"O": "batch[0]", "A": "batch[1]", "R": "batch[2]", "N": "batch[3]", "D": "batch[4]"}

# loss -> spec.  census entries were generated from the pinned tree and confirmed against the docstrings (Appendix A of DESIGN.md).
SPEC = {
    L + "dqn_loss": {"theta": "q", "targets": [], "n_sites": 1, "kind": ["sq"],
                     "census": ["max(axis=1) <- {N}", "q <- {N}"]},
    L + "nature_dqn_loss": {"theta": "q", "targets": ["q_target"], "n_sites": 1, "kind": ["sq"],
                            "census": ["max(axis=1) <- {N}", "q_target <- {N}"]},
    L + "ddqn_loss": {"theta": "q", "targets": ["q_target"], "n_sites": 1, "kind": ["sq"],
                      "census": ["argmax(axis=1) <- {N}", "argmax>q <- {N}", "q_target <- {N}", "reshape <- {N}", "take_along_axis(axis=1) <- {N}"]},
    L + "ddqn_per_loss": {"theta": "q", "targets": ["q_target"], "n_sites": 1, "kind": ["abs2"], "weight": "is_ratio",
                          "census": ["argmax(axis=1) <- {N}", "argmax>q <- {N}", "q_target <- {N}", "reshape <- {N}", "take_along_axis(axis=1) <- {N}"]},
    L + "ddpg_loss": {"theta": "q", "targets": ["q_target_value", "policy_target"], "n_sites": 1, "kind": ["sq"],
                      "census": ["concat(axis=-1) <- {N}", "policy_target <- {N}", "q_target_value <- {N}"]},
    L + "td3_loss": {"theta": "q", "targets": ["q_target"], "n_sites": 2, "kind": ["sq"],
                     "census": ["concat(axis=-1) <- {N}", "q_target <- {N}"]},
    L + "td3_lap_loss": {"theta": "q", "targets": ["q_target"], "n_sites": 2, "kind": ["huber_abs"],
                         "census": ["concat(axis=-1) <- {N}", "q_target <- {N}"]},
    L + "sac_loss": {"theta": "q", "targets": ["q_target"], "n_sites": 2, "kind": ["sq"],
                     "census": ["concat(axis=-1) <- {N}", "policy.log_probability <- {N}", "policy.sample <- {N}", "policy.sample <- {N}", "q_target <- {N}"],
                     "entropy": True},
}


def _norm_fn(fn: str) -> str:
    return {"concatenate": "concat", "hstack": "concat", "amax": "max", "amin": "min"}.get(fn, fn)


def census(nf: NF, p: Poly, params: set) -> list:
    """Sorted list of the calls occurring in poly ``p`` (recursively): '[argmax>]fn(kw=..) <- {roles}'.
    Module calls nested under an argmax (action *selection*) are marked, so selection and evaluation nets cannot be swapped."""
    out = []
    inv = {v: k for k, v in ROLE.items()}

    def visit_atom(a, ctx):
        m = nf.meta.get(a)
        if m is None:
            return
        fn = m["fn"]
        sub = ctx
        if fn and fn not in ("subscript", "attr", "proj", "sq"):
            root = fn.split(".")[0].split("(")[0]
            is_module = root in params
            is_lib = not is_module and "." not in fn and fn.isidentifier()
            if is_module or is_lib:
                roles = sorted({inv[d] for d in m["deps"] if d in inv})
                kws = ",".join(f"{k}={v.canon()}" for k, v in sorted(m["kws"].items()) if k in ("axis",))
                name = _norm_fn(fn)
                if name not in ("squeeze", "asarray", "array"):
                    out.append(f"{ctx if is_module else ''}{name}{'(' + kws + ')' if kws else ''} <- {{{','.join(roles)}}}")
                if name in ("argmax", "argmin"):
                    sub = ctx + name + ">"
        for q in m["args"]:
            visit_poly(q, sub)
        for q in m["kws"].values():
            visit_poly(q, sub)

    def visit_poly(q, ctx):
        if q.elems is not None:
            for e in q.elems:
                visit_poly(e, ctx)
            return
        for a in sorted(q.atoms()):
            visit_atom(a, ctx)

    visit_poly(p, "")
    return sorted(out)


def regression_sites(nf: NF, Lp: Poly):
    """Destructure a loss poly into [(X, kind, weight atoms, coefficient)], or raise AnalysisError."""
    sites = []
    for mono, c in sorted(Lp.terms.items()):
        if len(mono) != 1 or mono[0][1] != 1:
            raise AnalysisError(f"loss term `{Poly({mono: c}).canon()[:80]}` is not c * mean(...) (unrecognised regression form)")
        m = nf.meta.get(mono[0][0])
        if not m or m["fn"] != "mean":
            raise AnalysisError(f"loss term `{mono[0][0][:80]}` is not a mean (unrecognised regression form)")
        inner = m["args"][0]
        (imono, ic), = inner.terms.items()
        err, weights = None, []
        for a, e in imono:
            am = nf.meta.get(a)
            fn = am["fn"] if am else ""
            if fn == "sq" and e == 1:
                err = ("sq", am["args"][0], None)
            elif fn == "abs" and e == 2:
                err = ("abs2", am["args"][0], None)
            elif fn == "huber" and e == 1:
                ab = am["args"][0]
                abm = nf.meta.get(ab.single_atom() or "")
                if abm and abm["fn"] == "abs":
                    err = ("huber_abs", abm["args"][0], am["kws"].get("delta"))
                else:
                    err = ("huber_signed", ab, am["kws"].get("delta"))
            elif fn.endswith("losses.huber_loss") and e == 1:
                ab = am["args"][0]
                abm = nf.meta.get(ab.single_atom() or "")
                if abm and abm["fn"] == "abs":
                    err = ("huber_abs", abm["args"][0], am["args"][1] if len(am["args"]) > 1 else None)
                else:
                    err = ("huber_signed", ab, am["args"][1] if len(am["args"]) > 1 else None)
            else:
                weights.append((a, e))
        if err is None:
            raise AnalysisError(f"no error atom in loss term `{mono[0][0][:80]}` (unrecognised regression form)")
        sites.append({"kind": err[0], "X": err[1], "delta": err[2], "weights": weights, "coef": c * ic})
    return sites


def split_pt(nf: NF, X: Poly, theta: str):
    """X = +-(P - T): P = the terms depending differentiably on theta."""
    P, rest = Poly({}), Poly({})
    for mono, c in X.terms.items():
        if theta in nf.term_gdeps(mono):
            P = P + Poly({mono: c})
        else:
            rest = rest + Poly({mono: c})
    return P, rest


def target_identity(T: Poly, gamma="gamma"):
    """Check T == R + (1-D)*gamma*B ; return (ok, B, reason)."""
    R, D = ROLE["R"], ROLE["D"]
    parts = T.degree_split(D)
    if not set(parts) <= {0, 1}:
        return False, None, f"target is not affine in the termination flag (degrees {sorted(parts)})"
    T0, T1 = parts.get(0, Poly({})), parts.get(1, Poly({}))
    Xb = T0 - Poly.atom(R)
    if not (T1 + Xb).is_zero():
        if T1.is_zero():
            return False, None, "the bootstrap term is not multiplied by (1 - terminated): a terminated transition still bootstraps"
        return False, None, f"target is not r + (1 - terminated) * X: the terminated-independent part minus r is `{Xb.canon()[:90]}` but the terminated coefficient is `{T1.canon()[:90]}`"
    if Xb.is_zero():
        return False, None, "no bootstrap term at all"
    gp = Xb.degree_split(gamma)
    if set(gp) != {1}:
        return False, None, f"bootstrap is not scaled by gamma exactly once (gamma degrees {sorted(gp)})"
    return True, gp[1], ""


def _loss_env(fn, spec):
    env = {}
    for p in param_names(fn):
        env[p] = Poly.atom(p, {p}, {p})
    return env


def analyse_loss(ck, repo, nf: NF, qual: str, spec: dict, env_extra=None, via=None):
    fn = repo.func(qual)
    mi = fn._module
    where = loc(mi, fn)
    theta = spec["theta"]
    params = set(param_names(fn))
    ck.need(theta in params and "batch" in params and "gamma" in params, f"{qual}: parameters changed (anchor vanished): {sorted(params)}")
    for t in spec["targets"]:
        ck.need(t in params, f"{qual}: target-role parameter `{t}` vanished")
    ret = nf.return_poly(qual, _loss_env(fn, spec))
    Lp = ret.elems[0] if ret.elems is not None else ret
    sites = regression_sites(nf, Lp)
    ck.ob("R5-regression-form", qual, "site-count", len(sites) == spec["n_sites"], f"{len(sites)} regression site(s): {[s['kind'] for s in sites]}",
          "" if len(sites) == spec["n_sites"] else f"documented: {spec['n_sites']} (one per critic head)", where)
    Ts = []
    for i, s in enumerate(sites):
        tag = f"site{i}"
        okk = s["kind"] in spec["kind"]
        why = ""
        if not okk:
            why = f"regression kind `{s['kind']}` instead of {spec['kind']}" + (": Huber applied to a signed error (the quadratic/linear switch then depends on the sign)" if s["kind"] == "huber_signed" else "")
        ck.ob("R5-regression-form", qual, f"{tag}:kind", okk, f"{s['kind']} of X = {s['X'].canon()[:100]}", why, where)
        okc = s["coef"] == 1
        ck.ob("R5-regression-form", qual, f"{tag}:unit-coefficient", okc, f"coefficient {s['coef']}", "" if okc else "the regression term is scaled: the loss value differs from the documented one", where)
        wnames = [a for a, e in s["weights"]]
        want_w = [spec["weight"]] if spec.get("weight") else []
        ck.ob("R5-regression-form", qual, f"{tag}:weights", wnames == want_w, f"per-sample weights {wnames}", "" if wnames == want_w else f"documented weights: {want_w}", where)
        P, rest = split_pt(nf, s["X"], theta)
        _readable_prediction(nf, P, qual, theta)
        # exactly one prediction term with coefficient +-1
        okp = len(P.terms) == 1 and list(P.terms.values())[0] in (1, -1)
        ck.ob("R4-stop-gradient", qual, f"{tag}:single-differentiable-term", okp, f"terms depending differentiably on `{theta}`: {P.canon()[:120]}",
              "" if okp else f"besides the prediction, the target side depends differentiably on `{theta}` (missing stop_gradient): its gradient is not the documented semi-gradient", where)
        if not okp:
            continue
        sign = list(P.terms.values())[0]
        T = nf.unfreeze(rest.scale(-1) if sign == 1 else rest)
        Pn = P.scale(sign)
        Ts.append(T)
        # R3 prediction
        pd = nf.deps_of(Pn)
        need = {ROLE["O"], ROLE["A"]}
        bad_t = [t for t in spec["targets"] if t in pd]
        okr = need <= pd and not bad_t and ROLE["N"] not in pd
        ck.ob("R3-prediction", qual, f"{tag}:prediction-inputs", okr, f"P = {Pn.canon()[:100]}",
              "" if okr else ("prediction uses target module(s) " + str(bad_t) if bad_t else "prediction does not depend on (observation, action) only"), where)
        # R1
        ok1, B, why1 = target_identity(T)
        ck.ob("R1-target-identity", qual, f"{tag}:r+(1-d)*gamma*B", ok1, f"T = {T.canon()[:140]}", why1, where)
        if not ok1:
            continue
        bd = nf.deps_of(B)
        okb = ROLE["N"] in bd and not ({ROLE["O"], ROLE["R"], ROLE["D"]} & bd)
        ck.ob("R2-bootstrap-kind", qual, f"{tag}:bootstrap-inputs", okb, f"B depends on {sorted(d for d in bd if d.startswith('batch'))}",
              "" if okb else "the bootstrap must depend on the successor observation and not on observation / reward / termination", where)
        cen = census(nf, B, params)
        okc2 = cen == sorted(spec["census"])
        ck.ob("R2-bootstrap-kind", qual, f"{tag}:census", okc2, f"B = {B.canon()[:140]}",
              "" if okc2 else f"bootstrap calls {cen} differ from the documented kind {sorted(spec['census'])}", where)
        if spec.get("entropy"):
            # B = Q' - alpha * log pi : coefficient structure
            al = B.degree_split("alpha")
            oke = set(al) == {0, 1} and len(al[1].terms) == 1 and list(al[1].terms.values())[0] == -1 and "log_probability" in al[1].canon() and "log_probability" not in al[0].canon()
            ck.ob("R2-bootstrap-kind", qual, f"{tag}:entropy-term", oke, f"B = {al.get(0, Poly({})).canon()[:60]} + alpha * ({al.get(1, Poly({})).canon()[:60]})",
                  "" if oke else "documented bootstrap is min Q'(o', a') - alpha * log pi(a'|o')", where)
        else:
            lead_ok = len(B.terms) == 1 and list(B.terms.values())[0] == 1
            ck.ob("R2-bootstrap-kind", qual, f"{tag}:unit-bootstrap", lead_ok, f"B = {B.canon()[:100]}", "" if lead_ok else "the bootstrap carries a stray factor or extra term", where)
    if len(Ts) == 2:
        same = Ts[0] == Ts[1]
        ck.ob("R5-regression-form", qual, "shared-target", same, "both critic heads regress onto the same target", "" if same else "the two heads use different targets", where)
    # auxiliary outputs
    return sites, Ts


def _readable_prediction(nf, P, site, theta):
    """The split into prediction / target was made on terms the engine has read: no term at all, or a term that is a record value /
    opaque comprehension, means the prediction is not visible here (undecided), not that the semi-gradient is wrong."""
    if not P.terms:
        raise AnalysisError(f"{site}: no term of the regression depends differentiably on `{theta}` as far as the normal form shows (unrecognised form)")
    for a in P.atoms():
        if "⟦" in a or nf.meta.get(a, {}).get("record") or re.match(r"(⊥)?rl_blox\.[\w.]+\._?[A-Z]\w*\(", a):
            raise AnalysisError(f"{site}: the differentiable part `{a[:80]}` is an unread value (record / comprehension): unrecognised form")


def run(ck, repo: Repo, tier: str):
    ck.opaque_is_unread = True      # a loss term that is an opaque comprehension / record value has not been read by the normal-form engine
    nf = NF(repo, no_inline={"rl_blox.blox.losses.huber_loss", "rl_blox.blox.return_estimates.discounted_n_step_return"}, inline_depth=4 if tier == "quick" else 6)
    nf.expand_squares = False
    nf.track_sg = True
    # Batch field order from ReplayBuffer.__init__
    order = _batch_order(repo)
    ck.ob("R7-caller-roles", "rl_blox.blox.replay_buffer.ReplayBuffer.__init__", "batch-field-order", order[:5] == ["observation", "action", "reward", "next_observation", "termination"],
          f"default keys {order}", "" if order[:5] == ["observation", "action", "reward", "next_observation", "termination"] else "the positional roles of a sampled batch changed", "rl_blox/blox/replay_buffer.py")
    n = 0
    for q, spec in SPEC.items():
        ck.guard(analyse_loss, ck, repo, nf, q, spec)
        n += 1
    ck.guard(_double_q, ck, repo, nf)
    ck.guard(_td7, ck, repo, nf)
    ck.guard(_mrq, ck, repo, nf)
    ck.guard(_sale, ck, repo, nf)
    ck.floor("critic-losses", n + 2, 10)
    ck.guard(_callers, ck, repo)


def _batch_order(repo):
    fn = repo.method("rl_blox.blox.replay_buffer.ReplayBuffer", "__init__")[1]
    for n in ast.walk(fn):
        if isinstance(n, ast.Assign) and isinstance(n.targets[0], ast.Name) and n.targets[0].id == "keys" and isinstance(n.value, (ast.List, ast.Tuple)):
            return [e.value for e in n.value.elts if isinstance(e, ast.Constant)]
    raise AnalysisError("ReplayBuffer.__init__: default key list not found (anchor vanished)")


def _double_q(ck, repo, nf):
    cq = "rl_blox.blox.double_qnet.ContinuousClippedDoubleQNet"
    for meth, want in (("__call__", "minimum(self.q1(**kwargs, *args), self.q2(**kwargs, *args))"), ("mean", None)):
        m = repo.method(cq, meth, inherited=False)
        ck.need(m is not None, f"{cq}.{meth} not found")
        fn = m[1]
        rets = [x for x in ast.walk(fn) if isinstance(x, ast.Return)]
        ck.need(len(rets) == 1, f"{cq}.{meth}: expected one return")
        v = rets[0].value
        fn._module = repo.cls(cq)._module
        cfgq = nf.cfg_of(fn)
        retn = next(n_ for n_ in cfgq.nodes if n_.kind == "stmt" and n_.ast is rets[0])
        canon_v = nf.poly(v, Scope(cfgq, fn._module, {}, cq), retn.id).canon()
        if meth == "__call__":
            want_v = nf.poly(parse_expr("jnp.minimum(self.q1(*args, **kwargs), self.q2(*args, **kwargs))"), Scope(None, fn._module, {}, cq), None).canon()
            ok = canon_v == want_v
            ck.ob("R2-bootstrap-kind", f"{cq}.__call__", "clipped-min", ok, f"return {short(v)}", "" if ok else "the clipped double-Q value must be minimum(q1(x), q2(x))", loc(fn._module, fn))
        else:
            sc = Scope(nf.cfg_of(fn), fn._module, {}, f"{cq}.mean")
            p = nf.poly(v, sc, sc.cfg.node_of(rets[0]).id)
            txt = p.canon()
            ok = txt.count("1/2*") == 2 and "self.q1(" in txt and "self.q2(" in txt and len(p.terms) == 2
            ck.ob("R2-bootstrap-kind", f"{cq}.mean", "mean-of-heads", ok, f"return {txt[:90]}", "" if ok else "mean must be 0.5 * (q1(x) + q2(x))", loc(fn._module, fn))


def _td7(ck, repo, nf):
    q = "rl_blox.algorithm.td7.td7_update_critic"
    fn = repo.func(q)
    mi = fn._module
    where = loc(mi, fn)
    roles = {"observation": "O", "action": "A", "reward": "R", "next_observation": "N", "terminated": "D"}
    params = param_names(fn)
    for p in list(roles) + ["critic", "critic_target", "fixed_embedding", "fixed_embedding_target", "next_action", "gamma", "q_min", "q_max", "min_priority"]:
        ck.need(p in params, f"{q}: parameter `{p}` vanished")
    env = {p: Poly.atom(p, {p}, {p}) for p in params}
    for p, r in roles.items():
        env[p] = Poly.atom(ROLE[r], {ROLE[r]}, {ROLE[r]})
    sites = [s for s in grad_sites(repo, fn, mi)]
    ck.need(len(sites) == 1, f"{q}: expected one value_and_grad site")
    s = sites[0]
    lq = repo.resolve_expr(mi, s["loss"])
    ck.need(lq and repo.has(lq), f"{q}: loss function not resolved")
    lfn = repo.func(lq)
    sc = nf.scope_for(q, env)
    at = sc.cfg.node_of(s["app"]).id
    lp = positional_params(lfn)
    lenv = {}
    for i, a in enumerate(s["app"].args):
        lenv[lp[i]] = nf.poly(a, sc, at)
    theta = lp[s["argnums"][0]]
    ret = nf.return_poly(lq, lenv)
    Lp = ret.elems[0] if ret.elems is not None else ret
    rs = regression_sites(nf, Lp)
    ck.ob("R5-regression-form", q, "site-count", len(rs) == 2, f"{len(rs)} regression sites {[x['kind'] for x in rs]}", "" if len(rs) == 2 else "documented: one Huber term per critic head", where)
    theta_atom = lenv[theta].single_atom()
    Ts = []
    for i, x in enumerate(rs):
        tag = f"site{i}"
        okk = x["kind"] == "huber_abs"
        ck.ob("R5-regression-form", q, f"{tag}:kind", okk, f"{x['kind']} delta={x['delta'].canon() if x['delta'] is not None else None}",
              "" if okk else ("Huber applied to a signed error: quadratic instead of linear for large negative errors" if x["kind"] == "huber_signed" else "documented regression is Huber(|P - T|, min_priority)"), where)
        okd = x["delta"] is not None and x["delta"].canon() == "min_priority"
        ck.ob("R5-regression-form", q, f"{tag}:delta", okd, f"delta = {x['delta'].canon() if x['delta'] is not None else None}", "" if okd else "Huber threshold must be min_priority", where)
        ck.ob("R5-regression-form", q, f"{tag}:unit-coefficient", x["coef"] == 1 and not x["weights"], f"coefficient {x['coef']}, weights {x['weights']}", "" if (x["coef"] == 1 and not x["weights"]) else "scaled / weighted regression term", where)
        P, rest = split_pt(nf, x["X"], theta_atom)
        _readable_prediction(nf, P, q, theta_atom)
        okp = len(P.terms) == 1 and list(P.terms.values())[0] in (1, -1)
        ck.ob("R4-stop-gradient", q, f"{tag}:single-differentiable-term", okp, f"terms differentiable in `{theta_atom}`: {P.canon()[:100]}", "" if okp else "target side depends differentiably on the critic", where)
        if not okp:
            continue
        sign = list(P.terms.values())[0]
        T = nf.unfreeze(rest.scale(-1) if sign == 1 else rest)
        Ts.append(T)
        pd = nf.deps_of(P)
        okr = {ROLE["O"], ROLE["A"]} <= pd and "critic_target" not in pd and "fixed_embedding_target" not in pd and "fixed_embedding" in pd and ROLE["N"] not in pd
        ck.ob("R3-prediction", q, f"{tag}:prediction-inputs", okr, f"P = {P.canon()[:110]}", "" if okr else "prediction must be critic.q_i(o||a, zsa, zs) with (zsa, zs) from the fixed embedding of (o, a)", where)
        ok1, B, why1 = target_identity(T)
        ck.ob("R1-target-identity", q, f"{tag}:r+(1-d)*gamma*B", ok1, f"T = {T.canon()[:140]}", why1, where)
        if not ok1:
            continue
        cen = census(nf, B, set(params))
        want = sorted(["clip <- {N}", "concat(axis=-1) <- {N}", "critic_target <- {N}", "fixed_embedding_target <- {N}", "fixed_embedding_target <- {N}"])
        ck.ob("R2-bootstrap-kind", q, f"{tag}:census", cen == want, f"B = {B.canon()[:150]}", "" if cen == want else f"bootstrap calls {cen} differ from documented {want}", where)
        bm = nf.meta.get(B.single_atom() or "")
        okclip = bool(bm) and bm["fn"] == "clip" and len(bm["args"]) == 3 and bm["args"][2].canon() == "q_max" and "q_min" in [a.canon() for a in bm["args"][:2]]
        ck.ob("R2-bootstrap-kind", q, f"{tag}:value-clip", okclip, "clip(Q', q_min, q_max)", "" if okclip else "documented bootstrap is the target value clipped to [q_min, q_max] with unit coefficient", where)
    # the returned target equals the regression target
    rets = [n for n in ast.walk(fn) if isinstance(n, ast.Return)]
    rp = nf.poly(rets[0].value, sc, sc.cfg.node_of(rets[0]).id)
    if rp.elems is not None and len(rp.elems) == 3 and Ts:
        ck.ob("R5-regression-form", q, "returned-target", nf.unfreeze(rp.elems[2]) == Ts[0], "third result is the regression target", "" if rp.elems[2] == Ts[0] else "the reported q_target differs from the one regressed onto", where)


def _mrq(ck, repo, nf):
    q = "rl_blox.algorithm.mrq.mrq_loss"
    fn = repo.func(q)
    mi = fn._module
    where = loc(mi, fn)
    params = param_names(fn)
    for p in ("q", "q_target", "encoder", "encoder_target", "next_action", "batch", "gamma", "reward_scale", "target_reward_scale"):
        ck.need(p in params, f"{q}: parameter `{p}` vanished")
    env = {p: Poly.atom(p, {p}, {p}) for p in params}
    ret = nf.return_poly(q, env)
    Lp = ret.elems[0] if ret.elems is not None else ret
    rs = regression_sites(nf, Lp)
    ck.ob("R5-regression-form", q, "site-count", len(rs) == 2, f"{len(rs)} sites {[x['kind'] for x in rs]}", "" if len(rs) == 2 else "one Huber term per head documented", where)
    for i, x in enumerate(rs):
        tag = f"site{i}"
        okk = x["kind"] == "huber_abs" and x["delta"] is not None and x["delta"].canon() == "1" and x["coef"] == 1 and not x["weights"]
        ck.ob("R5-regression-form", q, f"{tag}:kind", okk, f"{x['kind']} delta={x['delta'].canon() if x['delta'] is not None else None} coef={x['coef']}", "" if okk else "documented: Huber(|P - T|, 1.0), unit weight", where)
        P, rest = split_pt(nf, x["X"], "q")
        _readable_prediction(nf, P, q, "q")
        okp = len(P.terms) == 1 and list(P.terms.values())[0] in (1, -1)
        ck.ob("R4-stop-gradient", q, f"{tag}:single-differentiable-term", okp, f"{P.canon()[:100]}", "" if okp else "target side depends differentiably on q", where)
        if not okp:
            continue
        sign = list(P.terms.values())[0]
        T = nf.unfreeze(rest.scale(-1) if sign == 1 else rest)
        # encoders are held fixed: the prediction must not depend differentiably on the encoder
        pg = set()
        for mono in P.terms:
            pg |= nf.term_gdeps(mono)
        oke = "encoder" not in pg and "encoder_target" not in pg
        ck.ob("R4-stop-gradient", q, f"{tag}:encoder-fixed", oke, f"prediction differentiable in {sorted(pg)}", "" if oke else "the critic loss differentiates through the encoder (stop_gradient missing)", where)
        pdm = nf.deps_of(P)
        okr = {ROLE["O"], ROLE["A"]} <= pdm and "q_target" not in pdm and "encoder_target" not in pdm and ROLE["N"] not in pdm
        ck.ob("R3-prediction", q, f"{tag}:prediction-inputs", okr, f"P = {P.canon()[:100]}", "" if okr else "prediction must be q.q_i(zsa(zs(o), a)) with the online encoder", where)
        # T == (G + c*B*ts) / rs
        sp = T.degree_split("reward_scale")
        ok1 = set(sp) == {-1}
        why = "" if ok1 else "target is not divided by reward_scale as a whole"
        B = None
        if ok1:
            U = sp[-1]
            G = "rl_blox.blox.return_estimates.discounted_n_step_return(batch[2], batch[4], gamma)[0]"
            C = "rl_blox.blox.return_estimates.discounted_n_step_return(batch[2], batch[4], gamma)[1]"
            cs = U.degree_split(C)
            if set(cs) != {0, 1} or cs[0].canon() != G:
                ok1, why = False, f"target numerator is not n_step_return + discount * ...: `{U.canon()[:120]}`"
            else:
                ts = cs[1].degree_split("target_reward_scale")
                if set(ts) != {1}:
                    ok1, why = False, "bootstrap is not scaled by target_reward_scale exactly once"
                else:
                    B = ts[1]
        ck.ob("R1-target-identity", q, f"{tag}:(G+c*B*s_target)/s", ok1, f"T = {T.canon()[:150]}", why, where)
        if B is not None:
            cen = census(nf, B, set(params))
            want = sorted(["encoder_target.encode_zs <- {N}", "encoder_target.encode_zsa <- {N}", "q_target <- {N}"])
            okc = cen == want and len(B.terms) == 1 and list(B.terms.values())[0] == 1
            ck.ob("R2-bootstrap-kind", q, f"{tag}:census", okc, f"B = {B.canon()[:140]}", "" if okc else f"bootstrap calls {cen} differ from documented {want} (unit coefficient)", where)


def _sale(ck, repo, nf):
    q = "rl_blox.blox.embedding.sale.state_action_embedding_loss"
    fn = repo.func(q)
    where = loc(fn._module, fn)
    params = param_names(fn)
    ck.need(params[:4] == ["embedding", "observation", "action", "next_observation"], f"{q}: signature changed")
    env = {p: Poly.atom(p, {p}, {p}) for p in params}
    Lp = nf.return_poly(q, env)
    rs = regression_sites(nf, Lp)
    ok = len(rs) == 1 and rs[0]["kind"] == "sq" and rs[0]["coef"] == 1 and not rs[0]["weights"]
    ck.ob("R6-representation", q, "mse-form", ok, f"{[x['kind'] for x in rs]}", "" if ok else "documented: mean squared error, unit weight", where)
    if ok:
        P, rest = split_pt(nf, rs[0]["X"], "embedding")
        okp = len(P.terms) == 1 and {"observation", "action"} <= nf.deps_of(P) and "next_observation" not in nf.deps_of(P)
        ck.ob("R6-representation", q, "prediction", okp, f"P = {P.canon()[:100]}", "" if okp else "prediction must be zsa = embedding(observation, action)[0] only (target must be gradient-stopped)", where)
        rest = nf.unfreeze(rest)
        okt = len(rest.terms) == 1 and "next_observation" in nf.deps_of(rest) and not ({"observation", "action"} & nf.deps_of(rest)) and "state_embedding" in rest.canon()
        ck.ob("R6-representation", q, "target", okt, f"T = {rest.canon()[:100]}", "" if okt else "target must be stop_gradient(embedding.state_embedding(next_observation))", where)


# ---------------------------------------------------------------------------------------------------------
CALLERS = {
    # train function -> (loss qual, target-role loss params, theta param)
    "rl_blox.algorithm.nature_dqn.train_nature_dqn": (L + "nature_dqn_loss", ["q_target"], "q"),
    "rl_blox.algorithm.ddqn.train_ddqn": (L + "ddqn_loss", ["q_target"], "q"),
    "rl_blox.algorithm.per.train_ddqn_per": (L + "ddqn_per_loss", ["q_target"], "q"),
    "rl_blox.algorithm.ddpg.train_ddpg": (L + "ddpg_loss", ["q_target_value", "policy_target"], "q"),
    "rl_blox.algorithm.td3.train_td3": (L + "td3_loss", ["q_target"], "q"),
    "rl_blox.algorithm.td3_lap.train_td3_lap": (L + "td3_lap_loss", ["q_target"], "q"),
    "rl_blox.algorithm.sac.train_sac": (L + "sac_loss", ["q_target"], "q"),
    "rl_blox.algorithm.dqn.train_dqn": (L + "dqn_loss", [], "q"),
}


def _callers(ck, repo):
    from .c06 import HELPERS
    res = Resolver(repo)
    idn = Ident(repo)
    n = 0
    for tq, (lq, troles, theta) in CALLERS.items():
        fn = repo.func(tq)
        mi = fn._module
        cfg = res.cfg_of(fn)
        lfn = repo.func(lq)
        lparams = positional_params(lfn)
        # target identities of this loop: second arguments of the target-update helpers
        tids, oids = [], []
        from .c06 import _helper_calls
        # (online, target) argument pairs of every target-update helper call of this loop: keyword calls and loops over literal
        # pairs (also those produced by helper expansion) are resolved by the same routine C06 uses
        for hn, hc, hkind, (oe, te), hkey in _helper_calls(repo, res, fn, cfg):
            oids.append(idn.of(oe, mi, cfg, hn, tq))
            tids.append(idn.of(te, mi, cfg, hn, tq))
        found = False
        if troles and not tids:
            raise AnalysisError(f"{tq}: no target-update helper call is visible in this loop, so its target networks cannot be identified (unrecognised form)")
        for node in cfg.nodes:
            if node.ast is None or node.kind != "stmt":
                continue
            for c in ast.walk(node.ast):
                if not isinstance(c, ast.Call):
                    continue
                t = res.resolve(c.func, mi, cfg, node.id)
                if not (t and t.qual == "rl_blox.algorithm.dqn.train_step_with_loss"):
                    continue
                # train_step = partial(train_step_with_loss, <loss>): prefix[0] is the loss
                ck.need(t.prefix and repo.resolve_expr(mi, t.prefix[0]) == lq, f"{tq}: train_step is not bound to {lq} (anchor vanished)")
                found = True
                n += 1
                args = list(c.args)
                ck.need(len(args) >= 2, f"{tq}: train_step call has too few positional arguments")
                # train_step_with_loss(loss, optimizer, q, *args): loss parameters are (q, *args)
                largs = args[1:]
                b = {p: a for p, a in zip(lparams, largs)}
                for kw in c.keywords:
                    if kw.arg:
                        b[kw.arg] = kw.value
                where = loc(mi, c)
                th = b.get(theta)
                th_id = idn.of(th, mi, cfg, node.id, tq) if th is not None else None
                ok = th_id is not None and th_id not in tids and (not oids or th_id in oids)
                ck.ob("R7-caller-roles", tq, f"online:{theta}", ok, f"{theta} <- `{short(th) if th is not None else None}`",
                      "" if ok else "the differentiated (online) critic parameter receives a target object or an object that is never copied to a target", where)
                for tr in troles:
                    a = b.get(tr)
                    a_id = idn.of(a, mi, cfg, node.id, tq) if a is not None else None
                    ok = a_id is not None and a_id in tids
                    ck.ob("R7-caller-roles", tq, f"target:{tr}", ok, f"{tr} <- `{short(a) if a is not None else None}`",
                          "" if ok else f"the target-role parameter `{tr}` of {lq.rsplit('.', 1)[1]} does not receive a target network of this loop (online and target swapped?)", where)
                g = b.get("gamma")
                ok = isinstance(g, ast.Name) and g.id == "gamma"
                ck.ob("R7-caller-roles", tq, "gamma", ok, f"gamma <- `{short(g) if g is not None else None}`", "" if ok else "the discount passed to the loss is not the gamma parameter", where)
                bt = b.get("batch")
                okb = False
                if isinstance(bt, ast.Name):
                    ds = cfg.defs_of(node.id, bt.id)
                    okb = len(ds) == 1 and ds[0].value is not None and isinstance(ds[0].value, ast.Call) and isinstance(ds[0].value.func, ast.Attribute) and ds[0].value.func.attr == "sample_batch" \
                        and (ds[0].kind == "assign" or (ds[0].kind == "unpack" and ds[0].path == (0,)))
                ck.ob("R7-caller-roles", tq, "batch", okb, f"batch <- `{short(bt) if bt is not None else None}`", "" if okb else "the batch passed to the loss is not the (unmodified) result of sample_batch", where)
        ck.need(found, f"{tq}: no train_step call found (anchor vanished)")
    ck.floor("train-step-call-sites", n, 8)
    # TD3 / TD3-LAP: the smoothed next action comes from the *target* policy on batch.next_observation
    for tq in ("rl_blox.algorithm.td3.train_td3", "rl_blox.algorithm.td3_lap.train_td3_lap"):
        fn = repo.func(tq)
        mi = fn._module
        cfg = res.cfg_of(fn)
        hit = False
        for node in cfg.nodes:
            if node.ast is None or node.kind != "stmt":
                continue
            for c in ast.walk(node.ast):
                if isinstance(c, ast.Call):
                    t = res.resolve(c.func, mi, cfg, node.id)
                    if t and t.qual == "rl_blox.algorithm.td3.sample_target_actions":
                        hit = True
                        a0 = c.args[0] if c.args else None
                        a1 = c.args[1] if len(c.args) > 1 else None
                        ok = isinstance(a0, ast.Name) and a0.id == "policy_target" and a1 is not None and ast.unparse(a1) in ("batch.next_observation", "batch[3]")
                        ck.ob("R7-caller-roles", tq, "smoothed-next-action", ok, f"`{short(c, 70)}`", "" if ok else "target-policy smoothing must use the target policy on the batch's successor observations", loc(mi, c))
        ck.need(hit, f"{tq}: sample_target_actions call not found")


# ---- self-validation variants -------------------------------------------------------------------------------
_F = "rl_blox/blox/losses.py"
_TD3T = "    q_next = jax.lax.stop_gradient(q_target(next_obs_act).squeeze())\n    q_target_value = reward + (1 - terminated) * gamma * q_next\n    return _mse_clipped_double_q_loss(q_target_value, q, action, observation)\n\n\ndef _mse"
MUTANTS = [
    {"id": "c03-td3-mask-dropped", "file": _F, "rule": "R1", "find": _TD3T, "replace": _TD3T.replace("reward + (1 - terminated) * gamma * q_next", "reward + gamma * q_next")},
    {"id": "c03-td3-one-plus-d", "file": _F, "rule": "R1", "find": _TD3T, "replace": _TD3T.replace("(1 - terminated)", "(1 + terminated)")},
    {"id": "c03-td3-gamma-dropped", "file": _F, "rule": "R1", "find": _TD3T, "replace": _TD3T.replace("(1 - terminated) * gamma * q_next", "(1 - terminated) * q_next")},
    {"id": "c03-td3-reward-in-mask", "file": _F, "rule": "R1", "find": _TD3T, "replace": _TD3T.replace("reward + (1 - terminated) * gamma * q_next", "(1 - terminated) * (reward + gamma * q_next)")},
    {"id": "c03-td3-factor-two", "file": _F, "rule": "R2", "find": _TD3T, "replace": _TD3T.replace("gamma * q_next", "gamma * 2 * q_next")},
    {"id": "c03-td3-online-bootstrap", "file": _F, "rule": "R", "find": _TD3T, "replace": _TD3T.replace("q_target(next_obs_act)", "q(next_obs_act)")},
    {"id": "c03-td3-obs-bootstrap", "file": _F, "rule": "R2", "find": "    next_obs_act = jnp.concatenate((next_observation, next_action), axis=-1)\n    q_next = jax.lax.stop_gradient(q_target(next_obs_act).squeeze())\n    q_target_value = reward + (1 - terminated) * gamma * q_next\n    return _mse_clipped",
     "replace": "    next_obs_act = jnp.concatenate((observation, next_action), axis=-1)\n    q_next = jax.lax.stop_gradient(q_target(next_obs_act).squeeze())\n    q_target_value = reward + (1 - terminated) * gamma * q_next\n    return _mse_clipped"},
    {"id": "c03-dqn-no-stop-gradient", "file": _F, "rule": "R4", "find": "    next_q = jax.lax.stop_gradient(q(next_obs))\n    max_next_q = jnp.max(next_q, axis=1)\n\n    q_target_values", "replace": "    next_q = q(next_obs)\n    max_next_q = jnp.max(next_q, axis=1)\n\n    q_target_values"},
    {"id": "c03-dqn-min", "file": _F, "rule": "R2", "find": "    max_next_q = jnp.max(next_q, axis=1)\n\n    q_target_values", "replace": "    max_next_q = jnp.min(next_q, axis=1)\n\n    q_target_values"},
    {"id": "c03-nature-axis0", "file": _F, "rule": "R2", "find": "    next_q = jax.lax.stop_gradient(q_target(next_obs))\n    max_next_q = jnp.max(next_q, axis=1)", "replace": "    next_q = jax.lax.stop_gradient(q_target(next_obs))\n    max_next_q = jnp.max(next_q, axis=0)"},
    {"id": "c03-ddqn-swapped-nets", "file": _F, "rule": "R", "nth": 0, "find": "    next_q = jax.lax.stop_gradient(q(next_obs))\n    indices = jnp.argmax(next_q, axis=1).reshape(-1, 1)\n    next_q_t = jax.lax.stop_gradient(q_target(next_obs))",
     "replace": "    next_q = jax.lax.stop_gradient(q_target(next_obs))\n    indices = jnp.argmax(next_q, axis=1).reshape(-1, 1)\n    next_q_t = jax.lax.stop_gradient(q(next_obs))"},
    {"id": "c03-ddqn-select-at-obs", "file": _F, "rule": "R2", "nth": 0, "find": "    next_q = jax.lax.stop_gradient(q(next_obs))\n    indices = jnp.argmax(next_q, axis=1)", "replace": "    next_q = jax.lax.stop_gradient(q(obs))\n    indices = jnp.argmax(next_q, axis=1)"},
    {"id": "c03-per-unweighted", "file": _F, "rule": "R5", "find": "    weighted_loss = is_ratio * (td_error**2)", "replace": "    weighted_loss = td_error**2"},
    {"id": "c03-ddpg-online-policy", "file": _F, "rule": "R", "find": "    next_actions = jax.lax.stop_gradient(policy_target(next_observation))", "replace": "    next_actions = jax.lax.stop_gradient(policy_target(observation))"},
    {"id": "c03-sac-plus-entropy", "file": _F, "rule": "R2", "find": "        q_target(next_obs_act).squeeze() - alpha * next_log_pi", "replace": "        q_target(next_obs_act).squeeze() + alpha * next_log_pi"},
    {"id": "c03-sac-entropy-outside-mask", "file": _F, "rule": "R1", "find": "    q_next_target = jax.lax.stop_gradient(\n        q_target(next_obs_act).squeeze() - alpha * next_log_pi\n    )\n    q_target_value = reward + (1 - terminated) * gamma * q_next_target",
     "replace": "    q_next_target = jax.lax.stop_gradient(q_target(next_obs_act).squeeze())\n    q_target_value = (\n        reward\n        - gamma * alpha * next_log_pi\n        + (1 - terminated) * gamma * q_next_target\n    )"},
    {"id": "c03-lap-one-head", "file": _F, "rule": "R5", "find": "        huber_loss(td_error1, min_priority).mean()\n        + huber_loss(td_error2, min_priority).mean(),", "replace": "        2.0 * huber_loss(td_error1, min_priority).mean(),"},
    {"id": "c03-lap-signed-huber", "file": _F, "rule": "R5", "find": "    td_error1 = jnp.abs(q1_predicted - q_target_value)", "replace": "    td_error1 = q1_predicted - q_target_value"},
    {"id": "c03-clipped-max", "file": "rl_blox/blox/double_qnet.py", "rule": "R2", "find": "        return jnp.minimum(self.q1(*args, **kwargs), self.q2(*args, **kwargs))", "replace": "        return jnp.maximum(self.q1(*args, **kwargs), self.q2(*args, **kwargs))"},
    {"id": "c03-td7-no-clip", "file": "rl_blox/algorithm/td7.py", "rule": "R2", "find": "    q_next_target = jnp.clip(q_next_target, q_min, q_max)\n", "replace": ""},
    {"id": "c03-td7-target-embedding-online", "file": "rl_blox/algorithm/td7.py", "rule": "R2", "find": "    next_zsa, next_zs = fixed_embedding_target(next_observation, next_action)", "replace": "    next_zsa, next_zs = fixed_embedding(next_observation, next_action)"},
    {"id": "c03-td7-signed-huber", "file": "rl_blox/algorithm/td7.py", "rule": "R5", "edits": [
        ("        optax.huber_loss(\n            predictions=q1_pred, targets=q_target, delta=min_priority\n        ).mean()", "        huber_loss(q1_pred - q_target, min_priority).mean()"),
        ("from ..blox.replay_buffer import LAP, lap_priority", "from ..blox.losses import huber_loss\nfrom ..blox.replay_buffer import LAP, lap_priority")]},
    {"id": "c03-mrq-no-sg-encoder", "file": "rl_blox/algorithm/mrq.py", "rule": "R4", "find": "    zsa = jax.lax.stop_gradient(encoder.encode_zsa(zs, action))", "replace": "    zsa = encoder.encode_zsa(zs, action)"},
    {"id": "c03-mrq-scale-swapped", "file": "rl_blox/algorithm/mrq.py", "rule": "R1", "find": "        n_step_return + discount * q_next * target_reward_scale\n    ) / reward_scale", "replace": "        n_step_return + discount * q_next * reward_scale\n    ) / target_reward_scale"},
    {"id": "c03-mrq-online-encoder-target", "file": "rl_blox/algorithm/mrq.py", "rule": "R2", "find": "    next_zs = jax.lax.stop_gradient(encoder_target.encode_zs(next_observation))", "replace": "    next_zs = jax.lax.stop_gradient(encoder.encode_zs(next_observation))"},
    {"id": "c03-sale-no-sg", "file": "rl_blox/blox/embedding/sale.py", "rule": "R6", "find": "    zsp = jax.lax.stop_gradient(embedding.state_embedding(next_observation))", "replace": "    zsp = embedding.state_embedding(next_observation)"},
    {"id": "c03-td3-swapped-at-call", "file": "rl_blox/algorithm/td3.py", "rule": "R7", "find": "                    q_optimizer,\n                    q,\n                    q_target,\n                    next_actions,", "replace": "                    q_optimizer,\n                    q_target,\n                    q,\n                    next_actions,"},
    {"id": "c03-td3-online-smoothing", "file": "rl_blox/algorithm/td3.py", "rule": "R7", "find": "                    policy_target, batch.next_observation, sampling_key", "replace": "                    policy, batch.next_observation, sampling_key"},
    {"id": "c03-sac-wrong-gamma", "file": "rl_blox/algorithm/sac.py", "rule": "R7", "find": "                batch,\n                gamma,\n            )\n            stats = {\"q loss\"", "replace": "                batch,\n                tau,\n            )\n            stats = {\"q loss\""},
]
BENIGN = [
    {"id": "c03-b-td3-not-done", "file": _F, "find": _TD3T, "replace": _TD3T.replace("    q_target_value = reward + (1 - terminated) * gamma * q_next", "    not_done = 1 - terminated\n    q_target_value = reward + gamma * not_done * q_next")},
    {"id": "c03-b-td3-expanded", "file": _F, "find": _TD3T, "replace": _TD3T.replace("reward + (1 - terminated) * gamma * q_next", "reward + gamma * q_next - terminated * gamma * q_next")},
    {"id": "c03-b-td3-helper", "file": _F, "find": _TD3T, "replace": "    q_next = jax.lax.stop_gradient(q_target(next_obs_act).squeeze())\n    q_target_value = _td(reward, terminated, gamma, q_next)\n    return _mse_clipped_double_q_loss(q_target_value, q, action, observation)\n\n\ndef _td(r, d, g, b):\n    return r + (1 - d) * g * b\n\n\ndef _mse"},
    {"id": "c03-b-dqn-method-max", "file": _F, "find": "    next_q = jax.lax.stop_gradient(q(next_obs))\n    max_next_q = jnp.max(next_q, axis=1)\n\n    q_target_values", "replace": "    next_q = jax.lax.stop_gradient(q(next_obs))\n    max_next_q = next_q.max(axis=1)\n\n    q_target_values"},
    {"id": "c03-b-ddpg-hstack", "file": _F, "find": "    next_obs_act = jnp.concatenate((next_observation, next_actions), axis=-1)\n    q_next = jax.lax.stop_gradient(q_target_value(next_obs_act).squeeze())", "replace": "    next_obs_act = jnp.concatenate([next_observation, next_actions], axis=-1)\n    q_next = jax.lax.stop_gradient(q_target_value(next_obs_act).squeeze())"},
    {"id": "c03-b-mse-manual", "file": _F, "find": "    q1_loss = optax.squared_error(\n        predictions=q1_predicted, targets=q_target_value\n    ).mean()", "replace": "    q1_loss = jnp.mean((q_target_value - q1_predicted) ** 2)"},
    {"id": "c03-b-sac-sg-split", "file": _F, "find": "    q_next_target = jax.lax.stop_gradient(\n        q_target(next_obs_act).squeeze() - alpha * next_log_pi\n    )", "replace": "    q_next_target = jax.lax.stop_gradient(\n        q_target(next_obs_act).squeeze()\n    ) - alpha * next_log_pi"},
]
