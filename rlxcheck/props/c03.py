"""C03 - critic and representation losses implement their documented targets per sample."""
from __future__ import annotations

import ast
import re
from collections import Counter
from fractions import Fraction

from ..effects import expr_path
from ..identity import Ident, has_base, show, alternatives
from ..loops import dotted
from ..nf import NF, Scope, Poly, parse_expr
from ..repo import Repo, loc, short, AnalysisError, bind_call, positional_params, param_names
from ..resolve import Resolver
from ..specialise import load_signatures
from .c05 import grad_sites

EXPLANATION = (
    "Each loss is brought to a normal form by def-use inlining (helpers such as mse_*_loss, _mse_clipped_double_q_loss and any newly "
    "introduced straight-line helper are inlined), with squared errors kept as atoms sq(P - T). Every regression site is destructured "
    "into the part that depends differentiably on the online module (prediction P) and the rest (target T); T is then checked as a "
    "polynomial identity T == R + (1 - D) * gamma * B over the role atoms R = batch[2], D = batch[4] (whatever the syntactic "
    "arrangement), the bootstrap B is compared with the documented kind through a census of its calls (which module on which role "
    "data under which combining operation), and gradient dependence is tracked through stop_gradient / argmax. R7 transfers the "
    "roles to the callers: the module bound to a target role at every train_step call is a target object of that loop. Parameters "
    "take their roles from the recorded signatures (by name, a renamed one by its position). A comparison that fails counts as a "
    "violation only on a value the engine has read completely and that is built from the documented vocabulary (a substituted module, "
    "role, operation, axis, constant or sign); anything else is reported as an unrecognised form (undecided)."
)
TRUSTED = [
    "optax.squared_error / l2_loss / huber_loss, jnp semantics of max / minimum / take_along_axis / clip",
    "the sampled Batch field order (observation, action, reward, next_observation, termination) parsed from ReplayBuffer.__init__",
    "jax.lax.stop_gradient blocks differentiation; argmax / comparisons have zero gradient",
    "network outputs and batch fields are 2-d / 1-d arrays: axis=-1 and axis=1 name the same axis",
]
RULES = {
    "R1-target-identity": "the regression target is identically r + (1 - terminated) * gamma * B (MR.Q: (G + c*B*s_target)/s); terminated samples carry no bootstrap term",
    "R2-bootstrap-kind": "B consists of exactly the documented calls (module, role data, combining operation): max / double-Q selection / clipped min / entropy term / value clip",
    "R3-prediction": "the prediction is the online module on (observation, action) and depends on no target-role module",
    "R4-stop-gradient": "nothing but the prediction depends differentiably on the differentiated module",
    "R5-regression-form": "the loss is the documented regression of P onto T (squared error / Huber of |P - T| / importance-weighted), one site per critic head",
    "R6-representation": "SALE: mean sq(zsa(o,a) - sg(zs(o'))); the embedding target is gradient-stopped",
    "R7-caller-roles": "at every call of a critic update in a training loop the target-role parameters receive target objects, the differentiated one the online object, "
                       "the batch comes from sample_batch and gamma is the gamma parameter",
}

L = "rl_blox.blox.losses."
ROLE = {"O": "batch[0]", "A": "batch[1]", "R": "batch[2]", "N": "batch[3]", "D": "batch[4]"}

# loss -> spec (parameter names are those of the recorded signatures).  census entries were generated from the pinned tree and confirmed against the
# docstrings (Appendix A of DESIGN.md); they are compared as sets, layout operations (reshape / squeeze / astype ...) are not part of them.
SPEC = {
    L + "dqn_loss": {"theta": "q", "targets": [], "n_sites": 1, "kind": ["sq"],
                     "census": ["max(axis=1) <- {N}", "q <- {N}"]},
    L + "nature_dqn_loss": {"theta": "q", "targets": ["q_target"], "n_sites": 1, "kind": ["sq"],
                            "census": ["max(axis=1) <- {N}", "q_target <- {N}"]},
    L + "ddqn_loss": {"theta": "q", "targets": ["q_target"], "n_sites": 1, "kind": ["sq"],
                      "census": ["argmax(axis=1) <- {N}", "argmax>q <- {N}", "q_target <- {N}", "take_along_axis(axis=1) <- {N}"]},
    L + "ddqn_per_loss": {"theta": "q", "targets": ["q_target"], "n_sites": 1, "kind": ["sq"], "weight": "is_ratio",
                          "census": ["argmax(axis=1) <- {N}", "argmax>q <- {N}", "q_target <- {N}", "take_along_axis(axis=1) <- {N}"]},
    L + "ddpg_loss": {"theta": "q", "targets": ["q_target_value", "policy_target"], "n_sites": 1, "kind": ["sq"],
                      "census": ["concat(axis=1) <- {N}", "policy_target <- {N}", "q_target_value <- {N}"]},
    L + "td3_loss": {"theta": "q", "targets": ["q_target"], "n_sites": 2, "kind": ["sq"],
                     "census": ["concat(axis=1) <- {N}", "q_target <- {N}"]},
    L + "td3_lap_loss": {"theta": "q", "targets": ["q_target"], "n_sites": 2, "kind": ["huber_abs"],
                         "census": ["concat(axis=1) <- {N}", "q_target <- {N}"]},
    L + "sac_loss": {"theta": "q", "targets": ["q_target"], "n_sites": 2, "kind": ["sq"],
                     "census": ["concat(axis=1) <- {N}", "policy.log_probability <- {N}", "policy.sample <- {N}", "q_target <- {N}"],
                     "entropy": True},
}


# ---- what counts as evidence ----------------------------------------------------------------------------------
_TEMP = re.compile(r"__i\d+\b")                                   # a temporary of the helper expander that stayed a free name
_LEAF = re.compile(r"(batch\[\d+\]|[A-Za-z_]\w*)")                # a role atom or a plain parameter
_MODCALL = re.compile(r"⊥?[A-Za-z_]\w*(\.[A-Za-z_]\w*)*")         # `q`, `q.q1`, `policy.sample`: a (method of a) parameter being called
_RECORD = re.compile(r"(⊥)?rl_blox\.[\w.]+\._?[A-Z]\w*\(")


def _has_record(nf, a, depth=0):
    m = nf.meta.get(a)
    if m is None or depth > 8:
        return False
    if m.get("record"):
        return True
    return any(_has_record(nf, b, depth + 1) for q in list(m.get("args", [])) + list(m.get("kws", {}).values()) for b in q.atoms())


def _unread(nf, *polys):
    """The first atom of the given values that the engine has not read: a merge of definitions φ(..), an opaque expression ⟦..⟧ / λ[..], a
    temporary of the helper expander that is still a free name, a record value, a stop_gradient that was not interpreted.  A comparison
    made on such a value is not evidence of anything."""
    for p in polys:
        if p is None:
            continue
        if p.elems is not None:
            u = _unread(nf, *p.elems)
            if u is not None:
                return u
            continue
        for a in sorted(p.atoms()):
            if "φ(" in a or "⟦" in a or "λ[" in a or _TEMP.search(a) or "stop_gradient" in a or _RECORD.match(a) or _has_record(nf, a):
                return a
    return None


def _nested(nf, p: Poly, leaves):
    """An atom of ``p`` that depends on one of ``leaves`` without being that leaf: the polynomial reading of ``p`` in the leaf is incomplete there
    (`where(terminated, ..)`, `logical_not(terminated)`, `pow(gamma, n)` ...)."""
    for a in sorted(p.atoms()):
        if a not in leaves and (set(leaves) & set(nf.atom_deps(a))):
            return a
    return None


class _Site:
    """Obligations of one rule group.  A failing comparison is recorded as a violation only when every value it was decided on has been read by
    the engine; the undecided ones are collected and raised together when the group is closed (obligations recorded meanwhile stay, so a
    definite violation found next to an unrecognised form is still reported)."""

    def __init__(self, ck, nf, site, where):
        self.ck, self.nf, self.site, self.where, self.und = ck, nf, site, where, []

    def ob(self, rule, key, ok, construct, detail="", read=(), where=None):
        ok = bool(ok)
        if not ok:
            u = _unread(self.nf, *read)
            if u is not None:
                return self.undecided(key, f"decided on a value the engine has not read, `{u[:80]}`")
        self.ck.ob(rule, self.site, key, ok, construct, "" if ok else detail, where or self.where)
        return ok

    def undecided(self, key, msg):
        self.und.append(f"{self.site}: {key}: {msg} (unrecognised form)")
        return None

    def close(self):
        if self.und:
            raise AnalysisError("; ".join(self.und[:4]))


_SIGS = None


def _roles_env(repo, fn, qual):
    """(env, renamed): every parameter bound to an atom that carries the name of the *recorded* signature (the names the tables of this file use).
    A parameter keeps its recorded name where that still exists; one that was renamed takes the role of the recorded parameter at its
    position - only when the two signatures line up one to one (options added later, which the specialise pass reads at their defaults,
    do not count)."""
    global _SIGS
    if _SIGS is None:
        _SIGS = load_signatures()
    rec = _SIGS.get(qual)
    actual = param_names(fn)
    ren = {}
    if rec:
        special = {p for q_, p, _d in (getattr(repo, "specialised", None) or []) if q_ == qual}
        core = [a for a in actual if a not in special]
        if len(core) == len(rec):
            for a, c in zip(core, rec):
                if a != c and a not in rec and c not in actual:
                    ren[a] = c
    env = {}
    for a in actual:
        c = ren.get(a, a)
        env[a] = Poly.atom(c, {c}, {c})
    return env, ren


def _actual(ren, canon):
    return next((a for a, c in ren.items() if c == canon), canon)


def _ret(nf, qual, env):
    try:
        return nf.return_poly(qual, env)
    except ValueError as e:
        raise AnalysisError(f"{e} (unrecognised form)")


def _loss_of(nf, ret: Poly) -> Poly:
    """The loss value of a returned (loss, aux): first element of the tuple display, first field of a plain record (NamedTuple carrier)."""
    if ret.elems is not None:
        return ret.elems[0]
    m = nf.meta.get(ret.single_atom() or "")
    if m and m.get("record") and m.get("args"):
        return m["args"][0]
    return ret


# ---- census of the bootstrap ------------------------------------------------------------------------------------
_LAYOUT = {"squeeze", "asarray", "array", "reshape", "expand_dims", "astype", "arange", "len", "ravel", "flatten", "atleast_1d", "int", "float", "copy",
           "float32", "float64", "int32", "shape"}
_AXIS_AT = {"max": 1, "min": 1, "argmax": 1, "argmin": 1, "concat": 1, "take_along_axis": 2, "mean": 1, "sum": 1}
_KNOWN_OPS = set(_AXIS_AT) | {"minimum", "maximum", "clip"}
_FAMILY = {"max": "extremum", "min": "extremum", "argmax": "selection", "argmin": "selection", "minimum": "pairwise", "maximum": "pairwise"}
_VALUE_CHANGING = {"tanh", "exp", "log", "log1p", "sqrt", "abs", "square", "sigmoid", "softplus", "relu", "sin", "cos", "sign", "pow", "negative", "logsumexp", "softmax"}


def _norm_fn(fn: str) -> str:
    return {"concatenate": "concat", "hstack": "concat", "column_stack": "concat", "amax": "max", "amin": "min"}.get(fn, fn)


def _axis(fn, name, m):
    ax = m["kws"].get("axis")
    at = _AXIS_AT.get(name)
    pos = None
    if ax is None and at is not None and len(m["args"]) > at and m["args"][at].elems is None and m["args"][at].is_const():
        ax, pos = m["args"][at], at
    if ax is None:
        return ("1" if fn in ("hstack", "column_stack") else None), pos
    txt = ax.canon()
    return ("1" if txt == "-1" else txt), pos       # outputs and batch fields are 2-d: the last axis is axis 1


def census(nf: NF, p: Poly, params: set):
    """(entries, unknown).  entries: sorted set of the calls occurring in poly ``p`` (recursively): '[argmax>]fn(axis=..) <- {roles}' for calls of
    module parameters and for value-carrying library operations (layout operations are skipped; axis read by keyword or position, -1 == 1).
    Module calls nested under an argmax (action *selection*) are marked, so selection and evaluation nets cannot be swapped.
    unknown: what the census could not read (functions outside its vocabulary, subscripts whose index it does not see, opaque atoms)."""
    out, unknown = set(), []
    inv = {v: k for k, v in ROLE.items()}

    def visit_atom(a, ctx):
        m = nf.meta.get(a)
        if m is None:
            if not (re.fullmatch(r"[A-Za-z_][\w.]*|batch\[\d+\]|'.*'", a.lstrip("⊥"))):
                unknown.append(a)
            return
        fn = m["fn"]
        sub = ctx
        skip = None
        if fn == "subscript":
            unknown.append(a)                       # the index expression is not part of the recorded arguments
        elif fn and fn not in ("attr", "proj", "sq"):
            root = fn.lstrip("⊥").split(".")[0]
            roles = sorted({inv[d] for d in m["deps"] if d in inv})
            if (not roles or "batch" in m["deps"]) and ((_MODCALL.fullmatch(fn) and root in params) or (fn.isidentifier() and _norm_fn(fn) not in _LAYOUT)):
                unknown.append(f"{fn} on data whose batch fields are not visible")
            if _MODCALL.fullmatch(fn) and root in params:
                out.add(f"{ctx}{fn.lstrip('⊥')} <- {{{','.join(roles)}}}")
            elif fn.isidentifier():
                name = _norm_fn(fn)
                if name not in _LAYOUT:
                    ax, skip = _axis(fn, name, m)
                    if ax is not None and not re.fullmatch(r"-?\d+", ax):
                        unknown.append(f"{name} along the computed axis {ax[:40]}")
                    if name in ("max", "min") and len(m["args"]) >= 2:
                        unknown.append(f"{name} with positional arguments")      # jnp.max(x, 1) and the builtin max(x, 1) have one normal form (arguments ordered)
                    out.add(f"{name}{'(axis=' + ax + ')' if ax is not None else ''} <- {{{','.join(roles)}}}")
                    if name not in _KNOWN_OPS and name not in _VALUE_CHANGING:
                        unknown.append(name)
                if name in ("argmax", "argmin"):
                    sub = ctx + name + ">"
            else:
                unknown.append(fn)                  # neither a module parameter nor a library function: a helper that was not inlined, a method of a value
        for i, q in enumerate(m["args"]):
            if i != skip:
                visit_poly(q, sub)
        for k, q in m["kws"].items():
            if k != "axis":
                visit_poly(q, sub)

    def visit_poly(q, ctx):
        if q.elems is not None:
            for e in q.elems:
                visit_poly(e, ctx)
            return
        for a in sorted(q.atoms()):
            visit_atom(a, ctx)

    visit_poly(p, "")
    return sorted(out), unknown


def census_verdict(cen, unknown, want, params):
    """True: the documented census.  False: the whole bootstrap was read and differs by a *substitution* inside the documented vocabulary (another
    module / role / selection context, max<->min, another axis) or passes through a value-changing function.  Otherwise a text saying why the
    difference is not evidence (an operation outside the vocabulary, calls missing or added without counterpart)."""
    got, want = set(cen), set(want)
    if got == want:
        return True
    extra, missing = got - want, want - got
    if unknown:
        return f"the bootstrap contains `{str(unknown[0])[:60]}`, which the census does not read"

    def name(e):
        return e.split(" <- ")[0].split(">")[-1].split("(")[0]

    def cat(e):
        n = name(e)
        return "module" if n.split(".")[0] in params else _FAMILY.get(n, n)
    if any(name(e) in _VALUE_CHANGING for e in extra):
        return False
    if extra and missing and Counter(map(cat, extra)) == Counter(map(cat, missing)):
        return False
    return f"bootstrap calls {sorted(got)} are neither the documented {sorted(want)} nor a substitution within them"


# ---- regression sites ----------------------------------------------------------------------------------------------
def regression_sites(nf: NF, Lp: Poly):
    """Destructure a loss poly into [(X, kind, weight atoms, coefficient)], or raise AnalysisError."""
    sites = []
    for mono, c in sorted(Lp.terms.items()):
        if len(mono) != 1 or mono[0][1] != 1:
            raise AnalysisError(f"loss term `{Poly({mono: c}).canon()[:80]}` is not c * mean(...) (unrecognised regression form)")
        m = nf.meta.get(mono[0][0])
        if not m or m["fn"] != "mean":
            raise AnalysisError(f"loss term `{mono[0][0][:80]}` is not a mean (unrecognised regression form)")
        inner = m["args"][0]
        if len(inner.terms) != 1:
            raise AnalysisError(f"loss term `{mono[0][0][:80]}` is not the mean of one product (unrecognised regression form)")
        (imono, ic), = inner.terms.items()
        err, weights = None, []
        for a, e in imono:
            am = nf.meta.get(a)
            fn = am["fn"] if am else ""
            if fn == "sq" and e == 1:
                err = ("sq", am["args"][0], None)
            elif fn == "abs" and e == 2:
                err = ("sq", am["args"][0], None)           # |x|^2 == x^2
            elif fn == "huber" and e == 1:
                # optax.huber_loss(P, T, delta=1.0) read by the engine as huber(|P - T|)
                ab = am["args"][0]
                abm = nf.meta.get(ab.single_atom() or "")
                dl = am["kws"].get("delta", Poly.const(1))
                if abm and abm["fn"] == "abs":
                    err = ("huber_abs", abm["args"][0], dl)
                else:
                    err = ("huber_signed", ab, dl)
            elif fn == "huber_loss" and e == 1 and len(am["args"]) == 3 and not am["kws"]:
                # optax.huber_loss(P, T, delta) with positional delta (takes |P - T| itself)
                err = ("huber_abs", am["args"][0] - am["args"][1], am["args"][2])
            elif fn.endswith("losses.huber_loss") and fn.startswith("rl_blox.") and e == 1 and am["args"]:
                ab = am["args"][0]
                abm = nf.meta.get(ab.single_atom() or "")
                dl = am["args"][1] if len(am["args"]) > 1 else am["kws"].get("delta")
                if abm and abm["fn"] == "abs":
                    err = ("huber_abs", abm["args"][0], dl)
                else:
                    err = ("huber_signed", ab, dl)
            else:
                weights.append((a, e))
        if err is None:
            raise AnalysisError(f"no error atom in loss term `{mono[0][0][:80]}` (unrecognised regression form)")
        sites.append({"kind": err[0], "X": err[1], "delta": err[2], "weights": weights, "coef": c * ic})
    return sites


def split_pt(nf: NF, X: Poly, theta: str):
    """X = +-(P - T): P = the terms depending differentiably on theta."""
    P, rest = Poly({}), Poly({})
    for mono, c in X.terms.items():
        if theta in nf.term_gdeps(mono):
            P = P + Poly({mono: c})
        else:
            rest = rest + Poly({mono: c})
    return P, rest


def _raw_prediction(nf, atom, theta):
    """The atom is an output of the online module itself (a call of `theta` / of one of its heads, possibly indexed), not a function of one."""
    for _ in range(6):
        m = nf.meta.get(atom or "")
        if m is None:
            return False
        fn = m["fn"]
        if fn in ("subscript", "proj", "attr") and m["args"]:
            atom = m["args"][0].single_atom()
            continue
        return bool(_MODCALL.fullmatch(fn)) and fn.lstrip("⊥").split(".")[0] == theta
    return False


def _signed_evidence(nf, X, theta):
    """`huber(X)` with X not |..|: X is the signed error only when the online prediction itself enters it linearly; an X that is some other
    function of the prediction (where / sqrt / maximum ... possibly another way of writing the absolute value) has not been read."""
    P, _ = split_pt(nf, X, theta)
    return bool(P.terms) and all(len(mono) == 1 and mono[0][1] == 1 and _raw_prediction(nf, mono[0][0], theta) for mono in P.terms)


def _kind(S, nf, s, theta, tag):
    if s["kind"] == "huber_signed" and not _signed_evidence(nf, s["X"], theta):
        return S.undecided(f"{tag}:kind", f"Huber of `{s['X'].canon()[:80]}`, which is neither |P - T| nor a signed error P - T")
    return s["kind"]


def _prediction(S, nf, tag, X, theta):
    """(sign, P, rest) for X = sign * (P - T) when exactly the prediction depends differentiably on theta; None when violated / undecided."""
    P, rest = split_pt(nf, X, theta)
    key = f"{tag}:single-differentiable-term"
    if not P.terms:
        return S.undecided(key, f"no term of the regression depends differentiably on `{theta}` as far as the normal form shows")
    if len(P.terms) == 1 and list(P.terms.values())[0] not in (1, -1):
        return S.undecided(key, f"the prediction enters the error scaled: `{P.canon()[:80]}`")
    okp = len(P.terms) == 1
    r = S.ob("R4-stop-gradient", key, okp, f"terms depending differentiably on `{theta}`: {P.canon()[:120]}",
             f"besides the prediction, the target side depends differentiably on `{theta}` (missing stop_gradient): its gradient is not the documented semi-gradient", read=[P])
    if r is not True:
        return None
    return list(P.terms.values())[0], P, rest


def _target_side_frozen(S, nf, tag, rest, frozen_roles):
    """The property's gradient clause: the regression target carries no gradient to target networks, target policies and the bootstrap inputs
    (successor observation, successor action).  Decided on the gradient-dependence sets of the normal form (cleared by stop_gradient, kept by
    every differentiable operation): positive evidence is a role that reaches the target side differentiably."""
    g = nf.gdeps_of(rest)
    leak = sorted(g & set(frozen_roles))
    S.ob("R4-stop-gradient", f"{tag}:target-side-frozen", not leak,
         f"target side depends differentiably on {sorted(g)}" if leak else f"no gradient path from the target side to {sorted(frozen_roles)}",
         f"the regression target depends differentiably on {leak} (stop_gradient missing on the bootstrap): the gradient of the loss with respect to "
         f"target networks / bootstrap inputs is not zero", read=[rest])


def target_identity(T: Poly, gamma="gamma"):
    """Check T == R + (1-D)*gamma*B ; return (ok, B, reason)."""
    R, D = ROLE["R"], ROLE["D"]
    parts = T.degree_split(D)
    if not set(parts) <= {0, 1}:
        return False, None, f"target is not affine in the termination flag (degrees {sorted(parts)})"
    T0, T1 = parts.get(0, Poly({})), parts.get(1, Poly({}))
    Xb = T0 - Poly.atom(R)
    if not (T1 + Xb).is_zero():
        if T1.is_zero():
            return False, None, "the bootstrap term is not multiplied by (1 - terminated): a terminated transition still bootstraps"
        return False, None, f"target is not r + (1 - terminated) * X: the terminated-independent part minus r is `{Xb.canon()[:90]}` but the terminated coefficient is `{T1.canon()[:90]}`"
    if Xb.is_zero():
        return False, None, "no bootstrap term at all"
    gp = Xb.degree_split(gamma)
    if set(gp) != {1}:
        return False, None, f"bootstrap is not scaled by gamma exactly once (gamma degrees {sorted(gp)})"
    return True, gp[1], ""


def _const_call(fn, vals):
    """Value of a call whose arguments are all constants, for the few functions a mask is usually written with; None otherwise."""
    try:
        if fn == "logical_not" and len(vals) == 1:
            return Fraction(0 if vals[0] != 0 else 1)
        if fn in ("minimum", "min") and len(vals) >= 2:
            return min(vals)
        if fn in ("maximum", "max") and len(vals) >= 2:
            return max(vals)
        if fn == "abs" and len(vals) == 1:
            return abs(vals[0])
        if fn == "clip" and len(vals) == 3:
            x, lo = (vals[0], vals[1])          # the engine orders the first two arguments; clip is symmetric in them (max(x, lo))
            return min(max(x, lo), vals[2])
        if fn in ("Eq", "NotEq", "Lt", "LtE") and len(vals) == 2:
            return Fraction(int({"Eq": vals[0] == vals[1], "NotEq": vals[0] != vals[1], "Lt": vals[0] < vals[1], "LtE": vals[0] <= vals[1]}[fn]))
    except Exception:
        return None
    return None


def _at(nf, p: Poly, leaf: str, c: int, depth: int = 0):
    """``p`` with the leaf atom set to the constant c - also inside the arguments of the calls it is built from (a `where` whose condition becomes
    a constant selects its branch, logical_not / comparisons / clip of constants are evaluated).  None where an atom that depends on the leaf
    cannot be rebuilt from recorded arguments (subscripts, projections, opaque values)."""
    if depth > 10:
        return None
    if p.elems is not None:
        es = [_at(nf, e, leaf, c, depth + 1) for e in p.elems]
        if any(e is None for e in es):
            return None
        q = Poly.atom("(" + ", ".join(x.canon() for x in es) + ")")
        q.elems = es
        return q
    out = Poly({})
    for mono, k in p.terms.items():
        term = Poly.const(k)
        for a, e in mono:
            if a.lstrip("⊥") == leaf:
                v = Poly.const(c)
            elif leaf not in nf.atom_deps(a):
                v = Poly({((a, 1),): Fraction(1)})
            else:
                m = nf.meta.get(a)
                fn = (m or {}).get("fn", "")
                if not fn or fn in ("subscript", "proj", "attr", "T") or m.get("record") or m.get("at"):
                    return None
                args = [_at(nf, q, leaf, c, depth + 1) for q in m["args"]]
                kws = {kk: _at(nf, q, leaf, c, depth + 1) for kk, q in m["kws"].items()}
                if any(x is None for x in args) or any(x is None for x in kws.values()):
                    return None
                if fn in ("where", "select") and len(args) == 3 and not kws and args[0].elems is None and args[0].is_const():
                    v = args[1] if args[0].const_value() != 0 else args[2]
                elif fn == "sq" and len(args) == 1:
                    v = nf.square(args[0])
                elif not kws and args and all(x.elems is None and x.is_const() for x in args) and _const_call(fn, [x.const_value() for x in args]) is not None:
                    v = Poly.const(_const_call(fn, [x.const_value() for x in args]))
                elif fn in ("mean", "sum"):
                    v = nf._libcall(fn, args, kws, None)
                else:
                    v = nf._mkcall(fn, args, kws, frozenset(m["deps"]) - {leaf}, frozenset(m["gdeps"]) - {leaf})
            term = term * v.pow(e)
        out = out + term
    return out


def _target(S, nf, tag, T):
    """B for T == R + (1 - D) * gamma * B, None when violated / undecided.  The identity is polynomial in the leaves R, D, gamma: where one of them
    also sits inside an atom (`where(terminated, ..)`, `logical_not(terminated)`) a failed identity says nothing."""
    ok1, B, why1 = target_identity(T)
    key = f"{tag}:r+(1-d)*gamma*B"
    if not ok1:
        a = _nested(nf, T, (ROLE["R"], ROLE["D"], "gamma"))
        if a is not None and _nested(nf, T, (ROLE["D"],)) is not None:
            # the termination flag sits inside calls: read the target at terminated = 1 and at terminated = 0 (the statement of the property itself)
            R, D = ROLE["R"], ROLE["D"]
            T1, T0 = _at(nf, T, D, 1), _at(nf, T, D, 0)
            T1, T0 = (nf.unfreeze(T1) if T1 is not None else None), (nf.unfreeze(T0) if T0 is not None else None)
            if T1 is not None and T0 is not None and D not in nf.deps_of(T1) and D not in nf.deps_of(T0) and _unread(nf, T1, T0) is None \
                    and _nested(nf, T1, (R, "gamma")) is None and _nested(nf, T0, (R, "gamma")) is None:
                keep = T1 - Poly.atom(R)
                if not keep.is_zero():
                    S.ob("R1-target-identity", key, False, f"T = {T.canon()[:140]}", f"a terminated transition is regressed onto r + `{keep.canon()[:100]}`: it still carries a bootstrap term", read=[T])
                    return None
                gp = (T0 - Poly.atom(R)).degree_split("gamma")
                if set(gp) == {1}:
                    S.ob("R1-target-identity", key, True, f"T = {T.canon()[:140]}")
                    return gp[1]
        if a is not None:
            return S.undecided(key, f"reward / termination / gamma enter the target inside `{a[:80]}`, not as polynomial factors")
    r = S.ob("R1-target-identity", key, ok1, f"T = {T.canon()[:140]}", why1, read=[T])
    return B if r is True else None


def analyse_loss(ck, repo, nf: NF, qual: str, spec: dict, env_extra=None, via=None):
    fn = repo.func(qual)
    mi = fn._module
    S = _Site(ck, nf, qual, loc(mi, fn))
    theta = spec["theta"]
    env, ren = _roles_env(repo, fn, qual)
    params = {p.single_atom() for p in env.values()}
    ck.need(theta in params and "batch" in params and "gamma" in params, f"{qual}: parameters changed (anchor vanished): {sorted(params)}")
    for t in spec["targets"] + ([spec["weight"]] if spec.get("weight") else []) + (["alpha", "policy"] if spec.get("entropy") else []):
        ck.need(t in params, f"{qual}: role parameter `{t}` vanished")
    ret = _ret(nf, qual, env)
    Lp = _loss_of(nf, ret)
    sites = regression_sites(nf, Lp)
    S.ob("R5-regression-form", "site-count", len(sites) == spec["n_sites"], f"{len(sites)} regression site(s): {[s['kind'] for s in sites]}",
         f"documented: {spec['n_sites']} (one per critic head)", read=[Lp])
    Ts = []
    for i, s in enumerate(sites):
        _analyse_site(S, nf, spec, params, theta, f"site{i}", s, Ts)
    if len(Ts) == 2:
        S.ob("R5-regression-form", "shared-target", Ts[0] == Ts[1], "both critic heads regress onto the same target", "the two heads use different targets", read=Ts)
    S.close()
    return sites, Ts


def _analyse_site(S, nf, spec, params, theta, tag, s, Ts):
    kind = _kind(S, nf, s, theta, tag)
    if kind is None:
        return          # the error term itself was not read: nothing of this site can be split into prediction and target
    okk = kind in spec["kind"]
    why = f"regression kind `{kind}` instead of {spec['kind']}" + (": Huber applied to a signed error (the quadratic/linear switch then depends on the sign)" if kind == "huber_signed" else "")
    S.ob("R5-regression-form", f"{tag}:kind", okk, f"{kind} of X = {s['X'].canon()[:100]}", why, read=[s["X"]])
    okc = s["coef"] == 1
    S.ob("R5-regression-form", f"{tag}:unit-coefficient", okc, f"coefficient {s['coef']}", "the regression term is scaled: the loss value differs from the documented one")
    got_w = sorted((a.lstrip("⊥"), e) for a, e in s["weights"])
    want_w = [(spec["weight"], 1)] if spec.get("weight") else []
    if got_w != want_w and any(not _LEAF.fullmatch(a) for a, _e in got_w):
        S.undecided(f"{tag}:weights", f"per-sample factor {[a[:60] for a, _e in got_w]} is not a plain argument")
    else:
        S.ob("R5-regression-form", f"{tag}:weights", got_w == want_w, f"per-sample weights {[a if e == 1 else f'{a}^{e}' for a, e in got_w]}", f"documented weights: {[a for a, _e in want_w]}")
    pr = _prediction(S, nf, tag, s["X"], theta)
    if pr is None:
        return
    sign, P, rest = pr
    _target_side_frozen(S, nf, tag, rest, set(spec["targets"]) | {"next_action", ROLE["N"]} | ({"policy"} if spec.get("entropy") else set()))
    T = nf.unfreeze(rest.scale(-1) if sign == 1 else rest)
    Pn = P.scale(sign)
    Ts.append(T)
    # R3 prediction
    pd = nf.deps_of(Pn)
    bad_t = [t for t in spec["targets"] if t in pd]
    okr = {ROLE["O"], ROLE["A"]} <= pd and not bad_t and ROLE["N"] not in pd
    if not okr and not bad_t and ROLE["N"] not in pd and "batch" in pd:
        S.undecided(f"{tag}:prediction-inputs", f"the batch enters the prediction `{Pn.canon()[:80]}` as a whole, its fields are not visible")
    elif not okr and not _raw_prediction(nf, Pn.single_atom(), theta):
        S.undecided(f"{tag}:prediction-inputs", f"the differentiable term `{Pn.canon()[:80]}` is not an output of `{theta}` itself but a function of one")
    else:
        S.ob("R3-prediction", f"{tag}:prediction-inputs", okr, f"P = {Pn.canon()[:100]}",
             ("prediction uses target module(s) " + str(bad_t)) if bad_t else "prediction does not depend on (observation, action) only", read=[Pn])
    # R1
    B = _target(S, nf, tag, T)
    if B is None:
        return
    bd = nf.deps_of(B)
    bad = sorted({ROLE["O"], ROLE["R"]} & bd)
    shown = f"B depends on {sorted(d for d in bd if d.startswith('batch'))}"
    if not bad and (ROLE["D"] in bd or ROLE["N"] not in bd):
        S.undecided(f"{tag}:bootstrap-inputs", f"{shown}: the successor observation is not visible in it / it reads the termination flag again")
    else:
        S.ob("R2-bootstrap-kind", f"{tag}:bootstrap-inputs", not bad, shown, "the bootstrap must depend on the successor observation and not on observation / reward", read=[B])
    cen, unknown = census(nf, B, params)
    v = census_verdict(cen, unknown, spec["census"], params)
    if isinstance(v, str):
        S.undecided(f"{tag}:census", v)
    else:
        S.ob("R2-bootstrap-kind", f"{tag}:census", v, f"B = {B.canon()[:140]}", f"bootstrap calls {cen} differ from the documented kind {sorted(spec['census'])}", read=[B])
    if spec.get("entropy"):
        _entropy_term(S, nf, tag, B)
    else:
        lead_ok = len(B.terms) == 1 and list(B.terms.values())[0] == 1
        S.ob("R2-bootstrap-kind", f"{tag}:unit-bootstrap", lead_ok, f"B = {B.canon()[:100]}", "the bootstrap carries a stray factor or extra term", read=[B])


def _entropy_term(S, nf, tag, B):
    """B = Q' - alpha * log pi(a'|o'): alpha is a polynomial factor of exactly the log-probability term, with coefficient -1."""
    key = f"{tag}:entropy-term"
    al = B.degree_split("alpha")

    def logp(p):
        return [a for a in p.atoms() if (nf.meta.get(a) or {}).get("fn", "").lstrip("⊥") == "policy.log_probability"]
    a0, a1 = al.get(0, Poly({})), al.get(1, Poly({}))
    shown = f"B = {a0.canon()[:60]} + alpha * ({a1.canon()[:60]})"
    one = len(a1.terms) == 1 and len(list(a1.terms)[0]) == 1 and list(a1.terms)[0][0][1] == 1 and bool(logp(a1))     # alpha * c * log pi
    oke = set(al) == {0, 1} and one and list(a1.terms.values())[0] == -1 and not logp(a0)
    nested = _nested(nf, B, ("alpha",))
    if not oke and nested is not None:
        return S.undecided(key, f"alpha enters the bootstrap inside `{nested[:80]}`")
    if not oke and not (set(al) == {0} or (al and max(al) >= 2) or logp(a0) or (set(al) == {0, 1} and one)):
        return S.undecided(key, f"the alpha-dependent part `{a1.canon()[:80]}` is not a multiple of the log-probability of the policy")
    return S.ob("R2-bootstrap-kind", key, oke, shown, "documented bootstrap is min Q'(o', a') - alpha * log pi(a'|o')", read=[B])


def _readable_prediction(nf, P, site, theta):
    """The split into prediction / target was made on terms the engine has read: no term at all, or a term that is a record value /
    opaque comprehension, means the prediction is not visible here (undecided), not that the semi-gradient is wrong."""
    if not P.terms:
        raise AnalysisError(f"{site}: no term of the regression depends differentiably on `{theta}` as far as the normal form shows (unrecognised form)")
    u = _unread(nf, P)
    if u is not None:
        raise AnalysisError(f"{site}: the differentiable part `{u[:80]}` is an unread value (record / comprehension): unrecognised form")


def run(ck, repo: Repo, tier: str):
    ck.opaque_is_unread = True      # a loss term that is an opaque comprehension / record value has not been read by the normal-form engine
    nf = NF(repo, no_inline={"rl_blox.blox.losses.huber_loss", "rl_blox.blox.return_estimates.discounted_n_step_return"}, inline_depth=4 if tier == "quick" else 6)
    nf.expand_squares = False
    nf.track_sg = True
    # Batch field order from ReplayBuffer.__init__
    order = _batch_order(repo)
    fields = ["observation", "action", "reward", "next_observation", "termination"]
    if order[:5] != fields and sorted(order[:5]) != sorted(fields):
        raise AnalysisError(f"ReplayBuffer.__init__: the default keys {order} do not carry the documented field names, the positional roles of a batch cannot be read (unrecognised form)")
    ck.ob("R7-caller-roles", "rl_blox.blox.replay_buffer.ReplayBuffer.__init__", "batch-field-order", order[:5] == fields,
          f"default keys {order}", "" if order[:5] == fields else "the positional roles of a sampled batch changed", "rl_blox/blox/replay_buffer.py")
    n = 0
    nf.field_order = list(order)     # the losses of the replay-buffer loops may read the sampled Batch by field name: batch.reward == batch[2]
    for q, spec in SPEC.items():
        ck.guard(analyse_loss, ck, repo, nf, q, spec)
        n += 1
    nf.field_order = None
    ck.guard(_double_q, ck, repo, nf)
    ck.guard(_td7, ck, repo, nf)
    ck.guard(_mrq, ck, repo, nf)
    ck.guard(_sale, ck, repo, nf)
    ck.floor("critic-losses", n + 2, 10)
    ck.guard(_callers, ck, repo, order)


def _string_list(mi, e, depth=0):
    """The strings of a list / tuple display, also behind list(..) / tuple(..) and a module-level constant; None otherwise."""
    if isinstance(e, (ast.List, ast.Tuple)) and e.elts and all(isinstance(x, ast.Constant) and isinstance(x.value, str) for x in e.elts):
        return [x.value for x in e.elts]
    if isinstance(e, ast.Call) and isinstance(e.func, ast.Name) and e.func.id in ("list", "tuple") and len(e.args) == 1 and not e.keywords:
        return _string_list(mi, e.args[0], depth + 1)
    if isinstance(e, ast.Name) and depth < 4:
        d = mi.defs.get(e.id)
        if isinstance(d, (ast.Assign, ast.AnnAssign)) and d.value is not None:
            return _string_list(mi, d.value, depth + 1)
    return None


def _batch_order(repo):
    cq = "rl_blox.blox.replay_buffer.ReplayBuffer"
    owner, fn = repo.method(cq, "__init__")
    mi = repo.cls(owner)._module
    _env, ren = _roles_env(repo, fn, f"{cq}.__init__")
    kp = _actual(ren, "keys")         # the parameter that carries the field names (recorded name `keys`)
    found = [s for n in ast.walk(fn) if isinstance(n, ast.Assign) and len(n.targets) == 1 and isinstance(n.targets[0], ast.Name) and n.targets[0].id == kp
             for s in [_string_list(mi, n.value)] if s is not None]
    if len(found) == 1:
        return found[0]
    raise AnalysisError("ReplayBuffer.__init__: default key list not found (anchor vanished)")


# ---- the clipped double-Q network ---------------------------------------------------------------------------------------
def _head_call(nf, q: Poly):
    """('self.q1' | 'self.q2', argument signature) when q is exactly one call of a head."""
    m = nf.meta.get(q.single_atom() or "")
    if m and m["fn"] in ("self.q1", "self.q2"):
        return m["fn"], (tuple(x.canon() for x in m["args"]), tuple(sorted((k, v.canon()) for k, v in m["kws"].items())))
    return None


def _double_q(ck, repo, nf):
    cq = "rl_blox.blox.double_qnet.ContinuousClippedDoubleQNet"
    groups = []
    for meth in ("__call__", "mean"):
        m = repo.method(cq, meth)       # follows the inheritance chain: the method may live in a base class / mixin
        ck.need(m is not None, f"{cq}.{meth} not found")
        owner, fn = m
        fn._module = repo.cls(owner)._module
        S = _Site(ck, nf, f"{cq}.{meth}", loc(fn._module, fn))
        groups.append(S)
        rets = [x for x in ast.walk(fn) if isinstance(x, ast.Return)]
        ck.need(len(rets) == 1 and rets[0].value is not None, f"{cq}.{meth}: expected one return")
        v = rets[0].value
        sc = Scope(nf.cfg_of(fn), fn._module, {}, f"{owner}.{meth}")
        p = nf.poly(v, sc, sc.cfg.node_of(rets[0]).id)
        pm = nf.meta.get(p.single_atom() or "") or {}
        pair = [_head_call(nf, a) for a in pm.get("args", [])] if pm.get("fn") in ("minimum", "maximum") and len(pm.get("args", [])) == 2 and not pm.get("kws") else None
        both = pair is not None and None not in pair and {pair[0][0], pair[1][0]} == {"self.q1", "self.q2"} and pair[0][1] == pair[1][1]
        heads_only = bool(p.terms) and all(len(mono) == 1 and _head_call(nf, Poly({mono: Fraction(1)})) is not None for mono in p.terms)      # a linear combination of head outputs
        if meth == "__call__":
            ok = both and pm["fn"] == "minimum"
            if not ok and not (pair is not None and None not in pair) and not heads_only:
                S.undecided("clipped-min", f"`{p.canon()[:100]}` is neither minimum / maximum of the two heads nor a combination of their outputs")
            else:
                S.ob("R2-bootstrap-kind", "clipped-min", ok, f"return {short(v)}", "the clipped double-Q value must be minimum(q1(x), q2(x))", read=[p])
        else:
            hs = [_head_call(nf, Poly({mono: Fraction(1)})) for mono in p.terms] if heads_only else []
            ok = heads_only and len(hs) == 2 and {h[0] for h in hs} == {"self.q1", "self.q2"} and hs[0][1] == hs[1][1] and all(c == Fraction(1, 2) for c in p.terms.values())
            if not ok and not heads_only and not (pair is not None and None not in pair):
                S.undecided("mean-of-heads", f"`{p.canon()[:100]}` is not a combination of the outputs of the two heads")
            else:
                S.ob("R2-bootstrap-kind", "mean-of-heads", ok, f"return {p.canon()[:90]}", "mean must be 0.5 * (q1(x) + q2(x))", read=[p])
    und = [u for S in groups for u in S.und]
    if und:
        raise AnalysisError("; ".join(und))


# ---- TD7 / MR.Q / SALE --------------------------------------------------------------------------------------------------
def _td7(ck, repo, nf):
    q = "rl_blox.algorithm.td7.td7_update_critic"
    fn = repo.func(q)
    mi = fn._module
    S = _Site(ck, nf, q, loc(mi, fn))
    roles = {"observation": "O", "action": "A", "reward": "R", "next_observation": "N", "terminated": "D"}
    env, ren = _roles_env(repo, fn, q)
    params = [p.single_atom() for p in env.values()]
    for p in list(roles) + ["critic", "critic_target", "fixed_embedding", "fixed_embedding_target", "next_action", "gamma", "q_min", "q_max", "min_priority"]:
        ck.need(p in params, f"{q}: parameter `{p}` vanished")
    for a, pa in list(env.items()):
        r = roles.get(pa.single_atom())
        if r is not None:
            env[a] = Poly.atom(ROLE[r], {ROLE[r]}, {ROLE[r]})
    sites = [s for s in grad_sites(repo, fn, mi)]
    ck.need(len(sites) == 1, f"{q}: expected one value_and_grad site")
    s = sites[0]
    lq = repo.resolve_expr(mi, s["loss"])
    ck.need(lq and repo.has(lq), f"{q}: loss function not resolved")
    lfn = repo.func(lq)
    sc = nf.scope_for(q, env)
    at = sc.cfg.node_of(s["app"]).id
    lp = positional_params(lfn)
    if any(isinstance(a, ast.Starred) for a in s["app"].args) or any(k.arg is None for k in s["app"].keywords) or len(s["app"].args) > len(lp) or s["argnums"][0] >= len(lp):
        raise AnalysisError(f"{q}: application `{short(s['app'], 80)}` of the differentiated loss cannot be bound to its signature (unrecognised form)")
    lenv = {}
    theta = lp[s["argnums"][0]]
    for k, a in bind_call(lfn, s["app"]).items():        # positional and keyword arguments, by the loss's signature
        lenv[k] = nf.poly(a, sc, at)
        if k != theta:
            # only the argument at argnums is differentiated: whatever the caller computed for the other arguments is a constant of the
            # differentiated function (the TD7 target is built outside of it)
            lenv[k] = nf.freeze(lenv[k])
    ck.need(theta in lenv, f"{q}: differentiated argument `{theta}` is not passed")
    ret = _ret(nf, lq, lenv)
    Lp = _loss_of(nf, ret)
    rs = regression_sites(nf, Lp)
    S.ob("R5-regression-form", "site-count", len(rs) == 2, f"{len(rs)} regression sites {[x['kind'] for x in rs]}", "documented: one Huber term per critic head", read=[Lp])
    theta_atom = lenv[theta].single_atom()
    ck.need(theta_atom is not None, f"{q}: differentiated argument is not a plain object")
    Ts = []
    for i, x in enumerate(rs):
        tag = f"site{i}"
        dtxt = nf.unfreeze(x["delta"]).canon() if x["delta"] is not None else None
        kind = _kind(S, nf, x, theta_atom, tag)
        if kind is None:
            continue
        okk = kind == "huber_abs"
        S.ob("R5-regression-form", f"{tag}:kind", okk, f"{kind} delta={dtxt}",
             "Huber applied to a signed error: quadratic instead of linear for large negative errors" if kind == "huber_signed" else "documented regression is Huber(|P - T|, min_priority)", read=[x["X"]])
        okd = dtxt == "min_priority"
        S.ob("R5-regression-form", f"{tag}:delta", okd, f"delta = {dtxt}", "Huber threshold must be min_priority", read=[x["delta"]])
        okw = x["coef"] == 1 and not x["weights"]
        S.ob("R5-regression-form", f"{tag}:unit-coefficient", okw, f"coefficient {x['coef']}, weights {x['weights']}", "scaled / weighted regression term", read=[Poly.atom(a) for a, _e in x["weights"]])
        pr = _prediction(S, nf, tag, x["X"], theta_atom)
        if pr is None:
            continue
        sign, P, rest = pr
        _target_side_frozen(S, nf, tag, rest, {"critic_target", "fixed_embedding_target", "next_action", ROLE["N"]})
        T = nf.unfreeze(rest.scale(-1) if sign == 1 else rest)
        Ts.append(T)
        pd = nf.deps_of(P)
        wrong = sorted(({"critic_target", "fixed_embedding_target", ROLE["N"]} & pd))
        okr = {ROLE["O"], ROLE["A"]} <= pd and not wrong and "fixed_embedding" in pd
        if not okr and not _raw_prediction(nf, P.scale(sign).single_atom(), theta_atom):
            S.undecided(f"{tag}:prediction-inputs", f"the differentiable term `{P.canon()[:80]}` is not an output of the critic itself but a function of one")
            continue
        S.ob("R3-prediction", f"{tag}:prediction-inputs", okr, f"P = {P.canon()[:110]}", "prediction must be critic.q_i(o||a, zsa, zs) with (zsa, zs) from the fixed embedding of (o, a)", read=[P])
        B = _target(S, nf, tag, T)
        if B is None:
            continue
        cen, unknown = census(nf, B, set(params))
        bm = nf.meta.get(B.single_atom() or "")
        okclip = bool(bm) and bm["fn"] == "clip" and len(bm["args"]) == 3 and not bm["kws"] and bm["args"][2].canon() == "q_max" and "q_min" in [a.canon() for a in bm["args"][:2]]
        if not okclip and unknown:
            S.undecided(f"{tag}:value-clip", f"the bootstrap contains `{str(unknown[0])[:60]}`, which this rule does not read")
        else:
            S.ob("R2-bootstrap-kind", f"{tag}:value-clip", okclip, f"B = {B.canon()[:100]}", "documented bootstrap is the target value clipped to [q_min, q_max] with unit coefficient", read=[B])
        want = ["clip <- {N}", "concat(axis=1) <- {N}", "critic_target <- {N}", "fixed_embedding_target <- {N}"]
        v = census_verdict(cen, unknown, want, set(params))
        if isinstance(v, str):
            S.undecided(f"{tag}:census", v)
        else:
            S.ob("R2-bootstrap-kind", f"{tag}:census", v, f"B = {B.canon()[:150]}", f"bootstrap calls {cen} differ from documented {sorted(want)}", read=[B])
    # the returned target equals the regression target
    rets = [n for n in ast.walk(fn) if isinstance(n, ast.Return) and n.value is not None]
    if len(rets) == 1 and Ts:
        rp = nf.poly(rets[0].value, sc, sc.cfg.node_of(rets[0]).id)
        if rp.elems is not None and len(rp.elems) == 3:
            from ..sem import same_ingredients
            got = nf.unfreeze(rp.elems[2])
            same = got == Ts[0]
            if not same and (any(nf.unfreeze(e) == Ts[0] for e in rp.elems if e.elems is None) or not same_ingredients(got, Ts[0])):
                S.undecided("returned-target", f"the third result `{got.canon()[:80]}` is not built from the ingredients of the regression target / the target is returned at another position")
            else:
                S.ob("R5-regression-form", "returned-target", same, "third result is the regression target", "the reported q_target differs from the one regressed onto", read=[rp.elems[2], Ts[0]])
    S.close()


_NSTEP = "rl_blox.blox.return_estimates.discounted_n_step_return"


def _mrq(ck, repo, nf):
    q = "rl_blox.algorithm.mrq.mrq_loss"
    fn = repo.func(q)
    mi = fn._module
    S = _Site(ck, nf, q, loc(mi, fn))
    env, ren = _roles_env(repo, fn, q)
    params = [p.single_atom() for p in env.values()]
    for p in ("q", "q_target", "encoder", "encoder_target", "next_action", "batch", "gamma", "reward_scale", "target_reward_scale"):
        ck.need(p in params, f"{q}: parameter `{p}` vanished")
    ret = _ret(nf, q, env)
    Lp = _loss_of(nf, ret)
    rs = regression_sites(nf, Lp)
    S.ob("R5-regression-form", "site-count", len(rs) == 2, f"{len(rs)} sites {[x['kind'] for x in rs]}", "one Huber term per head documented", read=[Lp])
    for i, x in enumerate(rs):
        tag = f"site{i}"
        kind = _kind(S, nf, x, "q", tag)
        if kind is None:
            continue
        okk = kind == "huber_abs" and x["delta"] is not None and x["delta"].canon() == "1" and x["coef"] == 1 and not x["weights"]
        S.ob("R5-regression-form", f"{tag}:kind", okk, f"{kind} delta={x['delta'].canon() if x['delta'] is not None else None} coef={x['coef']}", "documented: Huber(|P - T|, 1.0), unit weight",
             read=[x["X"], x["delta"]] + [Poly.atom(a) for a, _e in x["weights"]])
        pr = _prediction(S, nf, tag, x["X"], "q")
        if pr is None:
            continue
        sign, P, rest = pr
        _target_side_frozen(S, nf, tag, rest, {"q_target", "encoder_target", "next_action", ROLE["N"]})
        T = nf.unfreeze(rest.scale(-1) if sign == 1 else rest)
        # encoders are held fixed: the prediction must not depend differentiably on the encoder
        pg = set()
        for mono in P.terms:
            pg |= nf.term_gdeps(mono)
        oke = "encoder" not in pg and "encoder_target" not in pg
        S.ob("R4-stop-gradient", f"{tag}:encoder-fixed", oke, f"prediction differentiable in {sorted(pg)}", "the critic loss differentiates through the encoder (stop_gradient missing)", read=[P])
        pdm = nf.deps_of(P)
        wrong = sorted({"q_target", "encoder_target", ROLE["N"]} & pdm)
        okr = {ROLE["O"], ROLE["A"]} <= pdm and not wrong
        if not okr and ((not wrong and "batch" in pdm) or not _raw_prediction(nf, P.scale(sign).single_atom(), "q")):
            S.undecided(f"{tag}:prediction-inputs", "the fields of the batch are not visible in the prediction / the differentiable term is not an output of q itself")
        else:
            S.ob("R3-prediction", f"{tag}:prediction-inputs", okr, f"P = {P.canon()[:100]}", "prediction must be q.q_i(zsa(zs(o), a)) with the online encoder", read=[P])
        B = _mrq_target(S, nf, tag, T)
        if B is not None:
            cen, unknown = census(nf, B, set(params))
            want = ["encoder_target.encode_zs <- {N}", "encoder_target.encode_zsa <- {N}", "q_target <- {N}"]
            v = census_verdict(cen, unknown, want, set(params))
            if isinstance(v, str):
                S.undecided(f"{tag}:census", v)
            else:
                okc = v and len(B.terms) == 1 and list(B.terms.values())[0] == 1
                S.ob("R2-bootstrap-kind", f"{tag}:census", okc, f"B = {B.canon()[:140]}", f"bootstrap calls {cen} differ from documented {sorted(want)} (unit coefficient)", read=[B])
    S.close()


def _mrq_target(S, nf, tag, T):
    """B for T == (G + c * B * target_reward_scale) / reward_scale with (G, c) the two results of discounted_n_step_return(reward, terminated, gamma)."""
    key = f"{tag}:(G+c*B*s_target)/s"
    shown = f"T = {T.canon()[:150]}"
    G, C = f"{_NSTEP}(batch[2], batch[4], gamma)[0]", f"{_NSTEP}(batch[2], batch[4], gamma)[1]"
    a = _nested(nf, T, ("reward_scale", "target_reward_scale"))
    if a is not None:
        return S.undecided(key, f"the reward scales enter the target inside `{a[:80]}`")
    # the n-step calls the target is built from, with their arguments
    calls = {}
    for at_ in T.atoms():
        m = nf.meta.get(at_) or {}
        inner = nf.meta.get(m["args"][0].single_atom() or "") if m.get("fn") == "proj" and m.get("args") else None
        if inner and inner["fn"] == _NSTEP:
            calls[at_] = [x.canon() for x in inner["args"]] + [f"{k}={v_.canon()}" for k, v_ in sorted(inner["kws"].items())]
    if not any(a_ in calls for a_ in (G, C)):
        others = [c for c in calls.values() if c != ["batch[2]", "batch[4]", "gamma"]]
        if others and all(_LEAF.fullmatch(x) for c in others for x in c):
            S.ob("R1-target-identity", key, False, shown, f"the n-step return is computed from {others[0]} instead of (reward, terminated, gamma)", read=[T])
            return None
        return S.undecided(key, "the results of discounted_n_step_return(reward, terminated, gamma) are not visible in the target")
    sp = T.degree_split("reward_scale")
    ok1 = set(sp) == {-1}
    why = "" if ok1 else "target is not divided by reward_scale as a whole"
    B = None
    if ok1:
        U = sp[-1]
        cs = U.degree_split(C)
        if set(cs) != {0, 1} or cs[0].canon() != G:
            ok1, why = False, f"target numerator is not n_step_return + discount * ...: `{U.canon()[:120]}`"
        else:
            ts = cs[1].degree_split("target_reward_scale")
            if set(ts) != {1}:
                ok1, why = False, "bootstrap is not scaled by target_reward_scale exactly once"
            else:
                B = ts[1]
    r = S.ob("R1-target-identity", key, ok1, shown, why, read=[T])
    return B if r is True else None


def _sale(ck, repo, nf):
    q = "rl_blox.blox.embedding.sale.state_action_embedding_loss"
    fn = repo.func(q)
    S = _Site(ck, nf, q, loc(fn._module, fn))
    env, ren = _roles_env(repo, fn, q)
    params = [p.single_atom() for p in env.values()]
    ck.need(all(p in params for p in ("embedding", "observation", "action", "next_observation")), f"{q}: signature changed")
    Lp = _ret(nf, q, env)
    rs = regression_sites(nf, Lp)
    ok = len(rs) == 1 and rs[0]["kind"] == "sq" and rs[0]["coef"] == 1 and not rs[0]["weights"]
    S.ob("R6-representation", "mse-form", ok, f"{[x['kind'] for x in rs]}", "documented: mean squared error, unit weight", read=[Lp])
    if ok:
        P, rest = split_pt(nf, rs[0]["X"], "embedding")
        if not P.terms:
            S.undecided("prediction", "no term of the error depends differentiably on the embedding")
        else:
            okp = len(P.terms) == 1 and {"observation", "action"} <= nf.deps_of(P) and "next_observation" not in nf.deps_of(P)
            S.ob("R6-representation", "prediction", okp, f"P = {P.canon()[:100]}", "prediction must be zsa = embedding(observation, action)[0] only (target must be gradient-stopped)", read=[P])
        rest = nf.unfreeze(rest)
        td = nf.deps_of(rest)
        tm = nf.meta.get(next(iter(rest.atoms()), "")) or {} if len(rest.terms) == 1 and len(rest.atoms()) == 1 else {}
        targs = [x.canon() for x in tm.get("args", [])] + [f"{k}={v.canon()}" for k, v in sorted(tm.get("kws", {}).items())]
        okt = tm.get("fn") == "embedding.state_embedding" and targs == ["next_observation"]
        if not okt and not (tm.get("fn") == "embedding.state_embedding" and all(_LEAF.fullmatch(x) for x in targs)):
            S.undecided("target", f"`{rest.canon()[:80]}` is not a call embedding.state_embedding(<argument>)")
        else:
            S.ob("R6-representation", "target", okt, f"T = {rest.canon()[:100]}", "target must be stop_gradient(embedding.state_embedding(next_observation))", read=[rest])
    S.close()


# ---------------------------------------------------------------------------------------------------------
CALLERS = {
    # train function -> (loss qual, target-role loss params, theta param)
    "rl_blox.algorithm.nature_dqn.train_nature_dqn": (L + "nature_dqn_loss", ["q_target"], "q"),
    "rl_blox.algorithm.ddqn.train_ddqn": (L + "ddqn_loss", ["q_target"], "q"),
    "rl_blox.algorithm.per.train_ddqn_per": (L + "ddqn_per_loss", ["q_target"], "q"),
    "rl_blox.algorithm.ddpg.train_ddpg": (L + "ddpg_loss", ["q_target_value", "policy_target"], "q"),
    "rl_blox.algorithm.td3.train_td3": (L + "td3_loss", ["q_target"], "q"),
    "rl_blox.algorithm.td3_lap.train_td3_lap": (L + "td3_lap_loss", ["q_target"], "q"),
    "rl_blox.algorithm.sac.train_sac": (L + "sac_loss", ["q_target"], "q"),
    "rl_blox.algorithm.dqn.train_dqn": (L + "dqn_loss", [], "q"),
}
_RESOLVED = ("param", "clone", "param|clone", "obj", "attr")          # identities of known objects; everything else (phi, call, value, expr ...) is unresolved
_TSWL = "rl_blox.algorithm.dqn.train_step_with_loss"


def _known(ident):
    return all(isinstance(i, tuple) and i and i[0] in _RESOLVED and (i[0] != "attr" or _known(i[1])) for i in alternatives(ident))


def _batch_source(cfg, e, at, depth=0):
    """Where a batch-valued expression comes from: ('sample', defs key, unpack path) for the result of <buffer>.sample_batch(..) reached through plain
    copies, else None."""
    if depth > 6 or not isinstance(e, ast.Name):
        return None
    ds = cfg.defs_of(at, e.id)
    if len(ds) != 1 or ds[0].value is None:
        return None
    d = ds[0]
    v = d.value
    if d.kind == "assign" and isinstance(v, ast.Name):
        return _batch_source(cfg, v, d.node, depth + 1)
    if d.kind in ("assign", "unpack") and isinstance(v, ast.Call) and isinstance(v.func, ast.Attribute) and v.func.attr == "sample_batch":
        return ("sample", d.node, tuple(d.path or ()) if d.kind == "unpack" else ())
    return None


def _defining_call(cfg, e, at, depth=0):
    """(call, node) that produces the value of ``e``, through plain copies."""
    if isinstance(e, ast.Call):
        return e, at
    if depth < 6 and isinstance(e, ast.Name):
        ds = cfg.defs_of(at, e.id)
        if len(ds) == 1 and ds[0].kind == "assign" and ds[0].value is not None:
            return _defining_call(cfg, ds[0].value, ds[0].node, depth + 1)
    return None


def _batch_field(cfg, e, at, order, depth=0):
    """(batch expression, node to read it at, field position) when ``e`` is a field of a batch: `b.next_observation`, `b[3]`, or a copy of one."""
    if depth > 6:
        return None
    if isinstance(e, ast.Attribute) and e.attr in order:
        return e.value, at, order.index(e.attr)
    if isinstance(e, ast.Subscript) and isinstance(e.slice, ast.Constant) and isinstance(e.slice.value, int) and e.slice.value >= 0:
        return e.value, at, e.slice.value
    if isinstance(e, ast.Name):
        ds = cfg.defs_of(at, e.id)
        if len(ds) == 1 and ds[0].value is not None:
            d = ds[0]
            if d.kind == "assign":
                return _batch_field(cfg, d.value, d.node, order, depth + 1)
            if d.kind == "unpack" and len(d.path or ()) == 1 and isinstance(d.path[0], int) and isinstance(d.value, ast.Name):
                return d.value, d.node, d.path[0]
    return None


def _callers(ck, repo, order):
    from .c06 import HELPERS
    res = Resolver(repo)
    idn = Ident(repo)
    nfc = NF(repo, inline_calls=False)
    tsw = repo.func(_TSWL)
    tp = positional_params(tsw)
    ck.need(len(tp) >= 3 and tsw.args.vararg is not None, f"{_TSWL}: signature changed (anchor vanished)")
    n = 0
    und = []
    for tq, (lq, troles, theta) in CALLERS.items():
        fn = repo.func(tq)
        mi = fn._module
        cfg = res.cfg_of(fn)
        lfn = repo.func(lq)
        lparams = positional_params(lfn)
        _lenv, lren = _roles_env(repo, lfn, lq)
        tenv, _tren = _roles_env(repo, fn, tq)
        # target identities of this loop: second arguments of the target-update helpers
        tids, oids = [], []
        from .c06 import _helper_calls
        # (online, target) argument pairs of every target-update helper call of this loop: keyword calls and loops over literal
        # pairs (also those produced by helper expansion) are resolved by the same routine C06 uses
        for hn, hc, hkind, (oe, te), hkey in _helper_calls(repo, res, fn, cfg):
            oids.append(idn.of(oe, mi, cfg, hn, tq))
            tids.append(idn.of(te, mi, cfg, hn, tq))
        found = False
        if troles and not tids:
            raise AnalysisError(f"{tq}: no target-update helper call is visible in this loop, so its target networks cannot be identified (unrecognised form)")

        def role_of(ident):
            """'target' / 'online' / 'other' for a known object, None for an identity that was not resolved."""
            if not _known(ident):
                return None
            alts = alternatives(ident)

            def among(a, ids):      # the object, one of its sub-modules, or the object it is a sub-module of
                return any(has_base(a, i) or has_base(i, a) for i in ids)
            if all(among(a, tids) for a in alts) and not any(among(a, oids) for a in alts):
                return "target"
            if any(among(a, tids) for a in alts):
                return None
            return "online" if all(among(a, oids) for a in alts) else "other"
        for node in cfg.nodes:
            if node.ast is None or node.kind != "stmt":
                continue
            for c in ast.walk(node.ast):
                if not isinstance(c, ast.Call):
                    continue
                t = res.resolve(c.func, mi, cfg, node.id)
                if not (t and t.qual == _TSWL):
                    continue
                # train_step = partial(train_step_with_loss, <loss>): prefix[0] is the loss
                ck.need(t.prefix and repo.resolve_expr(mi, t.prefix[0]) == lq, f"{tq}: train_step is not bound to {lq} (anchor vanished)")
                found = True
                n += 1
                where = loc(mi, c)
                if any(isinstance(a, ast.Starred) for a in c.args) or any(k.arg is None for k in c.keywords):
                    raise AnalysisError(f"{tq}: train_step call `{short(c, 60)}` unpacks its arguments (unrecognised form)")
                # train_step_with_loss(loss, optimizer, q, *args, **kwargs): the loss receives (q, *args, **kwargs) - bound by the two signatures
                b0 = bind_call(tsw, c, prefix=t.prefix)
                for k, v in t.kwargs.items():
                    b0.setdefault(k, v)
                first = b0.get(tp[2])
                ck.need(first is not None, f"{tq}: train_step call passes no differentiated module")
                b = dict(zip(lparams, [first] + list(b0.get("*" + tsw.args.vararg.arg, []))))
                for k, v in b0.items():
                    if k not in tp and not k.startswith("*"):
                        b[k] = v

                def arg(canon):
                    return b.get(_actual(lren, canon))
                th = arg(theta)
                th_role = role_of(idn.of(th, mi, cfg, node.id, tq)) if th is not None else None
                shown = f"{theta} <- `{short(th) if th is not None else None}`"
                if th is None or th_role is None:
                    und.append(f"{tq}: online:{theta}: the object passed, {shown}, could not be identified (unrecognised form)")
                else:
                    ok = th_role == "online" or (th_role == "other" and not oids)
                    ck.ob("R7-caller-roles", tq, f"online:{theta}", ok, shown,
                          "" if ok else "the differentiated (online) critic parameter receives a target object or an object that is never copied to a target", where)
                for tr in troles:
                    a = arg(tr)
                    a_role = role_of(idn.of(a, mi, cfg, node.id, tq)) if a is not None else None
                    shown = f"{tr} <- `{short(a) if a is not None else None}`"
                    if a is None or a_role is None:
                        und.append(f"{tq}: target:{tr}: the object passed, {shown}, could not be identified (unrecognised form)")
                        continue
                    ok = a_role == "target"
                    ck.ob("R7-caller-roles", tq, f"target:{tr}", ok, shown,
                          "" if ok else f"the target-role parameter `{tr}` of {lq.rsplit('.', 1)[1]} does not receive a target network of this loop (online and target swapped?)", where)
                # gamma: the value passed is the loop's own gamma parameter (read through copies / float() / asarray)
                g = arg("gamma")
                shown = f"gamma <- `{short(g) if g is not None else None}`"
                gp = nfc.poly(g, Scope(cfg, mi, tenv, tq), node.id) if g is not None else None
                ga = gp.single_atom() if gp is not None else None
                tparams = {p.single_atom() for p in tenv.values()}
                if g is None or "gamma" not in tparams or not (gp.is_const() or (ga in tparams)):
                    und.append(f"{tq}: gamma: {shown} is not traced to a parameter of the loop (unrecognised form)")
                else:
                    ok = ga == "gamma"
                    ck.ob("R7-caller-roles", tq, "gamma", ok, shown, "" if ok else "the discount passed to the loss is not the gamma parameter", where)
                # batch: the unmodified result of sample_batch
                bt = arg("batch")
                shown = f"batch <- `{short(bt) if bt is not None else None}`"
                src = _batch_source(cfg, bt, node.id) if bt is not None else None
                if src is None:
                    und.append(f"{tq}: batch: {shown} is not traced to a sample_batch call (unrecognised form)")
                else:
                    okb = src[2] in ((), (0,))
                    ck.ob("R7-caller-roles", tq, "batch", okb, shown, "" if okb else "the batch passed to the loss is not the batch component of the sample_batch result", where)
                # TD3 / TD3-LAP: the smoothed next action comes from the *target* policy on the successor observations of this batch.  Read by dataflow: the
                # call that produces the loss's `next_action` argument receives exactly one network of the loop and exactly one field of the batch
                if "next_action" in {lren.get(p_, p_) for p_ in lparams}:
                    na = arg("next_action")
                    dc = _defining_call(cfg, na, node.id) if na is not None else None
                    key = "smoothed-next-action"
                    if dc is None:
                        und.append(f"{tq}: {key}: `{short(na) if na is not None else None}` is not the result of a visible call (unrecognised form)")
                        continue
                    c2, at2 = dc
                    args2 = [a for a in c2.args if not isinstance(a, ast.Starred)] + [k.value for k in c2.keywords if k.arg]
                    objs = [r for a in args2 for r in [role_of(idn.of(a, mi, cfg, at2, tq))] if r in ("target", "online")]
                    flds = [(f, s_) for a in args2 for f in [_batch_field(cfg, a, at2, order)] if f is not None for s_ in [_batch_source(cfg, f[0], f[1])] if s_ is not None]
                    if len(objs) != 1 or len(flds) != 1 or len(args2) != len(c2.args) + len(c2.keywords) or (src is not None and flds[0][1][1] != src[1]) or flds[0][1][2] not in ((), (0,)):
                        und.append(f"{tq}: {key}: `{short(c2, 70)}`: the policy object or the batch field passed could not be identified (unrecognised form)")
                        continue
                    ok = objs[0] == "target" and flds[0][0][2] == 3
                    ck.ob("R7-caller-roles", tq, key, ok, f"`{short(c2, 70)}`", "" if ok else "target-policy smoothing must use the target policy on the batch's successor observations", loc(mi, c2))
        ck.need(found, f"{tq}: no train_step call found (anchor vanished)")
    ck.floor("train-step-call-sites", n, 8)
    if und:
        raise AnalysisError("; ".join(und[:4]))


# ---- self-validation variants -------------------------------------------------------------------------------
_F = "rl_blox/blox/losses.py"
_TD3T = "    q_next = jax.lax.stop_gradient(q_target(next_obs_act).squeeze())\n    q_target_value = reward + (1 - terminated) * gamma * q_next\n    return _mse_clipped_double_q_loss(q_target_value, q, action, observation)\n\n\ndef _mse"
MUTANTS = [
    {"id": "c03-td3-mask-dropped", "file": _F, "rule": "R1", "find": _TD3T, "replace": _TD3T.replace("reward + (1 - terminated) * gamma * q_next", "reward + gamma * q_next")},
    {"id": "c03-td3-one-plus-d", "file": _F, "rule": "R1", "find": _TD3T, "replace": _TD3T.replace("(1 - terminated)", "(1 + terminated)")},
    {"id": "c03-td3-gamma-dropped", "file": _F, "rule": "R1", "find": _TD3T, "replace": _TD3T.replace("(1 - terminated) * gamma * q_next", "(1 - terminated) * q_next")},
    {"id": "c03-td3-reward-in-mask", "file": _F, "rule": "R1", "find": _TD3T, "replace": _TD3T.replace("reward + (1 - terminated) * gamma * q_next", "(1 - terminated) * (reward + gamma * q_next)")},
    {"id": "c03-td3-factor-two", "file": _F, "rule": "R2", "find": _TD3T, "replace": _TD3T.replace("gamma * q_next", "gamma * 2 * q_next")},
    {"id": "c03-td3-online-bootstrap", "file": _F, "rule": "R", "find": _TD3T, "replace": _TD3T.replace("q_target(next_obs_act)", "q(next_obs_act)")},
    {"id": "c03-td3-obs-bootstrap", "file": _F, "rule": "R2", "find": "    next_obs_act = jnp.concatenate((next_observation, next_action), axis=-1)\n    q_next = jax.lax.stop_gradient(q_target(next_obs_act).squeeze())\n    q_target_value = reward + (1 - terminated) * gamma * q_next\n    return _mse_clipped",
     "replace": "    next_obs_act = jnp.concatenate((observation, next_action), axis=-1)\n    q_next = jax.lax.stop_gradient(q_target(next_obs_act).squeeze())\n    q_target_value = reward + (1 - terminated) * gamma * q_next\n    return _mse_clipped"},
    {"id": "c03-dqn-no-stop-gradient", "file": _F, "rule": "R4", "find": "    next_q = jax.lax.stop_gradient(q(next_obs))\n    max_next_q = jnp.max(next_q, axis=1)\n\n    q_target_values", "replace": "    next_q = q(next_obs)\n    max_next_q = jnp.max(next_q, axis=1)\n\n    q_target_values"},
    {"id": "c03-dqn-min", "file": _F, "rule": "R2", "find": "    max_next_q = jnp.max(next_q, axis=1)\n\n    q_target_values", "replace": "    max_next_q = jnp.min(next_q, axis=1)\n\n    q_target_values"},
    {"id": "c03-nature-axis0", "file": _F, "rule": "R2", "find": "    next_q = jax.lax.stop_gradient(q_target(next_obs))\n    max_next_q = jnp.max(next_q, axis=1)", "replace": "    next_q = jax.lax.stop_gradient(q_target(next_obs))\n    max_next_q = jnp.max(next_q, axis=0)"},
    {"id": "c03-ddqn-swapped-nets", "file": _F, "rule": "R", "nth": 0, "find": "    next_q = jax.lax.stop_gradient(q(next_obs))\n    indices = jnp.argmax(next_q, axis=1).reshape(-1, 1)\n    next_q_t = jax.lax.stop_gradient(q_target(next_obs))",
     "replace": "    next_q = jax.lax.stop_gradient(q_target(next_obs))\n    indices = jnp.argmax(next_q, axis=1).reshape(-1, 1)\n    next_q_t = jax.lax.stop_gradient(q(next_obs))"},
    {"id": "c03-ddqn-select-at-obs", "file": _F, "rule": "R2", "nth": 0, "find": "    next_q = jax.lax.stop_gradient(q(next_obs))\n    indices = jnp.argmax(next_q, axis=1)", "replace": "    next_q = jax.lax.stop_gradient(q(obs))\n    indices = jnp.argmax(next_q, axis=1)"},
    {"id": "c03-per-unweighted", "file": _F, "rule": "R5", "find": "    weighted_loss = is_ratio * (td_error**2)", "replace": "    weighted_loss = td_error**2"},
    {"id": "c03-ddpg-online-policy", "file": _F, "rule": "R", "find": "    next_actions = jax.lax.stop_gradient(policy_target(next_observation))", "replace": "    next_actions = jax.lax.stop_gradient(policy_target(observation))"},
    {"id": "c03-sac-plus-entropy", "file": _F, "rule": "R2", "find": "        q_target(next_obs_act).squeeze() - alpha * next_log_pi", "replace": "        q_target(next_obs_act).squeeze() + alpha * next_log_pi"},
    {"id": "c03-sac-entropy-outside-mask", "file": _F, "rule": "R1", "find": "    q_next_target = jax.lax.stop_gradient(\n        q_target(next_obs_act).squeeze() - alpha * next_log_pi\n    )\n    q_target_value = reward + (1 - terminated) * gamma * q_next_target",
     "replace": "    q_next_target = jax.lax.stop_gradient(q_target(next_obs_act).squeeze())\n    q_target_value = (\n        reward\n        - gamma * alpha * next_log_pi\n        + (1 - terminated) * gamma * q_next_target\n    )"},
    {"id": "c03-lap-one-head", "file": _F, "rule": "R5", "find": "        huber_loss(td_error1, min_priority).mean()\n        + huber_loss(td_error2, min_priority).mean(),", "replace": "        2.0 * huber_loss(td_error1, min_priority).mean(),"},
    {"id": "c03-lap-signed-huber", "file": _F, "rule": "R5", "find": "    td_error1 = jnp.abs(q1_predicted - q_target_value)", "replace": "    td_error1 = q1_predicted - q_target_value"},
    {"id": "c03-clipped-max", "file": "rl_blox/blox/double_qnet.py", "rule": "R2", "find": "        return jnp.minimum(self.q1(*args, **kwargs), self.q2(*args, **kwargs))", "replace": "        return jnp.maximum(self.q1(*args, **kwargs), self.q2(*args, **kwargs))"},
    {"id": "c03-td7-no-clip", "file": "rl_blox/algorithm/td7.py", "rule": "R2", "find": "    q_next_target = jnp.clip(q_next_target, q_min, q_max)\n", "replace": ""},
    {"id": "c03-td7-target-embedding-online", "file": "rl_blox/algorithm/td7.py", "rule": "R2", "find": "    next_zsa, next_zs = fixed_embedding_target(next_observation, next_action)", "replace": "    next_zsa, next_zs = fixed_embedding(next_observation, next_action)"},
    {"id": "c03-td7-signed-huber", "file": "rl_blox/algorithm/td7.py", "rule": "R5", "edits": [
        ("        optax.huber_loss(\n            predictions=q1_pred, targets=q_target, delta=min_priority\n        ).mean()", "        huber_loss(q1_pred - q_target, min_priority).mean()"),
        ("from ..blox.replay_buffer import LAP, lap_priority", "from ..blox.losses import huber_loss\nfrom ..blox.replay_buffer import LAP, lap_priority")]},
    {"id": "c03-mrq-no-sg-encoder", "file": "rl_blox/algorithm/mrq.py", "rule": "R4", "find": "    zsa = jax.lax.stop_gradient(encoder.encode_zsa(zs, action))", "replace": "    zsa = encoder.encode_zsa(zs, action)"},
    {"id": "c03-mrq-scale-swapped", "file": "rl_blox/algorithm/mrq.py", "rule": "R1", "find": "        n_step_return + discount * q_next * target_reward_scale\n    ) / reward_scale", "replace": "        n_step_return + discount * q_next * reward_scale\n    ) / target_reward_scale"},
    {"id": "c03-mrq-online-encoder-target", "file": "rl_blox/algorithm/mrq.py", "rule": "R2", "find": "    next_zs = jax.lax.stop_gradient(encoder_target.encode_zs(next_observation))", "replace": "    next_zs = jax.lax.stop_gradient(encoder.encode_zs(next_observation))"},
    {"id": "c03-sale-no-sg", "file": "rl_blox/blox/embedding/sale.py", "rule": "R6", "find": "    zsp = jax.lax.stop_gradient(embedding.state_embedding(next_observation))", "replace": "    zsp = embedding.state_embedding(next_observation)"},
    {"id": "c03-td3-swapped-at-call", "file": "rl_blox/algorithm/td3.py", "rule": "R7", "find": "                    q_optimizer,\n                    q,\n                    q_target,\n                    next_actions,", "replace": "                    q_optimizer,\n                    q_target,\n                    q,\n                    next_actions,"},
    {"id": "c03-td3-online-smoothing", "file": "rl_blox/algorithm/td3.py", "rule": "R7", "find": "                    policy_target, batch.next_observation, sampling_key", "replace": "                    policy, batch.next_observation, sampling_key"},
    {"id": "c03-sac-wrong-gamma", "file": "rl_blox/algorithm/sac.py", "rule": "R7", "find": "                batch,\n                gamma,\n            )\n            stats = {\"q loss\"", "replace": "                batch,\n                tau,\n            )\n            stats = {\"q loss\""},
    # evidence paths added by the audit: mask read semantically, weights with exponents, dataflow reading of the smoothing call, n-step arguments, wrong tuple component
    {"id": "c03-td3-where-swapped", "file": _F, "rule": "R1", "find": _TD3T, "replace": _TD3T.replace("reward + (1 - terminated) * gamma * q_next", "jnp.where(terminated, reward + gamma * q_next, reward)")},
    {"id": "c03-td7-mask-inside-clip", "file": "rl_blox/algorithm/td7.py", "rule": "R1", "edits": [
        ("    q_next_target = jnp.clip(q_next_target, q_min, q_max)\n", "    q_next_target = jnp.clip((1 - terminated) * q_next_target, q_min, q_max)\n"),
        ("    q_target = reward + (1 - terminated) * gamma * q_next_target", "    q_target = reward + gamma * q_next_target")]},
    {"id": "c03-per-weight-squared", "file": _F, "rule": "R5", "find": "    weighted_loss = is_ratio * (td_error**2)", "replace": "    weighted_loss = is_ratio**2 * (td_error**2)"},
    {"id": "c03-td3-smoothing-at-obs", "file": "rl_blox/algorithm/td3.py", "rule": "R7", "find": "                    policy_target, batch.next_observation, sampling_key", "replace": "                    policy_target, batch.observation, sampling_key"},
    {"id": "c03-per-batch-wrong-component", "file": "rl_blox/algorithm/per.py", "rule": "R7", "find": "                transition_batch, is_ratio = replay_buffer.sample_batch(", "replace": "                is_ratio, transition_batch = replay_buffer.sample_batch("},
    {"id": "c03-mrq-nstep-args-swapped", "file": "rl_blox/algorithm/mrq.py", "rule": "R1", "find": "    n_step_return, discount = discounted_n_step_return(\n        reward, terminated, gamma\n    )", "replace": "    n_step_return, discount = discounted_n_step_return(\n        terminated, reward, gamma\n    )"},
    {"id": "c03-sale-target-at-obs", "file": "rl_blox/blox/embedding/sale.py", "rule": "R6", "find": "    zsp = jax.lax.stop_gradient(embedding.state_embedding(next_observation))", "replace": "    zsp = jax.lax.stop_gradient(embedding.state_embedding(observation))"},
    {"id": "c03-dq-mean-difference", "file": "rl_blox/blox/double_qnet.py", "rule": "R2", "find": "        return 0.5 * (self.q1(*args, **kwargs) + self.q2(*args, **kwargs))", "replace": "        return 0.5 * (self.q1(*args, **kwargs) - self.q2(*args, **kwargs))"},
    {"id": "c03-dq-same-head-twice", "file": "rl_blox/blox/double_qnet.py", "rule": "R2", "find": "        return jnp.minimum(self.q1(*args, **kwargs), self.q2(*args, **kwargs))", "replace": "        return jnp.minimum(self.q1(*args, **kwargs), self.q1(*args, **kwargs))"},
    {"id": "c03-td7-returned-target-unmasked", "file": "rl_blox/algorithm/td7.py", "rule": "R5", "find": "    return q_loss_value, max_abs_td_error, q_target\n", "replace": "    return q_loss_value, max_abs_td_error, reward + gamma * q_next_target\n"},
    {"id": "c03-ddpg-bootstrap-tanh", "file": _F, "rule": "R2", "find": "    q_next = jax.lax.stop_gradient(q_target_value(next_obs_act).squeeze())", "replace": "    q_next = jax.lax.stop_gradient(jnp.tanh(q_target_value(next_obs_act).squeeze()))"},
    {"id": "c03-lap-bootstrap-not-frozen", "file": _F, "rule": "R4", "nth": 1, "find": '    q_next = jax.lax.stop_gradient(q_target(next_obs_act).squeeze())\n    q_target_value = reward + (1 - terminated) * gamma * q_next\n', "replace": '    q_next = q_target(next_obs_act).squeeze()\n    q_target_value = reward + (1 - terminated) * gamma * q_next\n'},
    {"id": "c03-td3-bootstrap-not-frozen", "file": _F, "rule": "R4", "nth": 0, "find": '    q_next = jax.lax.stop_gradient(q_target(next_obs_act).squeeze())\n    q_target_value = reward + (1 - terminated) * gamma * q_next\n', "replace": '    q_next = q_target(next_obs_act).squeeze()\n    q_target_value = reward + (1 - terminated) * gamma * q_next\n'},
    {"id": "c03-sac-next-value-not-frozen", "file": _F, "rule": "R4", "find": "    q_next_target = jax.lax.stop_gradient(\n        q_target(next_obs_act).squeeze() - alpha * next_log_pi\n    )\n", "replace": "    q_next_target = q_target(next_obs_act).squeeze() - jax.lax.stop_gradient(alpha * next_log_pi)\n"},
    {"id": "c03-mrq-target-not-frozen", "file": "rl_blox/algorithm/mrq.py", "rule": "R4", "find": "    q_next = jax.lax.stop_gradient(", "replace": "    q_next = (", "accept_error": True},
]
BENIGN = [
    {"id": "c03-b-lap-whole-target-frozen", "file": _F, "nth": 1, "find": '    q_next = jax.lax.stop_gradient(q_target(next_obs_act).squeeze())\n    q_target_value = reward + (1 - terminated) * gamma * q_next\n', "replace": '    q_next = q_target(next_obs_act).squeeze()\n    q_target_value = jax.lax.stop_gradient(reward + (1 - terminated) * gamma * q_next)\n'},
    {"id": "c03-b-td3-sg-alias", "file": _F, "nth": 0, "find": '    q_next = jax.lax.stop_gradient(q_target(next_obs_act).squeeze())\n    q_target_value = reward + (1 - terminated) * gamma * q_next\n', "replace": '    sg = jax.lax.stop_gradient\n    q_next = sg(q_target(next_obs_act)).squeeze()\n    q_target_value = reward + (1 - terminated) * gamma * q_next\n'},
    {"id": "c03-b-td3-not-done", "file": _F, "find": _TD3T, "replace": _TD3T.replace("    q_target_value = reward + (1 - terminated) * gamma * q_next", "    not_done = 1 - terminated\n    q_target_value = reward + gamma * not_done * q_next")},
    {"id": "c03-b-td3-expanded", "file": _F, "find": _TD3T, "replace": _TD3T.replace("reward + (1 - terminated) * gamma * q_next", "reward + gamma * q_next - terminated * gamma * q_next")},
    {"id": "c03-b-td3-helper", "file": _F, "find": _TD3T, "replace": "    q_next = jax.lax.stop_gradient(q_target(next_obs_act).squeeze())\n    q_target_value = _td(reward, terminated, gamma, q_next)\n    return _mse_clipped_double_q_loss(q_target_value, q, action, observation)\n\n\ndef _td(r, d, g, b):\n    return r + (1 - d) * g * b\n\n\ndef _mse"},
    {"id": "c03-b-dqn-method-max", "file": _F, "find": "    next_q = jax.lax.stop_gradient(q(next_obs))\n    max_next_q = jnp.max(next_q, axis=1)\n\n    q_target_values", "replace": "    next_q = jax.lax.stop_gradient(q(next_obs))\n    max_next_q = next_q.max(axis=1)\n\n    q_target_values"},
    {"id": "c03-b-ddpg-hstack", "file": _F, "find": "    next_obs_act = jnp.concatenate((next_observation, next_actions), axis=-1)\n    q_next = jax.lax.stop_gradient(q_target_value(next_obs_act).squeeze())", "replace": "    next_obs_act = jnp.concatenate([next_observation, next_actions], axis=-1)\n    q_next = jax.lax.stop_gradient(q_target_value(next_obs_act).squeeze())"},
    {"id": "c03-b-mse-manual", "file": _F, "find": "    q1_loss = optax.squared_error(\n        predictions=q1_predicted, targets=q_target_value\n    ).mean()", "replace": "    q1_loss = jnp.mean((q_target_value - q1_predicted) ** 2)"},
    {"id": "c03-b-sac-sg-split", "file": _F, "find": "    q_next_target = jax.lax.stop_gradient(\n        q_target(next_obs_act).squeeze() - alpha * next_log_pi\n    )", "replace": "    q_next_target = jax.lax.stop_gradient(\n        q_target(next_obs_act).squeeze()\n    ) - alpha * next_log_pi"},
    # refactoring kinds the rules were made tolerant to by the audit (each is behaviour preserving)
    {"id": "c03-b-dqn-axis-last", "file": _F, "find": "    next_q = jax.lax.stop_gradient(q(next_obs))\n    max_next_q = jnp.max(next_q, axis=1)\n\n    q_target_values", "replace": "    next_q = jax.lax.stop_gradient(q(next_obs))\n    max_next_q = jnp.max(next_q, axis=-1)\n\n    q_target_values"},
    {"id": "c03-b-ddqn-newaxis-positional-axis", "file": _F, "nth": 0, "find": "    indices = jnp.argmax(next_q, axis=1).reshape(-1, 1)", "replace": "    indices = jnp.expand_dims(jnp.argmax(next_q, 1), 1)"},
    {"id": "c03-b-per-signed-square", "file": _F, "edits": [("    td_error = jnp.abs(pred - target)\n", "    delta = pred - target\n    td_error = jnp.abs(delta)\n"), ("    weighted_loss = is_ratio * (td_error**2)", "    weighted_loss = jax.lax.stop_gradient(is_ratio) * delta**2")]},
    {"id": "c03-b-td3-batch-fields-renamed-params", "file": _F, "nth": 0, "edits": [
        ("    next_action: jnp.ndarray,\n    batch: tuple[\n        jnp.ndarray, jnp.ndarray, jnp.ndarray, jnp.ndarray, jnp.ndarray\n    ],\n    gamma: float,\n) -> tuple[float, float]:",
         "    next_action: jnp.ndarray,\n    transitions: tuple[\n        jnp.ndarray, jnp.ndarray, jnp.ndarray, jnp.ndarray, jnp.ndarray\n    ],\n    discount: float,\n) -> tuple[float, float]:"),
        ("    observation, action, reward, next_observation, terminated = batch\n    next_obs_act = jnp.concatenate((next_observation, next_action), axis=-1)\n    q_next = jax.lax.stop_gradient(q_target(next_obs_act).squeeze())\n    q_target_value = reward + (1 - terminated) * gamma * q_next\n    return _mse_clipped",
         "    observation, action = transitions.observation, transitions.action\n    reward, next_observation, terminated = transitions.reward, transitions.next_observation, transitions.termination\n    next_obs_act = jnp.concatenate((next_observation, next_action), axis=-1)\n    q_next = jax.lax.stop_gradient(q_target(next_obs_act).squeeze())\n    q_target_value = reward + (1 - terminated) * discount * q_next\n    return _mse_clipped")]},
    {"id": "c03-b-td3-where-mask", "file": _F, "find": _TD3T, "replace": _TD3T.replace("reward + (1 - terminated) * gamma * q_next", "jnp.where(terminated, reward, reward + gamma * q_next)")},
    {"id": "c03-b-td3-logical-not-mask", "file": _F, "find": _TD3T, "replace": _TD3T.replace("reward + (1 - terminated) * gamma * q_next", "reward + jnp.logical_not(terminated) * gamma * q_next")},
    {"id": "c03-b-lap-delta-keyword", "file": _F, "find": "        huber_loss(td_error1, min_priority).mean()\n        + huber_loss(td_error2, min_priority).mean(),", "replace": "        huber_loss(td_error1, delta=min_priority).mean()\n        + huber_loss(abs_errors=td_error2, delta=min_priority).mean(),"},
    {"id": "c03-b-sac-hstack", "file": _F, "find": "    next_obs_act = jnp.concatenate((next_observation, next_actions), axis=-1)\n    q_next_target = jax.lax.stop_gradient(", "replace": "    next_obs_act = jnp.hstack((next_observation, next_actions))\n    q_next_target = jax.lax.stop_gradient("},
    {"id": "c03-b-dq-methods-in-mixin", "file": "rl_blox/blox/double_qnet.py", "edits": [
        ("class ContinuousClippedDoubleQNet(nnx.Module):", "class _TwoHeads:\n    def __call__(self, *args, **kwargs) -> jnp.ndarray:\n        first = self.q1(*args, **kwargs)\n        second = self.q2(*args, **kwargs)\n        return jnp.minimum(second, first)\n\n    def mean(self, *args, **kwargs) -> jnp.ndarray:\n        return (self.q1(*args, **kwargs) + self.q2(*args, **kwargs)) / 2\n\n\nclass ContinuousClippedDoubleQNet(_TwoHeads, nnx.Module):"),
        ("    def __call__(self, *args, **kwargs) -> jnp.ndarray:\n        return jnp.minimum(self.q1(*args, **kwargs), self.q2(*args, **kwargs))\n\n    def mean(self, *args, **kwargs) -> jnp.ndarray:\n        \"\"\"Predict mean of both Q networks.\"\"\"\n        return 0.5 * (self.q1(*args, **kwargs) + self.q2(*args, **kwargs))\n", "    n_heads = 2\n")]},
    {"id": "c03-b-td7-optax-positional-delta", "file": "rl_blox/algorithm/td7.py", "find": "        optax.huber_loss(\n            predictions=q1_pred, targets=q_target, delta=min_priority\n        ).mean()", "replace": "        optax.huber_loss(q1_pred, q_target, min_priority).mean()"},
    {"id": "c03-b-sac-float-gamma", "file": "rl_blox/algorithm/sac.py", "find": "                batch,\n                gamma,\n            )\n            stats = {\"q loss\"", "replace": "                batch,\n                float(gamma),\n            )\n            stats = {\"q loss\""},
    {"id": "c03-b-td3-call-keywords-copies", "file": "rl_blox/algorithm/td3.py", "edits": [
        ("                    policy_target, batch.next_observation, sampling_key", "                    policy_target, batch[3], sampling_key"),
        ("                q_loss_value, q_mean = train_step(\n                    q_optimizer,\n                    q,\n                    q_target,\n                    next_actions,\n                    batch,\n                    gamma,\n                )",
         "                discount = gamma\n                transitions = batch\n                q_loss_value, q_mean = train_step(\n                    q_optimizer,\n                    q,\n                    q_target,\n                    next_actions,\n                    batch=transitions,\n                    gamma=discount,\n                )")]},
    {"id": "c03-b-buffer-keys-constant", "file": "rl_blox/blox/replay_buffer.py", "nth": 0, "edits": [
        ("            keys = [\n                \"observation\",\n                \"action\",\n                \"reward\",\n                \"next_observation\",\n                \"termination\",\n            ]\n", "            keys = list(_DEFAULT_KEYS)\n"),
        ("import copy\n", "import copy\n\n_DEFAULT_KEYS = (\"observation\", \"action\", \"reward\", \"next_observation\", \"termination\")\n")]},
]
